#!/usr/bin/env python
"""Behavioural equivalence check of two source trees of the conditionalrewards repo.

usage:  python equiv_test.py <path-to-patched-root> <path-to-clean-root>

Both trees are loaded in separate subprocesses (``--worker``).  Every worker
runs the same deterministic list of cases (the case list depends only on the
seed, never on the tree) and dumps, for every case, a string describing the
observable outcome: repr() of the results or the exception type and message,
the transition lists after the call (mutation check), log records and report
files.  The parent compares the two dumps case by case, prints PASS and exits 0
when nothing differs, prints the differing cases and FAIL (exit 1) otherwise.

Aimed at property C05 (final strategies = reward-optimal among reachability
optimal actions): several hundred random games (acyclic with many ties, cyclic
stopping games, wild games with cycles between player states, several finals,
dead states, unreachable states, duplicate action names, both pruning modes),
boundary and malformed games, direct calls of every node / solver method the
solve pipeline uses (with rounding-boundary values, NaN, inf, ints, bools,
several floors), the batch driver and its report writer.

Every solve runs under a time budget (the clean tree does not converge on some
non-stopping games).  A case that timed out in exactly one tree is re-run in
both trees with a much larger budget before it is judged.
"""
import copy
import io
import json
import logging
import math
import os
import random
import shutil
import signal
import subprocess
import sys
import tempfile
import time

SEED = 50505
BUDGET = 0.35           # seconds per solve
RETRY_BUDGET = 4.0
N_RANDOM_GAMES = 420
N_NODE_CASES = 260
N_SOLVER_CASES = 160
N_DRIVER_GAMES = 60

P1, P2, PR = "Player 1", "Player 2", "Probabilistic"


# --------------------------------------------------------------------------
# time budget
# --------------------------------------------------------------------------
WORK_DIR = None


class Timeout(BaseException):
    pass


def _on_alarm(signum, frame):
    raise Timeout()


def with_budget(budget, fn, *args, **kwargs):
    """Outcome string of fn(*args): result repr, exception, or TIMEOUT."""
    signal.signal(signal.SIGALRM, _on_alarm)
    signal.setitimer(signal.ITIMER_REAL, budget)
    try:
        try:
            res = fn(*args, **kwargs)
            out = "OK " + repr(res)
        finally:
            signal.setitimer(signal.ITIMER_REAL, 0)
    except Timeout:
        return "TIMEOUT"
    except Exception as exc:  # noqa: BLE001 - the exception is the observation
        return "EXC %s: %s" % (type(exc).__name__, exc)
    return out


def outcome(fn, *args, **kwargs):
    try:
        return "OK " + repr(fn(*args, **kwargs))
    except Exception as exc:  # noqa: BLE001
        return "EXC %s: %s" % (type(exc).__name__, exc)


# --------------------------------------------------------------------------
# game generation (tree independent)
# --------------------------------------------------------------------------
PROB_SPLITS = {
    1: [[1]],
    2: [[0.5, 0.5], [0.25, 0.75], [1 / 3, 2 / 3], [0.1, 0.9], [0.001, 0.999], [0.7, 0.3]],
    3: [[0.5, 0.25, 0.25], [1 / 3, 1 / 3, 1 / 3], [0.2, 0.3, 0.5], [0.1, 0.1, 0.8]],
    4: [[0.25, 0.25, 0.25, 0.25], [0.1, 0.2, 0.3, 0.4]],
}
ACTIONS = ["a", "b", "c", "d", "e"]


def gen_game(rng, style):
    """style: 'acyclic' | 'stopping' | 'wild'"""
    n_live = rng.randint(1, 9)
    n_final = rng.randint(1, 3)
    n_dead = rng.choice([0, 0, 0, 1, 1, 2])
    n = n_live + n_final + n_dead
    # positions: live states first (state 0 is live unless tiny game), sinks after,
    # then a random relabelling that keeps state 0 a live state most of the time
    labels = list(range(n))
    if rng.random() < 0.85:
        rest = labels[1:]
        rng.shuffle(rest)
        labels = [0] + rest
    else:
        rng.shuffle(labels)
    live = labels[:n_live]
    finals = labels[n_live:n_live + n_final]
    dead = labels[n_live + n_final:]
    players = [None] * n
    rewards = [0] * n
    trans = [None] * n
    reward_pool = rng.choice([[0, 1], [0, 1, 2, 3], [1, 2], [0, 0.5, 1.5, 5 / 3], [0, 1, 10, 100]])
    for s in finals + dead:
        kind = rng.choice([PR, PR, PR, P1, P2])
        players[s] = kind
        trans[s] = [(1, s)] if kind == PR else [("stay", s)]
        rewards[s] = 0
        if style == "wild" and rng.random() < 0.05:
            rewards[s] = 1
    for pos, s in enumerate(live):
        kind = rng.choice([P1, P1, P2, P2, PR])
        players[s] = kind
        rewards[s] = rng.choice(reward_pool)
        forward = live[pos + 1:] + finals + dead
        pool = forward
        k = rng.randint(1, min(4, max(1, len(pool))))
        if rng.random() < 0.5:
            targets = [rng.choice(pool) for _ in range(k)]      # repeated targets -> ties
        else:
            targets = rng.sample(pool, min(k, len(pool)))
        if style == "wild":
            # back edges anywhere (also between player states); zero rewards are
            # frequent so that many of these games still converge
            back_rate = 0.5 if kind == PR else 0.2
            targets = [rng.choice(labels) if rng.random() < back_rate else t for t in targets]
            if rng.random() < 0.5:
                rewards[s] = 0
        if kind == PR:
            if style == "stopping" and pos > 0 and rng.random() < 0.6 and len(targets) < 4:
                back = rng.choice(live[:pos + 1])
                targets = targets + [back]
                k = len(targets)
                fwd = rng.choice(PROB_SPLITS[k - 1])
                back_p = rng.choice([0.1, 0.5, 0.7])
                probs = [p * (1 - back_p) for p in fwd] + [back_p]
            else:
                probs = list(rng.choice(PROB_SPLITS[len(targets)]))
                rng.shuffle(probs)
            trans[s] = list(zip(probs, targets))
        else:
            if style == "wild" and rng.random() < 0.15:
                names = [rng.choice(ACTIONS[:2]) for _ in targets]   # duplicate action names
            else:
                names = ACTIONS[:len(targets)]
                if rng.random() < 0.3:
                    names = list(reversed(names))
            trans[s] = list(zip(names, targets))
    game = {"rewards": rewards, "players": players, "transition_list": trans,
            "final_states": list(finals)}
    if rng.random() < 0.1:
        game["final_states"] = game["final_states"] + [game["final_states"][0]]
    return game


def handmade_games():
    g = {}
    g["single_final"] = dict(rewards=[0], players=[PR], transition_list=[[(1, 0)]], final_states=[0])
    g["single_final_p1"] = dict(rewards=[0], players=[P1], transition_list=[[("s", 0)]], final_states=[0])
    g["single_final_p2_reward"] = dict(rewards=[3], players=[P2], transition_list=[[("s", 0)]],
                                       final_states=[0])
    g["no_finals"] = dict(rewards=[0, 0], players=[P1, PR], transition_list=[[("a", 1)], [(1, 1)]],
                          final_states=[])
    g["init_cannot_reach"] = dict(rewards=[1, 0, 0], players=[P1, PR, PR],
                                  transition_list=[[("a", 1)], [(1, 1)], [(1, 2)]], final_states=[2])
    # Player 2 chooses between different rewards, same reachability
    g["p2_reward_choice"] = dict(
        rewards=[0, 5, 1, 0], players=[P2, PR, PR, PR],
        transition_list=[[("x", 1), ("y", 2), ("z", 2)], [(1, 3)], [(1, 3)], [(1, 3)]],
        final_states=[3])
    # Player 1: best reward action (via 1) is not reachability optimal
    g["p1_reward_vs_reach"] = dict(
        rewards=[0, 100, 1, 0, 0], players=[P1, PR, PR, PR, PR],
        transition_list=[[("rich", 1), ("safe", 2), ("safe2", 2)], [(0.5, 3), (0.5, 4)], [(1, 3)],
                         [(1, 3)], [(1, 4)]],
        final_states=[3])
    # the same inside a cycle through a probabilistic state
    g["p1_reward_vs_reach_cyclic"] = dict(
        rewards=[0, 100, 1, 0, 0, 2], players=[P1, PR, PR, PR, PR, P2],
        transition_list=[[("rich", 1), ("safe", 2), ("loop", 5)], [(0.5, 3), (0.5, 4)],
                         [(0.5, 3), (0.5, 0)], [(1, 3)], [(1, 4)], [("u", 2), ("v", 0)]],
        final_states=[3])
    g["ties_everywhere"] = dict(
        rewards=[1, 1, 1, 1, 0], players=[P1, P2, P1, PR, PR],
        transition_list=[[("a", 1), ("b", 2), ("c", 3)], [("a", 3), ("b", 3)], [("a", 3), ("b", 4)],
                         [(1, 4)], [(1, 4)]],
        final_states=[4])
    g["zero_rewards"] = dict(
        rewards=[0, 0, 0, 0], players=[P1, P2, PR, PR],
        transition_list=[[("a", 1), ("b", 2)], [("a", 2), ("b", 3)], [(1, 3)], [(1, 3)]],
        final_states=[3])
    g["rounding_gap"] = dict(
        rewards=[0, 1, 1.0000004, 1.0000016, 0], players=[P1, PR, PR, PR, PR],
        transition_list=[[("a", 1), ("b", 2), ("c", 3)], [(1, 4)], [(1, 4)], [(1, 4)], [(1, 4)]],
        final_states=[4])
    g["two_finals_p2"] = dict(
        rewards=[2, 0, 0, 7], players=[P2, PR, PR, PR],
        transition_list=[[("l", 1), ("r", 2), ("m", 3)], [(1, 1)], [(1, 2)], [(0.5, 1), (0.5, 2)]],
        final_states=[1, 2])
    g["p1_dead_option"] = dict(
        rewards=[1, 0, 0, 4], players=[P1, PR, PR, PR],
        transition_list=[[("dead", 2), ("live", 1), ("mid", 3)], [(1, 1)], [(1, 2)], [(0.5, 1), (0.5, 2)]],
        final_states=[1])
    g["unreachable_parts"] = dict(
        rewards=[0, 0, 3, 3, 0], players=[PR, PR, P2, P1, PR],
        transition_list=[[(1, 1)], [(1, 1)], [("a", 3), ("b", 1)], [("a", 2), ("b", 4)], [(1, 4)]],
        final_states=[1])
    # malformed
    base = dict(rewards=[0, 0], players=[P1, PR], transition_list=[[("a", 1)], [(1, 1)]], final_states=[1])
    for name, patch in [
        ("bad_len_transitions", dict(transition_list=[[("a", 1)]])),
        ("bad_len_rewards", dict(rewards=[0])),
        ("negative_reward", dict(rewards=[-1, 0])),
        ("final_out_of_range", dict(final_states=[2])),
        ("final_negative", dict(final_states=[-1])),
        ("bad_player", dict(players=[P1, "Nature"])),
        ("missing_transitions", dict(transition_list=[[], [(1, 1)]])),
        ("transitions_not_list", dict(transition_list=[(("a", 1),), [(1, 1)]])),
        ("transition_not_tuple", dict(transition_list=[[["a", 1]], [(1, 1)]])),
        ("transition_len3", dict(transition_list=[[("a", 1, 2)], [(1, 1)]])),
        ("action_not_str", dict(transition_list=[[(1, 1)], [(1, 1)]])),
        ("prob_not_number", dict(transition_list=[[("a", 1)], [("x", 1)]])),
        ("next_not_int", dict(transition_list=[[("a", 1.0)], [(1, 1)]])),
        ("next_out_of_range", dict(transition_list=[[("a", 2)], [(1, 1)]])),
        ("next_negative", dict(transition_list=[[("a", -1)], [(1, 1)]])),
        ("empty_game", dict(rewards=[], players=[], transition_list=[], final_states=[0])),
        ("none_transitions", dict(transition_list=[None, [(1, 1)]])),
        ("inf_reward", dict(rewards=[float("inf"), 0])),
        ("nan_reward", dict(rewards=[float("nan"), 0])),
    ]:
        gm = copy.deepcopy(base)
        gm.update(patch)
        g["malformed_" + name] = gm
    return g


def build_cases():
    """Deterministic list of (case_id, kind, payload)."""
    rng = random.Random(SEED)
    cases = []
    for name, game in handmade_games().items():
        cases.append(("hand/" + name, "solve", game))
    for i in range(N_RANDOM_GAMES):
        style = ("acyclic", "stopping", "stopping", "wild")[i % 4]
        cases.append(("rand/%03d/%s" % (i, style), "solve", gen_game(rng, style)))
    for i in range(N_NODE_CASES):
        cases.append(("node/%03d" % i, "node", rng.randrange(10 ** 9)))
    for i in range(N_SOLVER_CASES):
        cases.append(("solver/%03d" % i, "solver", rng.randrange(10 ** 9)))
    for i in range(N_DRIVER_GAMES):
        style = ("acyclic", "stopping", "stopping")[i % 3]
        cases.append(("driver/%03d/%s" % (i, style), "driver", gen_game(rng, style)))
    multi = {k: v for k, v in handmade_games().items()
             if k not in ("single_final_p2_reward", "unreachable_parts")}   # these two diverge
    cases.append(("driver/handmade", "driver_multi", multi))
    cases.append(("driver/inputs", "driver_inputs", None))
    cases.append(("special/selectors", "special", None))
    return cases


# --------------------------------------------------------------------------
# worker side
# --------------------------------------------------------------------------
SPECIAL_VALUES = [0, 0.0, -0.0, 1, 1.0, True, 0.5, 0.4999995, 0.5000005, 0.50000049, 0.50000051,
                  1e-7, 4e-7, 5e-7, 6e-7, 1e-6, 0.9999995, 0.99999949, 2, 2.5, 2.4999996, 100,
                  1e9 + 0.1234565, -1, -0.5, float("inf"), float("nan"), 1 / 3, 2 / 3, 0.3333334]


def _states_repr(states):
    return repr([(type(s).__name__, s.idx, s.next_states) for s in states])


def _values_repr(states):
    return repr([(s.reach_probability, s.expected_rewards, s.expected_rewards_min_reach,
                  s.expected_reach_min_rewards) for s in states])


def _random_states(tad, rng, allow_special):
    """A state list built by the product code, with random solver values."""
    game = gen_game(rng, rng.choice(["acyclic", "stopping", "wild"]))
    sg = tad.StochasticGame(**copy.deepcopy(game))
    states = sg.init_states()
    mode = rng.choice(["special", "grid", "float"]) if allow_special else rng.choice(["grid", "float"])
    for s in states:
        if mode == "special":
            s.reach_probability = rng.choice(SPECIAL_VALUES)
            s.expected_rewards = rng.choice(SPECIAL_VALUES)
            s.expected_rewards_min_reach = rng.choice(SPECIAL_VALUES)
            s.expected_reach_min_rewards = rng.choice(SPECIAL_VALUES)
        elif mode == "grid":
            s.reach_probability = rng.choice([0, 0.5, 1, 1.0, 0.25])
            s.expected_rewards = rng.choice([0, 1, 2, 2.0, 3.5])
            s.expected_rewards_min_reach = rng.choice([0, 1, 2, 2.0, 3.5])
            s.expected_reach_min_rewards = rng.choice([0, 0.5, 1])
        else:
            s.reach_probability = rng.random()
            s.expected_rewards = rng.random() * 10
            s.expected_rewards_min_reach = rng.random() * 10
            s.expected_reach_min_rewards = rng.random()
    return game, states


def run_solve_case(tad, game, budget, debug_log=False):
    if debug_log:   # the complete DEBUG log of the solves is part of the outcome
        handler = _ListHandler(logging.DEBUG)
        root = logging.getLogger()
        old_level = root.level
        root.addHandler(handler)
        root.setLevel(logging.DEBUG)
        try:
            text = run_solve_case(tad, game, budget)
        finally:
            root.removeHandler(handler)
            root.setLevel(old_level)
        if "TIMEOUT" in text:
            return text
        return text + "\nLOG " + "\n".join(handler.lines)
    out = []
    for prune in (True, False):
        g = copy.deepcopy(game)
        before = repr(g)
        try:
            sg = tad.StochasticGame(prune_states=prune, **g)
        except Exception as exc:  # noqa: BLE001
            out.append("CTOR %s: %s" % (type(exc).__name__, exc))
            continue
        res = with_budget(budget, sg.solve)
        out.append("prune=%s %s | input_unchanged=%s | n_trans=%s" % (
            prune, res, before == repr(g), outcome(sg.count_transitions)))
    return "\n".join(out)


def run_node_case(tad, seed):
    rng = random.Random(seed)
    game, states = _random_states(tad, rng, allow_special=True)
    out = []
    floors = [6, 6, rng.choice([0, 1, 3, 10])]
    for s in states:
        rec = [type(s).__name__, s.idx]
        for name in ("value_iteration_reach", "value_iteration_rewards"):
            rec.append(outcome(getattr(s, name), states))
        for name in ("get_best_strategies_reachability", "get_best_strategies_total_rewards",
                     "get_worst_strategies_reachability", "get_worst_strategies_total_rewards"):
            if hasattr(s, name):
                for fl in floors:
                    rec.append(name + "@%d " % fl + outcome(getattr(s, name), states, fl))
        if hasattr(s, "_expected_rewards_min_reach"):
            acts = [a for a, _ in s.next_states]
            for sub in ([], acts[:1], acts[-1:], acts, ["zz"]):
                rec.append(outcome(s._expected_rewards_min_reach, states, sub))
        out.append(repr(rec))
    # pruning on copies, so that every method sees the unpruned node
    for s in states:
        for variant in range(4):
            c = copy.deepcopy(s)
            if variant == 0:
                r = outcome(c.prune_paths, states) if hasattr(c, "prune_paths") else "n/a"
            elif variant == 1 and hasattr(c, "prune_paths_reachability"):
                acts = [a for a, _ in c.next_states]
                keep = rng.choice([[], acts[:1], acts[-1:], acts, acts + ["zz"], ["zz"],
                                   tuple(acts[:1]), list(reversed(acts))])
                r = repr(keep) + outcome(c.prune_paths_reachability, keep)
            elif variant == 2 and hasattr(c, "remove_path"):
                victim = rng.choice(c.next_states + [("nope", 0)])
                r = repr(victim) + outcome(c.remove_path, victim)
            elif variant == 3 and hasattr(c, "prune_paths_reachability"):
                r = outcome(c.prune_paths_reachability, None)
            else:
                continue
            out.append("prune%d %s %s -> %r" % (variant, s.idx, r, c.next_states))
    # an empty node (as left behind by prune_states)
    for s in states:
        c = copy.deepcopy(s)
        c.next_states = []
        rec = ["empty", s.idx, outcome(c.value_iteration_rewards, states)]
        for name in ("get_best_strategies_reachability", "get_best_strategies_total_rewards",
                     "get_worst_strategies_reachability", "get_worst_strategies_total_rewards"):
            if hasattr(c, name):
                rec.append(outcome(getattr(c, name), states, 6))
        out.append(repr(rec))
    return "\n".join(out)


def run_solver_case(tad, seed, budget):
    rng = random.Random(seed)
    game, states = _random_states(tad, rng, allow_special=(rng.random() < 0.3))
    out = []
    threshold = rng.choice([10 ** (-6), 10 ** (-6), 1e-3, 1e-9])
    solver = tad.Solver(states, threshold) if rng.random() < 0.5 else tad.Solver(
        state_list=states, threshold=threshold)
    out.append("floor %r" % (solver.floor,))
    strategies = outcome(solver._get_reachability_strategies)
    out.append("reach " + strategies)
    out.append("rew " + outcome(solver._get_total_rewards_strategies))
    how = rng.choice(["own", "own", "own", "long", "short", "random", "tuple"])
    try:
        strat = solver._get_reachability_strategies()
    except Exception:  # noqa: BLE001
        strat = [None] * len(states)
    if how == "long":
        strat = strat + [["a"], None]
    elif how == "short":
        strat = strat[:rng.randint(0, len(strat))]
    elif how == "random":
        strat = [None if s.player == PR and rng.random() < 0.8 else
                 [a for a, _ in s.next_states if isinstance(a, str) and rng.random() < 0.6]
                 for s in states]
    elif how == "tuple":
        strat = tuple(tuple(x) if x is not None else None for x in strat)
    out.append("prune_reachability[%s] %s" % (how, outcome(solver.prune_reachability, strat)))
    out.append(_states_repr(states))
    out.append("rew2 " + outcome(solver._get_total_rewards_strategies))
    step = rng.choice(["paths", "paths+states", "game", "none"])
    if step == "paths":
        out.append(outcome(solver.prune_paths))
    elif step == "paths+states":
        out.append(outcome(solver.prune_paths))
        out.append(outcome(solver.prune_states))
    elif step == "game":
        out.append(outcome(solver.prune_stochastich_game))
    out.append(step + " " + _states_repr(states))
    out.append("rew3 " + outcome(solver._get_total_rewards_strategies))
    # a real solve of the rewards phase from sane values
    for s in states:
        s.expected_rewards = s.reward
        s.expected_rewards_min_reach = s.reward
        if not all(isinstance(v, (int, float)) and math.isfinite(v) for v in (
                s.reach_probability, s.expected_reach_min_rewards)):
            s.reach_probability = 0.5
            s.expected_reach_min_rewards = 0.5
    out.append("solve_total_rewards " + with_budget(budget, solver.solve_total_rewards))
    if out[-1].endswith("TIMEOUT"):
        return "TIMEOUT"
    out.append(_values_repr(states))
    return "\n".join(out)


def run_special_case(tad):
    """All triples of special successor values (NaN, infinities, signed zeros, bool,
    rounding neighbours) for the four strategy selectors, duplicate action names."""
    import itertools

    class Stub:
        pass
    vals = [float("nan"), 0, -0.0, 1, 1.0000004, 1.0000006, True, float("inf"), -1, 0.5,
            float("-inf")]
    out = []
    for combo in itertools.product(vals, repeat=3):
        stubs = []
        for v in combo:
            st = Stub()
            st.expected_rewards = v
            st.reach_probability = v
            stubs.append(st)
        for cls, player, names in (
                (tad.PlayerOne, P1, ("get_best_strategies_total_rewards",
                                     "get_best_strategies_reachability")),
                (tad.PlayerTwo, P2, ("get_worst_strategies_total_rewards",
                                     "get_worst_strategies_reachability"))):
            node = cls(player=player, idx=0, reward=0, num_states=3,
                       next_states=[("a", 0), ("b", 1), ("c", 2), ("a", 1)])
            for name in names:
                for fl in (0, 6):
                    out.append(outcome(getattr(node, name), stubs, fl))
    return "\n".join(out)


class _ListHandler(logging.Handler):
    def __init__(self, level=logging.INFO):
        super().__init__(level=level)
        self.lines = []

    def emit(self, record):
        msg = record.getMessage()
        if msg.startswith("Total time"):
            msg = "Total time <t>"
        self.lines.append("%s %s" % (record.levelname, msg))


def _run_driver(cr, games, budget, file_name):
    """run_games + report file for a dict of games."""
    games = copy.deepcopy(games)
    handler = _ListHandler()
    root = logging.getLogger()
    old_level = root.level
    root.addHandler(handler)
    root.setLevel(logging.INFO)
    try:
        res = None

        def call():
            return cr.run_games(games)
        signal.signal(signal.SIGALRM, _on_alarm)
        signal.setitimer(signal.ITIMER_REAL, budget)
        try:
            try:
                res = call()
            finally:
                signal.setitimer(signal.ITIMER_REAL, 0)
        except Timeout:
            return "TIMEOUT"
        except Exception as exc:  # noqa: BLE001
            return "EXC %s: %s" % (type(exc).__name__, exc)
    finally:
        root.removeHandler(handler)
        root.setLevel(old_level)
    out = []
    for name, r in res.items():
        r["total_time"] = 0.25
        out.append("%s: %r" % (name, sorted(r.items())))
    out.append("games_after: %r" % (games,))
    out.append("LOG " + "\n".join(handler.lines))
    # the scratch directory lives in the shared /tmp: recreate it if somebody cleaned it away
    os.makedirs(os.path.join(WORK_DIR, "outputs"), exist_ok=True)
    os.chdir(WORK_DIR)
    rep = outcome(cr.save_results_to_file, res, file_name)
    out.append("REPORT " + rep)
    path = os.path.join("outputs", file_name.split("/")[-1].split(".")[0] + ".txt")
    if os.path.exists(path):
        with open(path) as fh:
            out.append(fh.read())
        os.remove(path)
    return "\n".join(out)


def worker(root, out_path, only, budget):
    root = os.path.abspath(root)
    sys.path.insert(0, root)
    sys.dont_write_bytecode = True
    import tad  # noqa: E402
    import conditionalrewards as cr  # noqa: E402
    assert os.path.abspath(tad.__file__).startswith(root), tad.__file__
    global WORK_DIR
    WORK_DIR = tempfile.mkdtemp(prefix="c05_equiv_worker_%d_" % os.getpid())
    os.chdir(WORK_DIR)
    logging.getLogger().setLevel(logging.WARNING)
    logging.getLogger().addHandler(logging.NullHandler())
    logging.lastResort = None
    results = {}
    for cid, kind, payload in build_cases():
        if only is not None and cid not in only:
            continue
        if kind == "solve":
            results[cid] = run_solve_case(
                tad, payload, budget, debug_log=cid.startswith("hand/") or cid.endswith("0/acyclic"))
        elif kind == "node":
            results[cid] = run_node_case(tad, payload)
        elif kind == "solver":
            results[cid] = run_solver_case(tad, payload, budget)
        elif kind == "special":
            results[cid] = run_special_case(tad)
        elif kind == "driver":
            results[cid] = _run_driver(cr, {"g": payload}, 2 * budget, "inputs/some.dir/rand_game.py")
        elif kind == "driver_multi":
            results[cid] = _run_driver(cr, payload, 8 * budget, "handmade.py")
        elif kind == "driver_inputs":
            parts = []
            for fname in ("example_games.py", "paper_games.py", "example_17_08.py",
                          "manual_1_game_a.py", "robot_1_w2_l2_r6_rb10_lb5_tb10_lt0.py",
                          "robot_999132423_w3_l3_r6_rb1_lb2_tb10_lt30.py"):
                src = os.path.join(root, "inputs", fname)
                if not os.path.exists(src):
                    parts.append(fname + " missing")
                    continue
                games = cr.read_dict_from_file(src)
                parts.append(fname + "\n" + _run_driver(cr, games, 40 * budget, "inputs/" + fname))
            results[cid] = "\n".join(parts)
    os.makedirs(os.path.dirname(out_path), exist_ok=True)
    with open(out_path, "w") as fh:
        json.dump(results, fh)
    os.chdir(tempfile.gettempdir())
    shutil.rmtree(WORK_DIR, ignore_errors=True)


# --------------------------------------------------------------------------
# parent side
# --------------------------------------------------------------------------
def _spawn(root, out_path, only=None, budget=BUDGET):
    cmd = [sys.executable, os.path.abspath(__file__), "--worker", root, out_path, str(budget)]
    if only is not None:
        cmd.append(json.dumps(sorted(only)))
    env = dict(os.environ, PYTHONDONTWRITEBYTECODE="1", PYTHONHASHSEED="0")
    env.pop("PYTHONPATH", None)
    return subprocess.Popen(cmd, env=env, cwd=tempfile.gettempdir())


def _run_pair(patched, clean, only=None, budget=BUDGET):
    tmp = tempfile.mkdtemp(prefix="c05_equiv_parent_%d_" % os.getpid())
    outs = [os.path.join(tmp, "patched.json"), os.path.join(tmp, "clean.json")]
    procs = [_spawn(patched, outs[0], only, budget), _spawn(clean, outs[1], only, budget)]
    codes = [p.wait() for p in procs]
    if any(codes):
        print("worker failed: exit codes %r" % (codes,))
        print("FAIL")
        sys.exit(1)
    data = []
    for o in outs:
        with open(o) as fh:
            data.append(json.load(fh))
    shutil.rmtree(tmp, ignore_errors=True)
    return data


def _has_timeout(text):
    return "TIMEOUT" in text


def main(argv):
    if len(argv) >= 2 and argv[1] == "--worker":
        only = set(json.loads(argv[5])) if len(argv) > 5 else None
        worker(argv[2], argv[3], only, float(argv[4]))
        return 0
    if len(argv) != 3:
        print(__doc__)
        return 2
    patched, clean = argv[1], argv[2]
    t0 = time.time()
    a, b = _run_pair(patched, clean)
    if set(a) != set(b):
        print("case lists differ")
        print("FAIL")
        return 1
    differing = sorted(c for c in a if a[c] != b[c])
    # a time budget hit in only one tree (or at different places) proves nothing: retry
    retry = [c for c in differing if _has_timeout(a[c]) or _has_timeout(b[c])]
    if retry:
        ra, rb = _run_pair(patched, clean, only=set(retry), budget=RETRY_BUDGET)
        for c in retry:
            a[c], b[c] = ra[c], rb[c]
        differing = sorted(c for c in a if a[c] != b[c])
    n_timeout = sum(1 for c in a if _has_timeout(a[c]))
    n_exc = sum(1 for c in a if "EXC " in a[c])
    print("%d cases compared, %d with a time-out in both trees, %d with an exception outcome, "
          "%d retried, %.1fs" % (len(a), n_timeout, n_exc, len(retry), time.time() - t0))
    if differing:
        for c in differing[:10]:
            print("-" * 70)
            print("DIFF in case", c)
            la, lb = a[c].split("\n"), b[c].split("\n")
            shown = 0
            for i in range(max(len(la), len(lb))):
                x = la[i] if i < len(la) else "<missing>"
                y = lb[i] if i < len(lb) else "<missing>"
                if x != y and shown < 4:
                    print("  patched:", x[:600])
                    print("  clean  :", y[:600])
                    shown += 1
        print("%d differing cases" % len(differing))
        print("FAIL")
        return 1
    print("PASS")
    return 0


if __name__ == "__main__":
    sys.exit(main(sys.argv))
