#!/usr/bin/env python
"""
Equivalence test for property C05 (final strategies are reward-optimal among the
reachability-optimal actions).

usage: python equiv_test.py <path-to-patched-root> <path-to-clean-root>

The two trees are loaded in two separate worker subprocesses (same module names).
Every worker receives the same inputs and dumps everything observable to a JSON file;
the parent compares the two dumps entry by entry (textually, so that NaN / 0 vs 0.0 /
int vs float differences are caught too).

Suites
  solve    : several hundred random well-formed games (acyclic and cyclic stopping games,
             several finals, dead states, many reward ties, Player 2 choosing between different
             rewards, duplicate action names, ...) + hand written boundary games + ill-formed
             games, each solved in both pruning modes through StochasticGame.solve();
             all eight outputs are compared, and the property (inclusion, None for
             probabilistic states) is checked directly on the patched outputs.
  driver   : run_games() on batches of those games and on the small shipped input files,
             report written by save_results_to_file() (time line masked); one real
             command line run.
  unit     : the node / Solver methods the property is anchored in, called directly on random
             state lists with hand-set values (ties at the rounding boundary, NaN, negative
             values, values > 1, arbitrary strategy lists, externally assigned transitions).
"""
import copy
import json
import os
import random
import re
import signal
import subprocess
import sys
import tempfile

P1, P2, PR = "Player 1", "Player 2", "Probabilistic"
SOLVE_TIMEOUT = 8
N_RANDOM_GAMES = 700
N_UNIT_CASES = 400
SMALL_INPUTS = [
    "example_17_08.py", "example_games.py", "paper_games.py", "manual_1_game_a.py",
    "manual_arrow_bottom.py", "robot_1_w1_l2_r6_rb10_lb5_tb10_lt0.py",
    "robot_1_w2_l1_r6_rb10_lb5_tb10_lt0.py", "robot_1_w2_l2_r6_rb10_lb5_tb10_lt0.py",
    "robot_999132423_w3_l3_r6_rb1_lb2_tb10_lt30.py",
    "robot_999132423_w3_l3_r6_rb1_lb2_tb10_lt30_force_down.py",
    "robot_manual_0_w4_l4_r6_rb10_lb5_tb10_lt30.py",
    "robot_47_w5_l5_r6_rb10_lb10_tb10_lt30.py",
]
CLI_INPUTS = ["example_17_08.py", "paper_games.py", "robot_1_w2_l2_r6_rb10_lb5_tb10_lt0.py"]


# --------------------------------------------------------------------------- inputs
def random_probabilities(rng, k):
    style = rng.random()
    if style < 0.45:      # dyadic: exact arithmetic, many exact ties
        weights = [rng.choice([1, 1, 2, 2, 4]) for _ in range(k)]
        total = sum(weights)
        size = 1
        while size < total:
            size *= 2
        weights[-1] += size - total
        return [w / size for w in weights]
    if style < 0.75:      # tenths
        weights = [rng.randint(1, 6) for _ in range(k)]
        return [w / sum(weights) for w in weights]
    if style < 0.9:       # tiny / near-1 probabilities
        if k == 1:
            return [1]
        small = [rng.choice([1e-9, 1e-7, 1e-4, 0.001]) for _ in range(k - 1)]
        return small + [1 - sum(small)]
    weights = [rng.random() + 0.01 for _ in range(k)]
    return [w / sum(weights) for w in weights]


def random_game(rng):
    """
        A stopping game by construction. States are ordered; the last ones are absorbing
        zero-reward sinks (good = final, bad = dead). Index-decreasing transitions either
        start in or lead to a "leaky" probabilistic state, i.e. one that moves directly to
        a sink with positive probability, so every infinite play is absorbed with probability 1.
    """
    cyclic = rng.random() < 0.6
    n_inner = rng.choice([1, 1, 2, 3, 4, 5, 6, 7, 8, 9, 10, 12, 16, 30])
    n_good = rng.choice([1, 1, 1, 2, 3])
    n_bad = rng.choice([0, 1, 1, 1, 2])
    n = n_inner + n_good + n_bad
    good = list(range(n_inner, n_inner + n_good))
    bad = list(range(n_inner + n_good, n))
    sinks = good + bad
    rng.shuffle(sinks)        # good and bad sinks interleaved
    good = sorted(sinks[:n_good])
    bad = sorted(sinks[n_good:])
    weights = rng.choice([(1, 1, 1), (3, 1, 1), (1, 3, 1), (1, 1, 3), (2, 2, 1)])
    players = [rng.choices([P1, P2, PR], weights)[0] for _ in range(n_inner)]
    leaky = [i for i in range(n_inner) if players[i] == PR and cyclic and rng.random() < 0.7]
    reward_pool = rng.choice([[0, 1], [0, 1, 2], [1], [0, 1, 2, 3, 5], [0, 0.5, 1, 2.5], [0, 0, 0, 4]])
    rewards = [rng.choice(reward_pool) for _ in range(n_inner)]
    transitions = []
    for i in range(n_inner):
        forward = list(range(i + 1, n))
        k = rng.choice([1, 2, 2, 3, 3, 4])
        if players[i] == PR:
            if i in leaky:
                targets = [rng.randrange(n) for _ in range(k)] + [rng.choice(good + bad)]
            else:
                targets = [rng.choice(forward) for _ in range(k)]
            if rng.random() < 0.7:
                targets = list(dict.fromkeys(targets))
            probabilities = random_probabilities(rng, len(targets))
            if i in leaky and probabilities[-1] < 0.02:
                probabilities = [1 / len(targets)] * len(targets)
            transitions.append(list(zip(probabilities, targets)))
        else:
            targets = []
            for _ in range(k):
                if leaky and rng.random() < 0.35:
                    targets.append(rng.choice(leaky))
                else:
                    targets.append(rng.choice(forward))
            names = ["a", "b", "c", "d"][:k]
            if rng.random() < 0.04:
                names = [rng.choice(["a", "b"]) for _ in range(k)]      # duplicate action names
            if rng.random() < 0.2:
                rng.shuffle(names)
            transitions.append(list(zip(names, targets)))
    for s in range(n_inner, n):
        kind = rng.random()
        if kind < 0.8:
            players.append(PR)
            transitions.append([(1, s)])
        elif kind < 0.9:
            players.append(P1)
            transitions.append([("stay", s)])
        else:
            players.append(P2)
            transitions.append([("stay", s)])
        rewards.append(0)
    finals = list(good)
    if rng.random() < 0.15 and n_inner > 1:
        finals.append(rng.randrange(1, n_inner))           # a final state that is not a sink
    if rng.random() < 0.3:
        rng.shuffle(finals)
    return {"rewards": rewards, "players": players, "transition_list": transitions,
            "final_states": finals}


def boundary_games():
    games = {}
    sink = [(1, 0)]
    games["single_final_state"] = dict(rewards=[0], players=[PR], transition_list=[[(1, 0)]], final_states=[0])
    games["single_p1_final"] = dict(rewards=[0], players=[P1], transition_list=[[("s", 0)]], final_states=[0])
    games["initial_dead"] = dict(rewards=[1, 0, 0], players=[P1, PR, PR],
                                 transition_list=[[("a", 1)], [(1, 1)], [(1, 2)]], final_states=[2])
    # Player 1: the best reward action (b) is not reachability optimal, in a cyclic game
    games["p1_reward_vs_reach_cyclic"] = dict(
        rewards=[1, 0, 0, 9, 0, 0], players=[P1, PR, PR, PR, PR, PR],
        transition_list=[[("a", 1), ("b", 2), ("c", 1)], [(0.5, 0), (0.5, 4)],
                         [(0.5, 3), (0.5, 5)], [(1, 4)], [(1, 4)], [(1, 5)]],
        final_states=[4])
    # Player 2 choosing between different rewards with equal reachability
    games["p2_different_rewards"] = dict(
        rewards=[0, 3, 1, 1, 0], players=[P2, PR, PR, PR, PR],
        transition_list=[[("x", 1), ("y", 2), ("z", 3)], [(1, 4)], [(1, 4)], [(1, 4)], [(1, 4)]],
        final_states=[4])
    # Player 2 that can move to a dead state, Player 1 above it with ties
    games["p2_with_dead_option"] = dict(
        rewards=[2, 1, 1, 5, 0, 0], players=[P1, P2, P2, PR, PR, PR],
        transition_list=[[("a", 1), ("b", 2), ("c", 3)], [("x", 4), ("y", 5)], [("x", 4), ("y", 3)],
                         [(0.5, 4), (0.5, 5)], [(1, 4)], [(1, 5)]],
        final_states=[4])
    # all rewards zero: every permitted action ties at 0
    games["all_zero_rewards"] = dict(
        rewards=[0, 0, 0, 0], players=[P1, P2, PR, PR],
        transition_list=[[("a", 1), ("b", 2), ("c", 3)], [("x", 2), ("y", 2)], [(1, 2)], [(1, 3)]],
        final_states=[2])
    # rewards differing below / around the rounding tolerance
    for name, eps in [("eps_1e-7", 1e-7), ("eps_4e-7", 4e-7), ("eps_6e-7", 6e-7), ("eps_2e-6", 2e-6)]:
        games["tie_" + name] = dict(
            rewards=[0, 1, 1 + eps, 1 - eps, 0], players=[P1, PR, PR, PR, PR],
            transition_list=[[("a", 1), ("b", 2), ("c", 3)], [(1, 4)], [(1, 4)], [(1, 4)], [(1, 4)]],
            final_states=[4])
        games["tie_p2_" + name] = dict(
            rewards=[0, 1, 1 + eps, 1 - eps, 0], players=[P2, PR, PR, PR, PR],
            transition_list=[[("a", 1), ("b", 2), ("c", 3)], [(1, 4)], [(1, 4)], [(1, 4)], [(1, 4)]],
            final_states=[4])
    # reach probabilities differing around the tolerance: decides which actions are permitted
    for name, eps in [("r1e-7", 1e-7), ("r6e-7", 6e-7), ("r1e-5", 1e-5)]:
        games["reach_tie_" + name] = dict(
            rewards=[0, 1, 7, 0, 0], players=[P1, PR, PR, PR, PR],
            transition_list=[[("a", 1), ("b", 2)], [(0.5, 3), (0.5, 4)], [(0.5 - eps, 3), (0.5 + eps, 4)],
                             [(1, 3)], [(1, 4)]],
            final_states=[3])
    # a long chain (deep), Player 1 everywhere with a useless second action
    n = 60
    games["chain"] = dict(
        rewards=[1] * n + [0, 0], players=[P1] * n + [PR, PR],
        transition_list=[[("go", i + 1), ("quit", n + 1)] for i in range(n)] + [[(1, n)], [(1, n + 1)]],
        final_states=[n])
    # ill-formed / unsolvable inputs: the error has to be the same
    games["bad_no_finals"] = dict(rewards=[0], players=[PR], transition_list=[sink], final_states=[])
    games["bad_missing_transitions"] = dict(rewards=[0, 0], players=[P1, PR], transition_list=[[], [(1, 1)]], final_states=[1])
    games["bad_transition_not_tuple"] = dict(rewards=[0, 0], players=[P1, PR], transition_list=[[["a", 1]], [(1, 1)]], final_states=[1])
    games["bad_transition_length"] = dict(rewards=[0, 0], players=[P1, PR], transition_list=[[("a", 1, 2)], [(1, 1)]], final_states=[1])
    games["bad_action_type"] = dict(rewards=[0, 0], players=[P1, PR], transition_list=[[(1, 1)], [(1, 1)]], final_states=[1])
    games["bad_probability_type"] = dict(rewards=[0, 0], players=[P1, PR], transition_list=[[("a", 1)], [("p", 1)]], final_states=[1])
    games["bad_target_range"] = dict(rewards=[0, 0], players=[P1, PR], transition_list=[[("a", 2)], [(1, 1)]], final_states=[1])
    games["bad_not_a_list"] = dict(rewards=[0, 0], players=[P1, PR], transition_list=[(("a", 1),), [(1, 1)]], final_states=[1])
    games["bad_negative_reward"] = dict(rewards=[-1, 0], players=[P1, PR], transition_list=[[("a", 1)], [(1, 1)]], final_states=[1])
    games["bad_player"] = dict(rewards=[0, 0], players=["P1", PR], transition_list=[[("a", 1)], [(1, 1)]], final_states=[1])
    return games


def all_games():
    rng = random.Random(20240505)
    games = dict(boundary_games())
    for i in range(N_RANDOM_GAMES):
        games["random_%04d" % i] = random_game(rng)
    return games


# --------------------------------------------------------------------------- worker
class _Timeout(Exception):
    pass


def _alarm(_signum, _frame):
    raise _Timeout()


def plain(value):
    """ JSON-able copy: tuples (and named tuples) become lists. """
    if isinstance(value, (list, tuple)):
        return [plain(v) for v in value]
    if isinstance(value, dict):
        return {str(k): plain(v) for k, v in value.items()}
    if isinstance(value, (set, frozenset)):
        return sorted(plain(v) for v in value)
    return value


def guarded(function, *args):
    try:
        return {"ok": plain(function(*args))}
    except _Timeout:
        return {"timeout": True}
    except Exception as error:      # the error type and text are part of the comparison
        return {"error": type(error).__name__, "text": str(error)}


def check_property(game, prune, solution):
    """ The part of C05 that can be stated without an oracle. """
    problems = []
    final, reach = solution[0], solution[1]
    for idx, player in enumerate(game["players"]):
        if player == PR:
            if final[idx] is not None or reach[idx] is not None:
                problems.append("probabilistic state %d has a strategy" % idx)
        elif player == P1:
            if not set(final[idx]) <= set(reach[idx]):
                problems.append("state %d: final %r not within reachability %r" % (idx, final[idx], reach[idx]))
            permitted = [a for a, _ in game["transition_list"][idx]]
            if [a for a in permitted if a in final[idx]] != final[idx] and len(set(permitted)) == len(permitted):
                problems.append("state %d: final %r not in transition order" % (idx, final[idx]))
        else:
            permitted = [a for a, _ in game["transition_list"][idx]]
            if [a for a in permitted if a in final[idx]] != final[idx] and len(set(permitted)) == len(permitted):
                problems.append("state %d: final %r not in transition order" % (idx, final[idx]))
    return problems


def worker_solve(tad, games):
    out = {}
    for name, game in games.items():
        for prune in (True, False):
            description = copy.deepcopy(game)

            def solve():
                return tad.StochasticGame(prune_states=prune, **description).solve()
            signal.alarm(SOLVE_TIMEOUT)
            result = guarded(solve)
            signal.alarm(0)
            result["input_untouched"] = (description == game)
            if "ok" in result and len(result["ok"]) >= 2:
                result["property_problems"] = check_property(game, prune, result["ok"])
            out["%s/%s" % (name, prune)] = result
    return out


TIME_LINE = re.compile(r"^(Total time\s*:).*$", re.M)


def worker_driver(driver, games, clean_root):
    out = {}
    names = [n for n in games if not n.startswith("bad_")]
    batches = [names[i:i + 3] for i in range(0, 240, 3)]
    batches.append(["initial_dead", "bad_no_finals", "single_final_state"])
    batches.append(["bad_missing_transitions", "bad_player"])
    os.makedirs("outputs", exist_ok=True)
    for number, batch in enumerate(batches):
        games_dict = {name: copy.deepcopy(games[name]) for name in batch}
        signal.alarm(SOLVE_TIMEOUT * 3)
        try:
            results = driver.run_games(games_dict)
        except _Timeout:
            out["batch_%03d" % number] = {"timeout": True}
            continue
        finally:
            signal.alarm(0)
        driver.save_results_to_file(results, "some/dir/batch_%03d.py" % number)
        for game_result in results.values():
            game_result["total_time"] = "masked"
        out["batch_%03d" % number] = plain(results)
        with open("outputs/batch_%03d.txt" % number) as report:
            out["report_%03d" % number] = TIME_LINE.sub(r"\1 masked", report.read())
    for file_name in SMALL_INPUTS:
        path = os.path.join(clean_root, "inputs", file_name)
        if not os.path.exists(path):
            continue
        games_dict = driver.read_dict_from_file(path)
        signal.alarm(SOLVE_TIMEOUT * 10)
        try:
            results = driver.run_games(games_dict)
        except _Timeout:
            out["input/" + file_name] = {"timeout": True}
            continue
        finally:
            signal.alarm(0)
        driver.save_results_to_file(results, path)
        for game_result in results.values():
            game_result["total_time"] = "masked"
        out["input/" + file_name] = plain(results)
        with open("outputs/%s.txt" % file_name.split(".")[0]) as report:
            out["input_report/" + file_name] = TIME_LINE.sub(r"\1 masked", report.read())
    return out


def special_values(rng):
    base = rng.choice([0, 0.25, 0.3, 0.5, 1, 2, 7])
    return rng.choice([
        0, 0, 0.0, 1, 1.0, 0.5, base, base, base + 1e-7, base - 1e-7, base + 4.9e-7, base + 5.1e-7,
        base + 1e-6, base + 2e-6, rng.random(), rng.random() * 10, 1.0000000000000002,
        0.9999999999999999, 1e-7, 4e-7, 6e-7, 1e-12, 3, 3.0000001, 2.5, 0.3 + 0.6,
    ])


def unit_case(rng):
    n = rng.randint(1, 7)
    players = [rng.choice([P1, P2, PR]) for _ in range(n)]
    spec = []
    for i in range(n):
        k = rng.choice([1, 2, 3, 3, 4, 5])
        if players[i] == PR:
            probabilities = random_probabilities(rng, k)
            transitions = [(p, rng.randrange(n)) for p in probabilities]
        else:
            names = rng.sample(["a", "b", "c", "d", "e"], k)
            if rng.random() < 0.1:
                names = [rng.choice(["a", "b"]) for _ in range(k)]
            transitions = [(name, rng.randrange(n)) for name in names]
        spec.append({"player": players[i], "reward": rng.choice([0, 1, 2, 0.5]), "transitions": transitions,
                     "final": rng.random() < 0.2})
    weird = rng.random() < 0.08
    values = []
    for i in range(n):
        entry = {
            "reach_probability": special_values(rng) if rng.random() < 0.3 else rng.choice([0, 0, 1, 0.5, 0.5 + 1e-7, 0.5 - 6e-7, 0.25]),
            "expected_rewards": special_values(rng),
            "expected_rewards_min_reach": special_values(rng),
            "expected_reach_min_rewards": rng.choice([0, 1, 0.5, rng.random()]),
        }
        if weird:
            key = rng.choice(list(entry))
            entry[key] = rng.choice([float("nan"), float("inf"), -1, -0.0, -2.5])
        values.append(entry)
    return spec, values


def worker_unit(tad):
    rng = random.Random(777)
    out = {}
    classes = {P1: tad.PlayerOne, P2: tad.PlayerTwo, PR: tad.ProbabilisticNode}

    def build(spec, values):
        n = len(spec)
        state_list = []
        for idx, s in enumerate(spec):
            state_list.append(classes[s["player"]](
                player=s["player"], idx=idx, reward=s["reward"], next_states=list(s["transitions"]),
                num_states=n, is_final_node=s["final"]))
        for state, entry in zip(state_list, values):
            for key, value in entry.items():
                setattr(state, key, value)
        return state_list

    def transitions_of(state_list):
        return [plain(state.next_states) for state in state_list]

    for case in range(N_UNIT_CASES):
        spec, values = unit_case(rng)
        n = len(spec)
        record = {}
        state_list = build(spec, values)
        record["built"] = transitions_of(state_list)
        record["caller_lists_untouched"] = all(
            s["transitions"] is not st.next_states for s, st in zip(spec, state_list))
        for idx, state in enumerate(state_list):
            record["vi_reach_%d" % idx] = guarded(state.value_iteration_reach, state_list)
            record["vi_rew_%d" % idx] = guarded(state.value_iteration_rewards, state_list)
            for floor in (6, 2, 0):
                if spec[idx]["player"] == P1:
                    record["best_reach_%d_%d" % (idx, floor)] = guarded(state.get_best_strategies_reachability, state_list, floor)
                    record["best_rew_%d_%d" % (idx, floor)] = guarded(state.get_best_strategies_total_rewards, state_list, floor)
                elif spec[idx]["player"] == P2:
                    record["worst_reach_%d_%d" % (idx, floor)] = guarded(state.get_worst_strategies_reachability, state_list, floor)
                    record["worst_rew_%d_%d" % (idx, floor)] = guarded(state.get_worst_strategies_total_rewards, state_list, floor)
        # mutating calls, each on a fresh copy
        for idx, s in enumerate(spec):
            actions = [label for label, _ in s["transitions"]]
            if s["player"] == P1:
                candidates = [
                    rng.sample(actions, rng.randint(0, len(actions))), list(actions), [], ["zzz"],
                    tuple(actions[:1]), set(actions[1:]), actions[::-1] + ["zzz"], "".join(actions)]
                for number, strategies in enumerate(candidates):
                    fresh = build(spec, values)
                    record["prune_reach_%d_%d" % (idx, number)] = guarded(fresh[idx].prune_paths_reachability, strategies)
                    record["prune_reach_after_%d_%d" % (idx, number)] = plain(fresh[idx].next_states)
                    record["best_after_%d_%d" % (idx, number)] = guarded(fresh[idx].get_best_strategies_total_rewards, fresh, 6)
                    record["vi_after_%d_%d" % (idx, number)] = guarded(fresh[idx].value_iteration_rewards, fresh)
            if s["player"] == P2:
                for number, strategies in enumerate([list(actions), actions[:1], [], actions[-1:], ["zzz"]]):
                    fresh = build(spec, values)
                    record["min_reach_rew_%d_%d" % (idx, number)] = guarded(fresh[idx]._expected_rewards_min_reach, fresh, strategies)
            fresh = build(spec, values)
            if hasattr(fresh[idx], "prune_paths"):
                record["prune_paths_%d" % idx] = guarded(fresh[idx].prune_paths, fresh)
                record["prune_paths_after_%d" % idx] = plain(fresh[idx].next_states)
            if hasattr(fresh[idx], "remove_path"):
                fresh = build(spec, values)
                victim = tuple(rng.choice(s["transitions"]))
                record["remove_%d" % idx] = guarded(fresh[idx].remove_path, victim)
                record["remove_after_%d" % idx] = plain(fresh[idx].next_states)
                fresh = build(spec, values)
                record["remove_missing_%d" % idx] = guarded(fresh[idx].remove_path, ("nope", 0))
                record["remove_missing_after_%d" % idx] = plain(fresh[idx].next_states)
            # transitions assigned from outside as plain tuples
            fresh = build(spec, values)
            fresh[idx].next_states = [tuple(t) for t in reversed(s["transitions"])]
            record["assigned_%d" % idx] = plain(fresh[idx].next_states)
            record["assigned_vi_%d" % idx] = guarded(fresh[idx].value_iteration_rewards, fresh)
            if s["player"] == P1:
                record["assigned_best_%d" % idx] = guarded(fresh[idx].get_best_strategies_total_rewards, fresh, 6)
                record["assigned_best_reach_%d" % idx] = guarded(fresh[idx].get_best_strategies_reachability, fresh, 6)
            if s["player"] == P2:
                record["assigned_worst_%d" % idx] = guarded(fresh[idx].get_worst_strategies_total_rewards, fresh, 6)
            record["assigned_eq_%d" % idx] = (fresh[idx] == build(spec, values)[idx])
        # the Solver steps of the pipeline, in order, on hand-set values
        fresh = build(spec, values)
        solver = tad.Solver(fresh) if rng.random() < 0.5 else tad.Solver(threshold=10 ** (-rng.choice([3, 6, 8])), state_list=fresh)
        record["solver_floor"] = solver.floor
        strategies = guarded(solver._get_reachability_strategies)
        record["solver_reach_strategies"] = strategies
        if "ok" in strategies:
            record["solver_prune_reach"] = guarded(solver.prune_reachability, strategies["ok"])
            record["solver_after_prune_reach"] = transitions_of(fresh)
            record["solver_total_1"] = guarded(solver._get_total_rewards_strategies)
            if n and fresh[0].reach_probability == fresh[0].reach_probability:
                record["solver_prune_game"] = guarded(solver.prune_stochastich_game)
                record["solver_after_prune_game"] = transitions_of(fresh)
                record["solver_total_2"] = guarded(solver._get_total_rewards_strategies)
                record["solver_step"] = [guarded(state.value_iteration_rewards, fresh) for state in fresh]
        out["unit_%04d" % case] = record
    return out


def worker(root, clean_root, out_file):
    root = os.path.abspath(root)
    sys.path.insert(0, root)
    signal.signal(signal.SIGALRM, _alarm)
    import tad
    import conditionalrewards as driver
    assert os.path.dirname(os.path.abspath(tad.__file__)) == root, tad.__file__
    assert os.path.dirname(os.path.abspath(driver.__file__)) == root, driver.__file__
    games = all_games()
    out = {}
    for key, value in worker_solve(tad, games).items():
        out["solve/" + key] = value
    for key, value in worker_driver(driver, games, clean_root).items():
        out["driver/" + key] = value
    for key, value in worker_unit(tad).items():
        out["unit/" + key] = value
    with open(out_file, "w") as handle:
        json.dump(out, handle)


# --------------------------------------------------------------------------- parent
def restrict(patched, clean):
    """
        New keys in the result dictionaries of run_games are allowed (a feature may add
        some): the comparison is made on the keys of the clean tree.
    """
    if isinstance(clean, dict) and isinstance(patched, dict):
        return {key: restrict(patched[key], clean[key]) if key in patched else "<missing>" for key in clean}
    return patched


def run_cli(root, clean_root, workdir):
    texts = {}
    os.makedirs(os.path.join(workdir, "outputs"), exist_ok=True)
    for file_name in CLI_INPUTS:
        path = os.path.join(clean_root, "inputs", file_name)
        try:
            done = subprocess.run(
                [sys.executable, os.path.join(root, "conditionalrewards.py"), "-f", path, "-s"],
                cwd=workdir, capture_output=True, text=True, timeout=120)
        except subprocess.TimeoutExpired:
            texts[file_name + "/returncode"] = "timeout"
            continue
        texts[file_name + "/returncode"] = done.returncode
        texts[file_name + "/stdout"] = done.stdout
        report = os.path.join(workdir, "outputs", file_name.split(".")[0] + ".txt")
        texts[file_name + "/report"] = TIME_LINE.sub(r"\1 masked", open(report).read()) if os.path.exists(report) else None
    return texts


def main():
    if len(sys.argv) == 5 and sys.argv[1] == "--worker":
        worker(sys.argv[2], sys.argv[3], sys.argv[4])
        return 0
    if len(sys.argv) != 3:
        print(__doc__)
        return 2
    patched_root, clean_root = os.path.abspath(sys.argv[1]), os.path.abspath(sys.argv[2])
    dumps = {}
    with tempfile.TemporaryDirectory() as scratch:
        for label, root in (("patched", patched_root), ("clean", clean_root)):
            workdir = os.path.join(scratch, label)
            os.makedirs(workdir)
            out_file = os.path.join(workdir, "dump.json")
            env = dict(os.environ, PYTHONDONTWRITEBYTECODE="1", PYTHONHASHSEED="0")
            env.pop("PYTHONPATH", None)
            done = subprocess.run(
                [sys.executable, os.path.abspath(__file__), "--worker", root, clean_root, out_file],
                cwd=workdir, env=env, capture_output=True, text=True)
            if done.returncode != 0:
                print(done.stdout)
                print(done.stderr)
                print("FAIL (the %s worker crashed)" % label)
                return 1
            with open(out_file) as handle:
                dumps[label] = json.load(handle)
            for key, value in run_cli(root, clean_root, os.path.join(workdir, "cli")).items():
                dumps[label]["cli/" + key] = value
    patched, clean = dumps["patched"], dumps["clean"]
    differences = []
    skipped_timeouts = 0
    property_problems = []
    counts = {}
    for key in sorted(set(patched) | set(clean)):
        suite = key.split("/")[0]
        counts[suite] = counts.get(suite, 0) + 1
        if key not in patched or key not in clean:
            differences.append((key, "entry only in one tree"))
            continue
        ours, theirs = patched[key], clean[key]
        if isinstance(theirs, dict) and theirs.get("timeout"):
            skipped_timeouts += 1          # the clean tree does not terminate on it: nothing to compare
            continue
        if isinstance(ours, dict) and ours.get("property_problems"):
            property_problems.append((key, ours["property_problems"]))
        if key.startswith("driver/"):
            ours = restrict(ours, theirs)
        if key.startswith("unit/"):
            for sub in sorted(set(ours) | set(theirs)):
                a = json.dumps(ours.get(sub, "<missing>"), sort_keys=True)
                b = json.dumps(theirs.get(sub, "<missing>"), sort_keys=True)
                if a != b:
                    differences.append((key + "/" + sub, "patched %s  !=  clean %s" % (a[:300], b[:300])))
            continue
        a, b = json.dumps(ours, sort_keys=True), json.dumps(theirs, sort_keys=True)
        if a != b:
            differences.append((key, "patched %s  !=  clean %s" % (a[:400], b[:400])))
    solved = sum(1 for k, v in clean.items() if k.startswith("solve/") and "ok" in v)
    errors = sum(1 for k, v in clean.items() if k.startswith("solve/") and "error" in v)
    print("entries compared per suite: %s" % counts)
    print("solve(): %d solved, %d rejected with an error, %d skipped (clean tree timed out)"
          % (solved, errors, skipped_timeouts))
    not_equal = sum(1 for k, v in clean.items() if k.startswith("solve/") and "ok" in v and v["ok"][0] != v["ok"][1])
    print("solve(): %d solutions in which the final strategies differ from the reachability strategies" % not_equal)
    for key, text in differences[:25]:
        print("DIFF %s: %s" % (key, text))
    for key, problems in property_problems[:25]:
        print("PROPERTY %s: %s" % (key, problems))
    if differences or property_problems:
        print("FAIL (%d differences, %d property problems)" % (len(differences), len(property_problems)))
        return 1
    print("PASS")
    return 0


if __name__ == "__main__":
    sys.exit(main())
