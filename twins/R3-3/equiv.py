#!/venv/bin/python
"""Behavioural equivalence check between two checkouts of the project.

Usage:  /venv/bin/python equiv.py <repo-root-A> <repo-root-B>

The script re-invokes itself once per root in a fresh interpreter ("worker"
mode), so that the modules of the two roots never share a process.  Every
worker runs the same deterministic (seeded) list of cases against
reverse_dfs.py and conditionalrewards.py of its root and dumps one
(case id, canonical text) pair per observation to a JSON file.  The parent
compares the two dumps pair by pair; it prints SAME and exits 0 when they
agree and prints the first difference and exits 1 otherwise.

Observations are canonicalised with repr(); wall-clock values (total_time,
"Total time" lines) are masked after checking that they are floats.

Variant 3 focus: conditionalrewards.save_results_to_file: name and full text of every file
written below the working directory for many result dictionaries and input file names,
including partially written files when an entry lacks a key (section D, E).
"""
import copy
import io
import json
import logging
import os
import random
import re
import subprocess
import sys
import tempfile
import traceback

PLAYER_1 = "Player 1"
PLAYER_2 = "Player 2"
PROBABILISTIC = "Probabilistic"

TIME_RE = re.compile(r"^(Total time\s*: ).*$", re.M)


# --------------------------------------------------------------------------
# case generation (pure, seeded; identical in both workers)
# --------------------------------------------------------------------------

def random_graph(rng, n, max_out=3, allow_empty=True):
    """Unvalidated transition list for reverse_dfs: labels are arbitrary."""
    transition_list = []
    for _ in range(n):
        low = 0 if allow_empty else 1
        k = rng.randint(low, max_out)
        transition_list.append(
            [(rng.choice(["a", "b", 0.5, 1]), rng.randrange(n)) for _ in range(k)])
    return transition_list


def random_game(rng, n_inner=None):
    """Well-formed game whose value iterations converge.

    Layout: inner states 0..m-1, bad sink m (reward 0, self loop), good final
    state m+1 (self loop).  Player states only move forward; probabilistic
    states move forward with probability >= 0.5 and may go anywhere with the
    rest, so every cycle leaks towards the two absorbing states.
    """
    m = n_inner if n_inner is not None else rng.randint(1, 6)
    bad, good = m, m + 1
    n = m + 2
    rewards, players, transition_list = [], [], []
    for s in range(m):
        forward = list(range(s + 1, n))
        player = rng.choice([PLAYER_1, PLAYER_2, PROBABILISTIC])
        players.append(player)
        rewards.append(rng.choice([0, 0, 1, 2, 5, 10]))
        if player == PROBABILISTIC:
            kind = rng.randrange(4)
            if kind == 0:
                trans = [(1, rng.choice(forward))]
            elif kind == 1:
                trans = [(0.5, rng.choice(forward)), (0.5, rng.choice(forward))]
            elif kind == 2:
                trans = [(0.75, rng.choice(forward)), (0.25, rng.randrange(n))]
            else:
                trans = [(0.5, rng.choice(forward)), (0.25, rng.randrange(n)),
                         (0.25, rng.randrange(n))]
        else:
            k = rng.randint(1, min(3, len(forward)))
            targets = [rng.choice(forward) for _ in range(k)]
            trans = [(f"act_{s}_{i}", t) for i, t in enumerate(targets)]
        transition_list.append(trans)
    players += [PROBABILISTIC, PROBABILISTIC]
    rewards += [0, 0]
    transition_list += [[(1, bad)], [(1, good)]]
    final_states = [good]
    if m > 1 and rng.random() < 0.2:
        final_states = [rng.randrange(1, m), good]
    return {
        "rewards": rewards,
        "players": players,
        "transition_list": transition_list,
        "final_states": final_states,
    }


def first_state_of(game, wanted):
    """Index of the first probabilistic state, or of the first player state."""
    for idx, player in enumerate(game["players"]):
        if (player == PROBABILISTIC) == (wanted == PROBABILISTIC):
            return idx
    return None


def malformed_variants(game, rng):
    """(label, game) pairs, each breaking one well-formedness rule."""
    n = len(game["players"])
    out = []

    def variant(label, fn):
        g = copy.deepcopy(game)
        try:
            fn(g)
        except Exception:  # the base game has no suitable position
            return
        out.append((label, g))

    pos = rng.randrange(n)
    variant("rewards_short", lambda g: g["rewards"].pop())
    variant("rewards_long", lambda g: g["rewards"].append(1))
    variant("transitions_short", lambda g: g["transition_list"].pop())
    variant("transitions_long", lambda g: g["transition_list"].append([(1, 0)]))
    variant("players_short", lambda g: g["players"].pop())
    variant("negative_reward", lambda g: g["rewards"].__setitem__(pos, -1))
    variant("negative_reward_float", lambda g: g["rewards"].__setitem__(pos, -0.5))
    variant("unknown_player", lambda g: g["players"].__setitem__(pos, "Player 3"))
    variant("player_none", lambda g: g["players"].__setitem__(pos, None))
    variant("final_too_big", lambda g: g["final_states"].append(n))
    variant("final_negative", lambda g: g["final_states"].insert(0, -1))
    variant("final_empty", lambda g: g.__setitem__("final_states", []))
    variant("state_without_transitions",
            lambda g: g["transition_list"].__setitem__(pos, []))
    variant("transitions_tuple",
            lambda g: g["transition_list"].__setitem__(pos, tuple(g["transition_list"][pos])))
    variant("transitions_none", lambda g: g["transition_list"].__setitem__(pos, None))
    variant("transitions_str", lambda g: g["transition_list"].__setitem__(pos, "ab"))
    variant("transition_is_list",
            lambda g: g["transition_list"][pos].__setitem__(0, list(g["transition_list"][pos][0])))
    variant("transition_len3",
            lambda g: g["transition_list"][pos].__setitem__(0, g["transition_list"][pos][0] + (0,)))
    variant("transition_len1",
            lambda g: g["transition_list"][pos].__setitem__(0, g["transition_list"][pos][0][:1]))
    variant("transition_is_int", lambda g: g["transition_list"][pos].append(3))
    variant("successor_float",
            lambda g: g["transition_list"][pos].__setitem__(0, (g["transition_list"][pos][0][0], 1.0)))
    variant("successor_str",
            lambda g: g["transition_list"][pos].__setitem__(0, (g["transition_list"][pos][0][0], "1")))
    variant("successor_too_big",
            lambda g: g["transition_list"][pos].__setitem__(-1, (g["transition_list"][pos][-1][0], n)))
    variant("successor_negative",
            lambda g: g["transition_list"][pos].__setitem__(-1, (g["transition_list"][pos][-1][0], -1)))
    p_idx = first_state_of(game, PLAYER_1)
    if p_idx is not None:
        variant("action_not_str",
                lambda g: g["transition_list"][p_idx].__setitem__(
                    0, (7, g["transition_list"][p_idx][0][1])))
        variant("action_none",
                lambda g: g["transition_list"][p_idx].__setitem__(
                    -1, (None, g["transition_list"][p_idx][-1][1])))
    q_idx = first_state_of(game, PROBABILISTIC)
    variant("probability_str",
            lambda g: g["transition_list"][q_idx].__setitem__(
                0, ("0.5", g["transition_list"][q_idx][0][1])))
    variant("probability_none",
            lambda g: g["transition_list"][q_idx].__setitem__(
                -1, (None, g["transition_list"][q_idx][-1][1])))
    # errors that are not ValueError and therefore escape the batch runner
    variant("missing_key", lambda g: g.pop("rewards"))
    variant("extra_key", lambda g: g.__setitem__("bogus", 1))
    variant("transition_list_none", lambda g: g.__setitem__("transition_list", None))
    variant("final_states_none", lambda g: g.__setitem__("final_states", None))
    return out


def unreachable_game():
    """Initial state cannot reach the final state: pruned solve has no solution."""
    return {
        "rewards": [1, 0, 0],
        "players": [PLAYER_1, PROBABILISTIC, PROBABILISTIC],
        "transition_list": [[("stay", 1)], [(1, 1)], [(1, 2)]],
        "final_states": [2],
    }


# --------------------------------------------------------------------------
# worker
# --------------------------------------------------------------------------

class ListHandler(logging.Handler):
    def __init__(self):
        super().__init__(level=logging.DEBUG)
        self.records = []

    def emit(self, record):
        self.records.append((record.levelname, record.getMessage()))


def describe_exception(exc):
    return f"EXC {type(exc).__name__}: {exc}"


def mask_results(results):
    """repr of a run_games result with total_time replaced (after a type check)."""
    if not isinstance(results, dict):
        return repr(results)
    masked = {}
    for name, entry in results.items():
        if isinstance(entry, dict) and "total_time" in entry:
            entry = dict(entry)
            entry["total_time"] = "<float>" if isinstance(entry["total_time"], float) \
                else repr(entry["total_time"])
        masked[name] = entry
    return repr(masked)


def fix_times(results):
    """Deterministic total_time values so that saved reports can be compared."""
    fixed = copy.deepcopy(results)
    for i, entry in enumerate(fixed.values()):
        entry["total_time"] = 0.125 * (i + 1)
    return fixed


def worker(root, out_path):
    root = os.path.abspath(root)
    sys.path.insert(0, root)
    sys.setrecursionlimit(1000)
    handler = ListHandler()
    root_logger = logging.getLogger()
    root_logger.addHandler(handler)
    root_logger.setLevel(logging.INFO)

    import reverse_dfs as rd
    import conditionalrewards as cr
    assert os.path.abspath(rd.__file__).startswith(root), rd.__file__
    assert os.path.abspath(cr.__file__).startswith(root), cr.__file__

    observations = []

    def record(case_id, value):
        observations.append([case_id, value if isinstance(value, str) else repr(value)])

    def call(case_id, fn, *args):
        try:
            record(case_id, fn(*args))
        except RecursionError as exc:
            record(case_id, "EXC RecursionError")
        except Exception as exc:
            record(case_id, describe_exception(exc))

    def logs_since(mark):
        text = "\n".join(f"{lvl}|{msg}" for lvl, msg in handler.records[mark:])
        return re.sub(r"(Total time\s*: ).*", r"\1<t>", text)

    # ---------------------------------------------------------------- A ----
    # reverse_dfs.py, every function, hand written cases
    figure = [
        [("beta", 1), ("alfa", 2)], [(3 / 4, 3), (1 / 4, 4)], [(1 / 2, 5), (1 / 2, 6)],
        [("delta", 4), ("gamma", 5)], [(1, 4)], [(1, 5)], [(1, 6)]]
    chain_len = 6000
    deep_chain = [[(1, i + 1)] for i in range(chain_len - 1)] + [[(1, chain_len - 1)]]
    wide = [[(1, 1)]] + [[(1, 1)]] + [[("a", 1), ("b", 0)] for _ in range(500)]
    hand_graphs = {
        "empty": ([], []),
        "single_loop_final": ([[(1, 0)]], [0]),
        "single_loop_nofinal": ([[(1, 0)]], []),
        "figure_4": (figure, [4]),
        "figure_5": (figure, [5]),
        "figure_45": (figure, [4, 5]),
        "figure_54_dupe": (figure, [5, 4, 5, 5]),
        "figure_all": (figure, list(range(7))),
        "figure_0": (figure, [0]),
        "figure_tuple_finals": (figure, (6, 4)),
        "figure_set_finals": (figure, {6}),
        "figure_final_out_of_range": (figure, [7]),
        "figure_final_negative": (figure, [-1]),
        "figure_final_float": (figure, [4.0]),
        "figure_final_bool": (figure, [True]),
        "figure_final_unhashable": (figure, [[4]]),
        "figure_final_str": (figure, ["4"]),
        "dup_transitions": ([[(0.5, 1), (0.5, 1)], [(1, 1)], [("a", 0), ("b", 0), ("c", 1)]], [1]),
        "successor_out_of_range": ([[(1, 5)], [(1, 0)]], [0]),
        "successor_out_of_range_final": ([[(1, 5)], [(1, 0)]], [5]),
        "successor_str": ([[(1, "x")], [(1, 0)]], [0]),
        "successor_unhashable": ([[(1, [0])], [(1, 0)]], [0]),
        "transition_len3": ([[(1, 0, 0)], [(1, 0)]], [0]),
        "transition_len1": ([[(1,)], [(1, 0)]], [0]),
        "transition_list_pairs": ([[[1, 1]], [[1, 1]]], [1]),
        "state_not_iterable": ([None, [(1, 0)]], [0]),
        "state_empty": ([[], [(1, 0)], []], [0]),
        "transitions_tuple_outer": (((("a", 1),), ((1, 1),)), [1]),
        "deep_chain": (deep_chain, [chain_len - 1]),
        "deep_chain_mid": (deep_chain, [chain_len // 2]),
        "wide": (wide, [1]),
        "wide_0": (wide, [0]),
        "none_transition_list": (None, [0]),
        "none_finals": (figure, None),
    }
    for label, (transition_list, finals) in hand_graphs.items():
        before = copy.deepcopy((transition_list, finals))
        call(f"A/{label}/reverse_dfs", rd.reverse_dfs, transition_list, finals)
        call(f"A/{label}/reverse_transition_list", rd.reverse_transition_list, transition_list)
        call(f"A/{label}/core", rd.reverse_transition_list_core, transition_list)
        record(f"A/{label}/inputs_untouched", before == (transition_list, finals))

    # result types and identity
    res = rd.reverse_dfs(figure, [4])
    record("A/types/reverse_dfs", type(res).__name__)
    record("A/types/reverse_transition_list", type(rd.reverse_transition_list(figure)).__name__)
    record("A/types/core", type(rd.reverse_transition_list_core(figure)).__name__)
    record("A/types/reverse_dfs_from", rd.reverse_dfs_from(4, rd.reverse_transition_list(figure), set()))

    # list_of_tuples_to_dict_of_lists
    tuple_lists = {
        "empty": [],
        "basic": [(1, 99), (1, 98), (2, 97), (2, 96), (3, 95), (1, 90)],
        "dupes": [(0, 0), (0, 0), (0, 0)],
        "mixed_keys": [("a", 1), (1, "a"), (1.0, 2), (True, 3), (None, 4)],
        "lists_as_pairs": [[1, 2], [1, 3]],
        "unhashable_key": [([1], 2)],
        "too_short": [(1, 2), (3,)],
        "too_long": [(1, 2, 3), (1, 4, 5)],
        "not_subscriptable": [(1, 2), 5],
        "tuple_input": ((2, 1), (2, 0)),
        "generator_like": iter([(5, 1), (4, 1), (5, 2)]),
    }
    for label, tuples in tuple_lists.items():
        call(f"A/l2d/{label}", rd.list_of_tuples_to_dict_of_lists, tuples)
    call("A/l2d/none", rd.list_of_tuples_to_dict_of_lists, None)
    result = rd.list_of_tuples_to_dict_of_lists([(1, 2), (3, 2)])
    record("A/l2d/values_not_shared", result[1] is not result[3])

    # add_missing_states
    for label, (d, n) in {
        "empty_0": ({}, 0),
        "empty_3": ({}, 3),
        "partial": ({2: [0], 0: [1, 1]}, 4),
        "full": ({0: [0], 1: []}, 2),
        "extra_keys": ({7: [1], "x": [2]}, 3),
        "negative_n": ({1: [0]}, -2),
        "float_key": ({1.0: [0]}, 3),
    }.items():
        original = d
        try:
            out = rd.add_missing_states(d, n)
            record(f"A/ams/{label}", repr(out) + f" same_object={out is original}"
                   + f" input_after={original!r}")
            if len(out) > 1:
                empties = [v for v in out.values() if v == []]
                record(f"A/ams/{label}/fresh_lists",
                       all(a is not b for i, a in enumerate(empties) for b in empties[i + 1:]))
        except Exception as exc:
            record(f"A/ams/{label}", describe_exception(exc))
    call("A/ams/bad_n", rd.add_missing_states, {}, "3")
    call("A/ams/none_dict", rd.add_missing_states, None, 2)

    # reverse_dfs_from: mutation of the visited set, pre-visited states
    reversed_figure = rd.reverse_transition_list(figure)
    for label, (start, visited) in {
        "fresh_4": (4, set()),
        "fresh_0": (0, set()),
        "already_visited": (4, {4}),
        "blocked_by_3": (4, {3}),
        "blocked_by_1_3": (5, {1, 3}),
        "missing_state": (9, set()),
        "missing_state_visited": (9, {9}),
        "unhashable_state": ([4], set()),
    }.items():
        try:
            ret = rd.reverse_dfs_from(start, reversed_figure, visited)
            record(f"A/from/{label}", f"ret={ret!r} visited={sorted(visited, key=repr)!r}")
        except Exception as exc:
            record(f"A/from/{label}",
                   describe_exception(exc) + f" visited={sorted(visited, key=repr)!r}")
    record("A/from/reversed_untouched", reversed_figure == rd.reverse_transition_list(figure))
    call("A/from/list_visited", rd.reverse_dfs_from, 4, reversed_figure, [])
    frozen = {0: (), 1: (0, 0), 2: (1,)}
    visited = set()
    call("A/from/tuple_values", rd.reverse_dfs_from, 2, frozen, visited)
    record("A/from/tuple_values/visited", sorted(visited))

    # ---------------------------------------------------------------- B ----
    # reverse_dfs.py, seeded random graphs
    rng = random.Random(20240607)
    for i in range(400):
        n = rng.randint(0, 14)
        transition_list = random_graph(rng, n) if n else []
        k = rng.randint(0, min(n, 3))
        finals = [rng.randrange(n) for _ in range(k)] if n else []
        if rng.random() < 0.05 and n:
            finals.append(n + rng.randint(0, 2))  # out of range final state
        before = copy.deepcopy((transition_list, finals))
        call(f"B/{i}/reverse_dfs", rd.reverse_dfs, transition_list, finals)
        call(f"B/{i}/reverse_transition_list", rd.reverse_transition_list, transition_list)
        call(f"B/{i}/core", rd.reverse_transition_list_core, transition_list)
        record(f"B/{i}/inputs_untouched", before == (transition_list, finals))
    for i in range(20):
        n = rng.randint(200, 600)
        transition_list = random_graph(rng, n, max_out=2)
        finals = [rng.randrange(n) for _ in range(rng.randint(1, 4))]
        call(f"B/big{i}/reverse_dfs", rd.reverse_dfs, transition_list, finals)
        call(f"B/big{i}/reverse_transition_list", rd.reverse_transition_list, transition_list)

    # ---------------------------------------------------------------- C ----
    # conditionalrewards.read_dict_from_file
    workdir = tempfile.mkdtemp(prefix="equiv_")
    os.chdir(workdir)
    os.mkdir("outputs")
    os.mkdir("in")
    file_texts = {
        "empty_dict.py": "{}",
        "simple.py": "{'a': 1, 'b': [1, 2, (3, 'x')]}",
        "comments.py": "# leading comment\n{\n  'g': {'rewards': [1, 2],  # trailing\n 'x': (0.5, 1)},\n}\n",
        "expression.py": "dict(a=1, b=[(0.5, i) for i in range(3)])",
        "arith.py": "{'g': {'transition_list': [[(1/4, 1), (3/4, 0)]], 'n': 10**(-6)}}",
        "list.py": "[1, 2, 3]",
        "none.py": "None",
        "string.py": "'{}'",
        "syntax_error.py": "{'a': ",
        "name_error.py": "{'a': undefined_name_xyz}",
        "statement.py": "x = {}",
        "empty.py": "",
        "zero_division.py": "{'a': 1/0}",
        "ordered.py": "{'z': 1, 'a': 2, 'm': 3}",
        "dup_keys.py": "{'a': 1, 'a': 2}",
    }
    for fname, text in file_texts.items():
        with open(os.path.join("in", fname), "w") as fh:
            fh.write(text)
        call(f"C/read/{fname}", cr.read_dict_from_file, os.path.join("in", fname))
    call("C/read/missing_file", cr.read_dict_from_file, os.path.join("in", "nope.py"))
    call("C/read/directory", cr.read_dict_from_file, "in")
    for fname in ["example_17_08.py", "example_games.py", "paper_games.py",
                  "manual_1_game_a.py", "robot_1_w2_l2_r6_rb10_lb5_tb10_lt0.py"]:
        call(f"C/read/{fname}", cr.read_dict_from_file, os.path.join(root, "inputs", fname))
    value = cr.read_dict_from_file(os.path.join("in", "ordered.py"))
    record("C/read/type_and_order", f"{type(value).__name__} {list(value)}")

    # ---------------------------------------------------------------- D ----
    # conditionalrewards.run_games and save_results_to_file
    def run_case(case_id, games, save_as=None):
        mark = len(handler.records)
        results = None
        try:
            results = cr.run_games(games)
            record(f"{case_id}/results", mask_results(results))
            record(f"{case_id}/result_order", list(results))
        except Exception as exc:
            record(f"{case_id}/results", describe_exception(exc))
        record(f"{case_id}/games_after", games)
        record(f"{case_id}/logs", logs_since(mark))
        if results is not None and save_as is not None:
            save_case(case_id, fix_times(results), save_as)
        return results

    def snapshot_outputs():
        snap = {}
        for dirpath, _, filenames in os.walk(workdir):
            for filename in filenames:
                path = os.path.join(dirpath, filename)
                rel = os.path.relpath(path, workdir)
                if rel.startswith("in" + os.sep):
                    continue
                with open(path) as fh:
                    snap[rel] = fh.read()
        return snap

    def clear_outputs():
        for filename in os.listdir("outputs"):
            os.remove(os.path.join("outputs", filename))

    def save_case(case_id, results, save_as):
        clear_outputs()
        before = copy.deepcopy(results)
        try:
            ret = cr.save_results_to_file(results, save_as)
            record(f"{case_id}/save[{save_as}]/return", ret)
        except Exception as exc:
            record(f"{case_id}/save[{save_as}]/return", describe_exception(exc))
        record(f"{case_id}/save[{save_as}]/files", sorted(snapshot_outputs().items()))
        record(f"{case_id}/save[{save_as}]/results_untouched", before == results)

    save_names = ["inputs/games.py", "games.py", "/abs/dir/games.py", "./x/y.z/games.v2.py",
                  "noext", "dir.with.dots/noext", "a b/c d.py", "trailing.", "inputs\\win.py",
                  ".hidden.py", "some/dir/"]

    # the repository's own small input files
    for fname in ["example_17_08.py", "example_games.py", "paper_games.py",
                  "manual_1_game_a.py", "manual_arrow_bottom.py",
                  "robot_1_w1_l2_r6_rb10_lb5_tb10_lt0.py",
                  "robot_1_w2_l1_r6_rb10_lb5_tb10_lt0.py",
                  "robot_1_w2_l2_r6_rb10_lb5_tb10_lt0.py",
                  "robot_999132423_w3_l3_r6_rb1_lb2_tb10_lt30.py"]:
        path = os.path.join(root, "inputs", fname)
        games = cr.read_dict_from_file(path)
        run_case(f"D/inputs/{fname}", games, save_as=path)

    # hand written batches
    run_case("D/hand/empty", {}, save_as="inputs/empty.py")
    run_case("D/hand/unreachable", {"u": unreachable_game()}, save_as="inputs/u.py")
    rng = random.Random(99)
    base = random_game(rng, 4)
    run_case("D/hand/unreachable_between",
             {"first": copy.deepcopy(base), "u": unreachable_game(),
              "last": copy.deepcopy(base)}, save_as="u3.py")
    run_case("D/hand/name_clash",
             {"g": copy.deepcopy(base), "g_no_prune": unreachable_game()}, save_as="clash.py")
    run_case("D/hand/non_str_name", {1: copy.deepcopy(base)})
    run_case("D/hand/prune_key_present",
             {"g": dict(copy.deepcopy(base), prune_states=False)}, save_as="pk.py")
    run_case("D/hand/not_a_dict", [("g", base)])
    run_case("D/hand/game_not_a_dict", {"g": [1, 2, 3]})
    shared = copy.deepcopy(base)
    run_case("D/hand/shared_game_object", {"a": shared, "b": shared}, save_as="shared.py")

    # seeded random well-formed games, alone and in batches
    rng = random.Random(4242)
    pool = []
    for i in range(150):
        game = random_game(rng)
        pool.append(game)
        before = copy.deepcopy(game)
        save_as = rng.choice(save_names) if i % 5 == 0 else None
        run_case(f"D/rand/{i}", {f"game_{i}": game}, save_as=save_as)
        game.pop("prune_states", None)
        record(f"D/rand/{i}/description_untouched", game == before)

    # malformed games (every rule, random position), alone and inside batches
    rng = random.Random(777)
    bad_pool = []
    for i in range(12):
        game = random_game(rng, rng.randint(2, 5))
        for label, bad in malformed_variants(game, rng):
            bad_pool.append((label, bad))
            run_case(f"D/bad/{i}/{label}", {f"bad_{label}": copy.deepcopy(bad)},
                     save_as="inputs/bad.py" if i % 4 == 0 else None)

    rng = random.Random(31337)
    for i in range(60):
        batch = {}
        for j in range(rng.randint(2, 5)):
            roll = rng.random()
            if roll < 0.6:
                batch[f"ok_{j}"] = copy.deepcopy(rng.choice(pool))
            elif roll < 0.7:
                batch[f"unreach_{j}"] = unreachable_game()
            else:
                label, bad = rng.choice(bad_pool)
                batch[f"{label}_{j}"] = copy.deepcopy(bad)
        items = list(batch.items())
        rng.shuffle(items)
        run_case(f"D/batch/{i}", dict(items), save_as=rng.choice(save_names))

    # save_results_to_file on hand written result dictionaries
    entry = {
        "n_states": 3, "n_transitions": 4, "n_iterations_reach": 5, "n_iterations_rew": 6,
        "reachability_strategies": [("a", 1), None], "final_strategies": [("a", 1), None],
        "total_time": 1.5, "msg": "Game solved", "rewards": [1.0, 2.5], "rew_min_reach": [0, 0],
        "probabilities": [1, 0.5], "prob_min_rew": [0.25, 0.5],
    }
    odd = dict(entry, msg="multi\nline {braces} %s %d", final_strategies=[("b", 2), None],
               rewards=None, total_time="soon", extra_key="ignored")
    for name in save_names:
        save_case("D/save/basic", {"g": entry, "g_no_prune": odd}, name)
    save_case("D/save/empty_results", {}, "inputs/none.py")
    save_case("D/save/non_str_names", {1: entry, (2, 3): odd, None: entry}, "k.py")
    for missing in ["msg", "total_time", "reachability_strategies", "prob_min_rew", "n_states",
                    "rew_min_reach", "final_strategies"]:
        broken = {k: v for k, v in entry.items() if k != missing}
        save_case(f"D/save/missing_{missing}", {"ok": entry, "broken": broken, "never": entry},
                  "partial.py")
    save_case("D/save/entry_not_dict", {"g": None}, "nd.py")
    save_case("D/save/results_not_dict", [entry], "nd2.py")
    call("D/save/file_name_not_str", cr.save_results_to_file, {"g": entry}, 5)
    clear_outputs()
    os.rmdir("outputs")
    call("D/save/no_outputs_dir", cr.save_results_to_file, {"g": entry}, "inputs/g.py")
    record("D/save/no_outputs_dir/files", sorted(snapshot_outputs().items()))
    os.mkdir("outputs")

    # ---------------------------------------------------------------- E ----
    # conditionalrewards.main (in process, argv patched)
    def run_main(case_id, argv):
        clear_outputs()
        mark = len(handler.records)
        old_argv, old_out, old_err = sys.argv, sys.stdout, sys.stderr
        sys.argv = ["conditionalrewards.py"] + argv
        sys.stdout, sys.stderr = io.StringIO(), io.StringIO()
        try:
            try:
                ret = cr.main()
                outcome = f"ret={ret!r}"
            except SystemExit as exc:
                outcome = f"SystemExit({exc.code!r})"
            except Exception as exc:
                outcome = describe_exception(exc)
            out_text, err_text = sys.stdout.getvalue(), sys.stderr.getvalue()
        finally:
            sys.argv, sys.stdout, sys.stderr = old_argv, old_out, old_err
        record(f"{case_id}/outcome", outcome)
        record(f"{case_id}/stdout", out_text)
        record(f"{case_id}/stderr", err_text)
        files = {k: TIME_RE.sub(r"\1<t>", v) for k, v in snapshot_outputs().items()}
        record(f"{case_id}/files", sorted(files.items()))
        record(f"{case_id}/logs", logs_since(mark))

    example = os.path.join(root, "inputs", "example_17_08.py")
    paper = os.path.join(root, "inputs", "paper_games.py")
    mixed_path = os.path.join("in", "mixed.games.py")
    rng = random.Random(5)
    mixed = {"ok": random_game(rng, 3), "u": unreachable_game()}
    label, bad = malformed_variants(random_game(rng, 3), rng)[5]
    mixed["bad"] = bad
    mixed["ok2"] = random_game(rng, 5)
    with open(mixed_path, "w") as fh:
        fh.write("# generated\n" + repr(mixed) + "\n")
    run_main("E/save_example", ["-f", example, "-s"])
    run_main("E/nosave_example", ["--file", example])
    run_main("E/save_paper_long_opts", ["--save_results", "--file", paper, "--log_level", "i"])
    run_main("E/save_mixed", ["-f", mixed_path, "-s", "-l", "d"])
    run_main("E/bad_log_level", ["-f", example, "-s", "-l", "verbose"])
    run_main("E/missing_file_arg", ["-s"])
    run_main("E/unknown_arg", ["-f", example, "--bogus"])
    run_main("E/no_such_file", ["-f", os.path.join("in", "nope.py"), "-s"])
    run_main("E/not_a_dict", ["-f", os.path.join("in", "list.py"), "-s"])
    run_main("E/syntax_error", ["-f", os.path.join("in", "syntax_error.py"), "-s"])
    run_main("E/empty_dict", ["-f", os.path.join("in", "empty_dict.py"), "-s"])
    run_main("E/help", ["-h"])

    # one real command line run (python conditionalrewards.py ...)
    clear_outputs()
    proc = subprocess.run(
        [sys.executable, os.path.join(root, "conditionalrewards.py"),
         "-f", example, "-s", "-l", "i"],
        capture_output=True, text=True, cwd=workdir, timeout=600)
    record("E/cli/returncode", proc.returncode)
    record("E/cli/stdout", TIME_RE.sub(r"\1<t>", proc.stdout))
    record("E/cli/stderr", TIME_RE.sub(r"\1<t>", proc.stderr).replace(root, "<root>"))
    record("E/cli/files", sorted((k, TIME_RE.sub(r"\1<t>", v))
                                 for k, v in snapshot_outputs().items()))

    os.chdir(root)
    import shutil
    shutil.rmtree(workdir, ignore_errors=True)

    text = json.dumps(observations)
    text = text.replace(json.dumps(root)[1:-1], "<root>").replace(
        json.dumps(workdir)[1:-1], "<workdir>")
    with open(out_path, "w") as fh:
        fh.write(text)


# --------------------------------------------------------------------------
# parent
# --------------------------------------------------------------------------

def run_worker(root, out_path):
    proc = subprocess.run(
        [sys.executable, os.path.abspath(__file__), "--worker", root, out_path],
        capture_output=True, text=True, timeout=3600)
    if proc.returncode != 0 or not os.path.exists(out_path):
        print(f"DIFFERENT: worker for {root} failed (exit {proc.returncode})")
        print(proc.stdout[-2000:])
        print(proc.stderr[-4000:])
        sys.exit(1)
    with open(out_path) as fh:
        return json.load(fh)


def shorten(text, limit=1500):
    return text if len(text) <= limit else text[:limit] + f"... [{len(text)} chars]"


def first_text_difference(a, b):
    for idx, (x, y) in enumerate(zip(a, b)):
        if x != y:
            lo = max(0, idx - 200)
            return f"at char {idx}:\n  A: ...{a[lo:idx + 200]!r}\n  B: ...{b[lo:idx + 200]!r}"
    return f"lengths differ: {len(a)} vs {len(b)}"


def main():
    if len(sys.argv) == 4 and sys.argv[1] == "--worker":
        try:
            worker(sys.argv[2], sys.argv[3])
        except Exception:
            traceback.print_exc()
            sys.exit(2)
        return
    if len(sys.argv) != 3:
        print(__doc__)
        sys.exit(2)
    root_a, root_b = sys.argv[1], sys.argv[2]
    with tempfile.TemporaryDirectory(prefix="equiv_parent_") as tmp:
        obs_a = run_worker(root_a, os.path.join(tmp, "a.json"))
        obs_b = run_worker(root_b, os.path.join(tmp, "b.json"))
    for (id_a, val_a), (id_b, val_b) in zip(obs_a, obs_b):
        if id_a != id_b:
            print(f"DIFFERENT: case sequence diverges: {id_a} vs {id_b}")
            sys.exit(1)
        if val_a != val_b:
            print(f"DIFFERENT in case {id_a}")
            print(shorten(first_text_difference(val_a, val_b)))
            sys.exit(1)
    if len(obs_a) != len(obs_b):
        print(f"DIFFERENT: number of observations {len(obs_a)} vs {len(obs_b)}")
        sys.exit(1)
    print(f"{len(obs_a)} observations compared")
    print("SAME")
    sys.exit(0)


if __name__ == "__main__":
    main()
