#!/usr/bin/env python
"""Differential test for property C14 (cross-objective diagnostics of tad.py).

usage: python equiv.py <clean_repo_dir> <patched_repo_dir>

Both trees are loaded in their own subprocess (module names collide).  Each
subprocess runs the SAME deterministic battery of inputs and prints one line
per case (`<case id>\t<repr of the observation>`); the parent compares the two
streams line by line.  Prints SAME / exits 0 when nothing differs, prints the
first difference / exits 1 otherwise.

Battery
  A  stopping-by-construction random games (all three state kinds, cycles through
     probabilistic back edges, parallel edges, repeated action names, several
     finals, dead sinks, int and float rewards), both pruning modes: full
     solve() tuple, the caller's description after the solve, and a digest of
     the DEBUG log stream for a part of them
  B  unrestricted random games (player cycles, probabilities not summing to 1,
     reach values above 1, zero-reward loops ...), both pruning modes, guarded
     by a deterministic iteration cap (non-stopping games)
  C  malformed / boundary descriptions: exception type + message
  D  node level: value_iteration_rewards of every node kind and
     PlayerTwo._expected_rewards_min_reach on hand-seeded state lists (values
     above 1, NaN, inf, ties), Solver.value_iteration_total_rewards on
     hand-built state lists (also with a threshold that skips the loop)
  E  conditionalrewards.run_games + save_results_to_file on random dictionaries
     and on the small shipped input files: report files byte for byte (clock
     replaced by a deterministic counter), INFO log stream
"""
import hashlib
import os
import subprocess
import sys

ITERATION_CAP = 800


# --------------------------------------------------------------------------- #
# worker
# --------------------------------------------------------------------------- #

class IterationCap(BaseException):
    pass


def worker(tree):
    import copy
    import logging
    import random
    import tempfile

    tree = os.path.abspath(tree)
    sys.path.insert(0, tree)
    workdir = tempfile.mkdtemp(prefix="equiv_F14_")
    os.makedirs(os.path.join(workdir, "outputs"))
    os.chdir(workdir)

    import tad
    import conditionalrewards
    import time as _time

    P1, P2, PR = tad.PLAYER_1, tad.PLAYER_2, tad.PROBABILISTIC
    out = sys.stdout

    # ---- instrumentation: iteration cap + log capture ---------------------- #
    counter = {"iterations": 0, "cap": ITERATION_CAP}
    real_debug = logging.debug

    def counting_debug(msg, *args, **kwargs):
        if isinstance(msg, str) and msg.startswith("iteration "):
            counter["iterations"] += 1
            if counter["iterations"] > counter["cap"]:
                raise IterationCap()
        return real_debug(msg, *args, **kwargs)

    logging.debug = counting_debug

    class Digest(logging.Handler):
        def __init__(self):
            super().__init__()
            self.reset()

        def reset(self):
            self.hash = hashlib.sha256()
            self.count = 0

        def emit(self, record):
            self.count += 1
            self.hash.update((record.levelname + ":" + record.getMessage() + "\n").encode())

    digest = Digest()
    root = logging.getLogger()
    root.addHandler(digest)
    root.setLevel(logging.WARNING)

    clock = {"t": 0.0}

    def fake_time():
        clock["t"] += 0.125
        return clock["t"]

    _time.time = fake_time

    def emit(case, value):
        out.write(f"{case}\t{value}\n")

    def guarded(fn):
        counter["iterations"] = 0
        try:
            return "ok " + repr(fn())
        except IterationCap:
            return "CAP"
        except RecursionError:
            return "RecursionError"
        except Exception as e:  # noqa
            return f"exc {type(e).__name__}: {e}"

    def solve_case(case, game, level=logging.WARNING):
        for prune in (True, False):
            description = copy.deepcopy(game)
            root.setLevel(level)
            digest.reset()
            res = guarded(lambda: tad.StochasticGame(prune_states=prune, **description).solve())
            root.setLevel(logging.WARNING)
            emit(f"{case}/prune={prune}", res)
            emit(f"{case}/prune={prune}/input", repr(description))
            if level != logging.WARNING:
                emit(f"{case}/prune={prune}/log", f"{digest.count} {digest.hash.hexdigest()}")

    # ---- generators ---------------------------------------------------------- #
    ACTIONS = ["a", "b", "c", "d", "alfa", "beta", "x"]

    def split_probabilities(rng, k, exact=True):
        if k == 1:
            return [1]
        style = rng.random()
        if style < 0.4:
            # dyadic: sums exactly to 1
            cuts = sorted(rng.randrange(1, 64) for _ in range(k - 1))
            pts = [0] + cuts + [64]
            ps = [(pts[i + 1] - pts[i]) / 64 for i in range(k)]
            if all(p > 0 for p in ps):
                return ps
        ws = [rng.random() + 0.05 for _ in range(k)]
        s = sum(ws)
        return [w / s for w in ws]

    def reward_value(rng, style):
        if style == "int":
            return rng.randrange(0, 12)
        if style == "float":
            return round(rng.random() * 10, rng.randrange(0, 5))
        if style == "big":
            return rng.choice([0, 1, 10 ** 6, 10 ** 12, 3])
        return rng.choice([0, 0, 1, 2])

    def stopping_game(rng):
        """Player states only move forward (or into a sink); probabilistic states
        may move anywhere but keep forward mass -> every play stops."""
        n_core = rng.randrange(1, 9)
        n_final = rng.randrange(1, 4)
        n_dead = rng.randrange(0, 3)
        n = n_core + n_final + n_dead
        sinks = list(range(n_core, n))
        rng.shuffle(sinks)
        finals = sorted(sinks[:n_final])
        style = rng.choice(["int", "int", "float", "big", "small"])
        players, transitions, rewards = [], [], []
        for s in range(n_core):
            kind = rng.choice([P1, P2, PR])
            forward = list(range(s + 1, n))
            k = rng.randrange(1, 5)
            if kind == PR:
                targets = [rng.choice(forward)]
                for _ in range(k - 1):
                    targets.append(rng.randrange(0, n) if rng.random() < 0.4 else rng.choice(forward))
                rng.shuffle(targets)
                ps = split_probabilities(rng, k)
                transitions.append([(p, t) for p, t in zip(ps, targets)])
            else:
                edges = []
                for _ in range(k):
                    if rng.random() < 0.25 and edges:
                        action = rng.choice(edges)[0]       # repeated action name
                    else:
                        action = rng.choice(ACTIONS)
                    if rng.random() < 0.2 and edges:
                        target = rng.choice(edges)[1]       # parallel edge
                    else:
                        target = rng.choice(forward)
                    edges.append((action, target))
                transitions.append(edges)
            players.append(kind)
            rewards.append(reward_value(rng, style))
        for s in range(n_core, n):
            kind = rng.choice([P1, P2, PR])
            players.append(kind)
            transitions.append([(1, s)] if kind == PR else [(rng.choice(ACTIONS), s)])
            rewards.append(0)
        if rng.random() < 0.15:
            finals = finals + [rng.choice(finals)]          # duplicate final
        if rng.random() < 0.1:
            finals = list(reversed(finals))
        return {"rewards": rewards, "players": players,
                "transition_list": transitions, "final_states": finals}

    def wild_game(rng):
        n = rng.randrange(1, 8)
        players, transitions, rewards = [], [], []
        for s in range(n):
            kind = rng.choice([P1, P2, PR])
            k = rng.randrange(1, 4)
            if kind == PR:
                style = rng.random()
                if style < 0.7:
                    ps = split_probabilities(rng, k)
                elif style < 0.85:
                    ps = [rng.choice([0.5, 0.75, 1, 0.25, 0]) for _ in range(k)]  # may exceed 1
                else:
                    ps = [rng.random() * 1.2 for _ in range(k)]
                transitions.append([(p, rng.randrange(0, n)) for p in ps])
            else:
                transitions.append([(rng.choice(ACTIONS[:4]), rng.randrange(0, n)) for _ in range(k)])
            players.append(kind)
            rewards.append(rng.choice([0, 0, 0, 1, 2, 5, 0.5]))
        finals = sorted(set(rng.randrange(0, n) for _ in range(rng.randrange(1, 3))))
        for f in finals:
            if rng.random() < 0.8:
                rewards[f] = 0
                transitions[f] = [(1, f)] if players[f] == PR else [("stay", f)]
        return {"rewards": rewards, "players": players,
                "transition_list": transitions, "final_states": finals}

    # ---- A: stopping games --------------------------------------------------- #
    rng = random.Random(140014)
    for i in range(1300):
        game = stopping_game(rng)
        level = logging.DEBUG if i % 5 == 0 else (logging.INFO if i % 5 == 1 else logging.WARNING)
        solve_case(f"A{i}", game, level)

    # ---- B: unrestricted games ------------------------------------------------ #
    rng = random.Random(260026)
    for i in range(350):
        solve_case(f"B{i}", wild_game(rng))

    # ---- C: malformed and boundary descriptions ------------------------------- #
    nan, inf = float("nan"), float("inf")
    base = {"rewards": [1, 2, 0, 0], "players": [P1, P2, PR, PR],
            "transition_list": [[("a", 1), ("b", 2)], [("a", 2), ("b", 3)], [(1, 2)], [(1, 3)]],
            "final_states": [2]}

    def variant(**changes):
        g = copy.deepcopy(base)
        g.update(changes)
        return g

    malformed = [
        base,
        variant(final_states=[3]),
        variant(final_states=[2, 3]),
        variant(final_states=[]),
        variant(final_states=[4]),
        variant(final_states=[-1]),
        variant(final_states=[0]),
        variant(final_states=[1]),
        variant(rewards=[1, 2, 0]),
        variant(rewards=[1, -2, 0, 0]),
        variant(rewards=[1, 2, 0, 0, 0]),
        variant(rewards=[nan, 2, 0, 0]),
        variant(rewards=[1, nan, 0, 0]),
        variant(rewards=[1, 2, nan, 0]),
        variant(rewards=[1, 2, 0, nan]),
        variant(rewards=[inf, 2, 0, 0]),
        variant(rewards=[1, inf, 0, 0]),
        variant(rewards=[1, 2, 0, inf]),
        variant(rewards=[1, 2, inf, 0]),
        variant(rewards=[True, 2.5, 0, 0]),
        variant(rewards=["1", 2, 0, 0]),
        variant(rewards=[]),
        variant(players=[P1, P2, PR]),
        variant(players=[P1, "Player 3", PR, PR]),
        variant(players=[P2, P1, PR, PR]),
        variant(players=[PR, PR, PR, PR]),
        variant(players=[P1, P1, PR, PR]),
        variant(players=[P2, P2, PR, PR]),
        variant(players=[P2, P2, P1, P2]),
        variant(players=[]),
        variant(transition_list=[[("a", 1)], [("a", 2)], [(1, 2)]]),
        variant(transition_list=[[("a", 1)], [("a", 2)], [(1, 2)], []]),
        variant(transition_list=[[], [("a", 2)], [(1, 2)], [(1, 3)]]),
        variant(transition_list=[(("a", 1),), [("a", 2)], [(1, 2)], [(1, 3)]]),
        variant(transition_list=[[["a", 1]], [("a", 2)], [(1, 2)], [(1, 3)]]),
        variant(transition_list=[[("a", 1, 2)], [("a", 2)], [(1, 2)], [(1, 3)]]),
        variant(transition_list=[[(1, 1)], [("a", 2)], [(1, 2)], [(1, 3)]]),
        variant(transition_list=[[("a", 1)], [("a", 2)], [("1", 2)], [(1, 3)]]),
        variant(transition_list=[[("a", 1.0)], [("a", 2)], [(1, 2)], [(1, 3)]]),
        variant(transition_list=[[("a", 4)], [("a", 2)], [(1, 2)], [(1, 3)]]),
        variant(transition_list=[[("a", -1)], [("a", 2)], [(1, 2)], [(1, 3)]]),
        variant(transition_list=[[("a", 1)], [("a", 2)], [(1, 2)], None]),
        variant(transition_list=[[("a", 3)], [("a", 2)], [(1, 2)], [(1, 3)]]),          # initial cannot reach
        variant(transition_list=[[("a", 1), ("a", 2)], [("a", 2), ("a", 3)], [(1, 2)], [(1, 3)]]),
        variant(transition_list=[[("a", 1), ("b", 1)], [("a", 3), ("a", 2)], [(1, 2)], [(1, 3)]]),
        variant(transition_list=[[("a", 1), ("b", 2)], [("a", 2), ("b", 3)], [(0.7, 2), (0.7, 3)], [(1, 3)]]),
        variant(transition_list=[[("a", 1), ("b", 2)], [("a", 2), ("b", 2)], [(1.5, 2)], [(1, 3)]],
                final_states=[3]),
        variant(transition_list=[[("a", 1), ("b", 2)], [("a", 2), ("b", 3)], [(0.5, 2), (0.5, 3)], [(2, 3)]],
                final_states=[3]),
        variant(transition_list=[[("a", 1), ("b", 2)], [("a", 2), ("b", 3)], [(0, 2), (1, 3)], [(1, 3)]]),
        variant(transition_list=[[("a", 1), ("b", 2)], [("a", 2), ("b", 3)], [(True, 2)], [(1, 3)]]),
        variant(transition_list=[[("a", 1), ("b", 2)], [("a", 0), ("b", 3)], [(1, 2)], [(1, 3)]]),  # player cycle
        variant(transition_list=[[("a", 0), ("b", 2)], [("a", 2), ("b", 3)], [(1, 2)], [(1, 3)]]),  # self loop
        variant(transition_list=[[("a", 1), ("b", 2)], [("a", 2), ("b", 3)], [(nan, 2)], [(1, 3)]]),
        {"rewards": [0], "players": [PR], "transition_list": [[(1, 0)]], "final_states": [0]},
        {"rewards": [3], "players": [P1], "transition_list": [[("a", 0)]], "final_states": [0]},
        {"rewards": [3], "players": [P2], "transition_list": [[("a", 0)]], "final_states": [0]},
        {"rewards": [0], "players": [P2], "transition_list": [[("a", 0), ("a", 0)]], "final_states": [0]},
        {"rewards": [], "players": [], "transition_list": [], "final_states": []},
        {"rewards": [1, 0], "players": [P2, PR], "transition_list": [[("a", 1)], [(1, 1)]], "final_states": [1]},
        {"rewards": [1, 0], "players": [P1, PR], "transition_list": [[("a", 1)], [(1, 1)]], "final_states": [1]},
        {"rewards": [1, 0], "players": [PR, PR], "transition_list": [[(1, 1)], [(1, 1)]], "final_states": [1]},
    ]
    for i, game in enumerate(malformed):
        solve_case(f"C{i}", game, logging.DEBUG if i % 2 else logging.WARNING)

    # ---- D: node level --------------------------------------------------------- #
    rng = random.Random(370037)
    VALUES = [0, 1, 0.5, 0.25, 0.9999995, 0.9999996, 1.0000004, 1.0000006, 1.5, 2, 3.25, 7,
              1e-7, 4e-7, 6e-7, nan, inf, 10 ** 9]

    def seeded_state_list(rng, tame):
        n = rng.randrange(1, 7)
        nodes = []
        for s in range(n):
            kind = rng.choice([P1, P2, P2, PR])
            k = rng.randrange(0 if rng.random() < 0.15 else 1, 5)
            if kind == PR:
                ps = split_probabilities(rng, k) if k else []
                nxt = [(p, rng.randrange(0, n)) for p in ps]
                cls = tad.ProbabilisticNode
            else:
                nxt = [(rng.choice(ACTIONS[:4]), rng.randrange(0, n)) for _ in range(k)]
                cls = tad.PlayerOne if kind == P1 else tad.PlayerTwo
            node = cls(player=kind, idx=s, reward=rng.choice([0, 1, 2, 2.5, 10]),
                       next_states=nxt, num_states=n, is_final_node=rng.random() < 0.25)
            nodes.append(node)
        pool = VALUES[:12] if tame else VALUES
        for node in nodes:
            if rng.random() < 0.8:
                node.reach_probability = rng.choice(pool if rng.random() < 0.7 else [0, 1, 0.5])
            if rng.random() < 0.8:
                node.expected_rewards = rng.choice(pool)
            if rng.random() < 0.8:
                node.expected_rewards_min_reach = rng.choice(pool)
            if rng.random() < 0.8:
                node.expected_reach_min_rewards = rng.choice(pool)
        return nodes

    def snapshot(nodes):
        return [(n.idx, n.next_states, n.reach_probability, n.expected_rewards,
                 n.expected_rewards_min_reach, n.expected_reach_min_rewards) for n in nodes]

    for i in range(900):
        nodes = seeded_state_list(rng, tame=(i % 3 == 0))
        for node in nodes:
            emit(f"D{i}/step/{node.idx}", guarded(lambda: node.value_iteration_rewards(nodes)))
            if isinstance(node, tad.PlayerTwo):
                choices = [
                    [],
                    [a for a, _ in node.next_states],
                    [a for a, _ in node.next_states][:1],
                    [a for a, _ in node.next_states][-1:],
                    ["zz"],
                    rng.sample(ACTIONS[:4], rng.randrange(0, 4)),
                    tuple(a for a, _ in node.next_states),
                ]
                for j, strategies in enumerate(choices):
                    emit(f"D{i}/minreach/{node.idx}/{j}",
                         guarded(lambda: node._expected_rewards_min_reach(nodes, strategies)))
                emit(f"D{i}/worst/{node.idx}",
                     guarded(lambda: node.get_worst_strategies_reachability(nodes, 6)))
        emit(f"D{i}/after-steps", repr(snapshot(nodes)))
        if i % 2 == 0:
            threshold = rng.choice([10 ** (-6), 10 ** (-6), 1e-3, 2, 1])
            root.setLevel(logging.DEBUG if i % 4 == 0 else logging.WARNING)
            digest.reset()

            def run():
                solver = tad.Solver(nodes, threshold=threshold)
                return solver.value_iteration_total_rewards()
            emit(f"D{i}/vi", guarded(run))
            root.setLevel(logging.WARNING)
            emit(f"D{i}/vi/log", f"{digest.count} {digest.hash.hexdigest()}")
            emit(f"D{i}/after-vi", repr(snapshot(nodes)))
            emit(f"D{i}/strategies", guarded(lambda: tad.Solver(nodes)._get_total_rewards_strategies()))

    # constructor seeding
    for i, (cls, kind) in enumerate([(tad.PlayerOne, P1), (tad.PlayerTwo, P2), (tad.ProbabilisticNode, PR)]):
        for final in (True, False, 1, 0, "yes", None):
            for reward in (0, 3, 2.5):
                nxt = [(1, 0)] if kind == PR else [("a", 0)]
                node = cls(player=kind, idx=0, reward=reward, next_states=nxt, num_states=1, is_final_node=final)
                emit(f"D-init/{i}/{final!r}/{reward}", repr(snapshot([node])) + repr(node.is_final_node))

    # ---- E: driver and report --------------------------------------------------- #
    rng = random.Random(480048)
    counter["cap"] = 5 * ITERATION_CAP      # the cap is per call and a dictionary holds several games
    for i in range(60):
        games = {}
        for j in range(rng.randrange(1, 5)):
            pick = rng.random()
            if pick < 0.7:
                games[f"g{j}"] = stopping_game(rng)
            elif pick < 0.85:
                games[f"g{j}"] = copy.deepcopy(rng.choice(malformed[1:45]))
            else:
                g = wild_game(rng)
                games[f"w{j}"] = g
        clock["t"] = 0.0
        root.setLevel(logging.INFO if i % 2 else logging.WARNING)
        digest.reset()
        holder = {}

        def run():
            holder["res"] = conditionalrewards.run_games(games)
            return holder["res"]
        emit(f"E{i}/run", guarded(run))
        root.setLevel(logging.WARNING)
        emit(f"E{i}/log", f"{digest.count} {digest.hash.hexdigest()}")
        if "res" in holder:
            emit(f"E{i}/save", guarded(lambda: conditionalrewards.save_results_to_file(holder["res"], f"dir/rep{i}.py")))
            with open(os.path.join("outputs", f"rep{i}.txt"), "rb") as fh:
                data = fh.read()
            emit(f"E{i}/file", f"{len(data)} {hashlib.sha256(data).hexdigest()} {data[-300:]!r}")

    counter["cap"] = 200000
    for name in ["example_17_08", "paper_games", "example_games", "manual_1_game_a", "manual_arrow_bottom",
                 "robot_1_w2_l1_r6_rb10_lb5_tb10_lt0", "robot_1_w1_l2_r6_rb10_lb5_tb10_lt0",
                 "robot_1_w2_l2_r6_rb10_lb5_tb10_lt0", "robot_999132423_w3_l3_r6_rb1_lb2_tb10_lt30"]:
        path = os.path.join(tree, "inputs", name + ".py")
        if not os.path.exists(path):
            emit(f"E-file/{name}", "missing")
            continue
        clock["t"] = 0.0
        holder = {}

        def run():
            holder["res"] = conditionalrewards.run_games(conditionalrewards.read_dict_from_file(path))
            return holder["res"]
        emit(f"E-file/{name}/run", guarded(run))
        if "res" in holder:
            conditionalrewards.save_results_to_file(holder["res"], path)
            with open(os.path.join("outputs", name + ".txt"), "rb") as fh:
                data = fh.read()
            emit(f"E-file/{name}/file", f"{len(data)} {hashlib.sha256(data).hexdigest()}")

    out.flush()
    import shutil
    os.chdir("/")
    shutil.rmtree(workdir, ignore_errors=True)


# --------------------------------------------------------------------------- #
# driver
# --------------------------------------------------------------------------- #

def run_tree(tree):
    env = dict(os.environ)
    env["PYTHONHASHSEED"] = "0"
    env["PYTHONDONTWRITEBYTECODE"] = "1"
    env.pop("PYTHONPATH", None)
    proc = subprocess.run([sys.executable, os.path.abspath(__file__), "--worker", tree],
                          stdout=subprocess.PIPE, stderr=subprocess.PIPE, env=env, timeout=110)
    return proc.returncode, proc.stdout.decode("utf-8", "replace").splitlines(), proc.stderr.decode("utf-8", "replace")


def main():
    if len(sys.argv) == 3 and sys.argv[1] == "--worker":
        worker(sys.argv[2])
        return 0
    if len(sys.argv) != 3:
        print(__doc__)
        return 2
    from concurrent.futures import ThreadPoolExecutor
    with ThreadPoolExecutor(2) as pool:
        fa = pool.submit(run_tree, sys.argv[1])
        fb = pool.submit(run_tree, sys.argv[2])
        (rc_a, a, err_a), (rc_b, b, err_b) = fa.result(), fb.result()
    if rc_a != 0:
        print("DIFF: worker for clean tree failed:\n" + err_a[-2000:])
        return 1
    if rc_b != 0:
        print("DIFF: worker for patched tree failed:\n" + err_b[-2000:])
        return 1
    for idx, (la, lb) in enumerate(zip(a, b)):
        if la != lb:
            print("DIFF at line", idx)
            print("  clean  :", la[:1500])
            print("  patched:", lb[:1500])
            return 1
    if len(a) != len(b):
        print(f"DIFF: number of observations differs ({len(a)} vs {len(b)})")
        return 1
    if err_a != err_b:
        print("DIFF: stderr differs")
        print("  clean  :", err_a[:800])
        print("  patched:", err_b[:800])
        return 1
    caps = sum(1 for line in a if line.endswith("\tCAP"))
    oks = sum(1 for line in a if "\tok " in line)
    excs = sum(1 for line in a if "\texc " in line)
    print(f"SAME ({len(a)} observations: {oks} ok, {excs} exceptions, {caps} capped)")
    return 0


if __name__ == "__main__":
    sys.exit(main())
