#!/usr/bin/env python
"""
Equivalence test for property C02 (reported expected rewards are the values
of the conditioned game).

usage: python equiv_test.py <path-to-patched-root> <path-to-clean-root>

The two trees are loaded in separate subprocesses (same module names).  Each
worker solves the same deterministic collection of inputs and pickles
everything observable; the parent compares the two pickles *exactly*
(values and types, bit for bit) and additionally checks the patched tree's
rewards against an independent computation of the conditioned game's max-min
value.  Prints PASS / FAIL, exit code 0 / 1.
"""
import copy
import glob
import os
import pickle
import random
import subprocess
import sys
import tempfile

P1, P2, PR = "Player 1", "Player 2", "Probabilistic"
N_RANDOM = 700
N_ODD = 120


# --------------------------------------------------------------------------
# deterministic input collection (independent of the tree under test)
# --------------------------------------------------------------------------
def gen_game(rng, odd=False):
    """A random well-formed stopping game.

    live states may go anywhere, dead-region states only to the dead region
    and to sinks (so they get reachability 0), finals and sinks are absorbing
    with reward 0.  Player states only move to probabilistic states, absorbing
    states or player states of higher rank, every probabilistic state leaks to
    an absorbing state: every play is absorbed with probability 1.
    """
    n_live = rng.randint(1, 9)
    n_final = rng.randint(1, 3)
    n_sink = rng.randint(0, 2)
    n_dead = rng.randint(0, 3) if n_sink else 0
    kinds = (["L"] * n_live) + (["D"] * n_dead) + (["F"] * n_final) + (["S"] * n_sink)
    n = len(kinds)
    players = [rng.choice([P1, P2, PR, PR]) for _ in range(n)]
    live = [i for i in range(n) if kinds[i] == "L"]
    dead = [i for i in range(n) if kinds[i] == "D"]
    fin = [i for i in range(n) if kinds[i] == "F"]
    sink = [i for i in range(n) if kinds[i] == "S"]
    trans = [None] * n
    reward_pool = rng.choice([[0, 0, 1, 2, 3, 5], [1, 1, 1, 2], [0, 0.5, 1.25, 3, 7.75], [0, 0, 0, 4]])
    rewards = [0] * n
    for i in range(n):
        if kinds[i] in "FS":
            if players[i] == PR:
                trans[i] = [(rng.choice([1, 1.0]), i)]
            else:
                trans[i] = [("stay", i)]
            continue
        rewards[i] = rng.choice(reward_pool)
        region = (live + dead + fin + sink) if kinds[i] == "L" else (dead + sink)
        absorbing = [j for j in region if kinds[j] in "FS"]
        if players[i] == PR:
            k = rng.randint(0, 4)
            targets = [rng.choice(region) for _ in range(k)]
            if kinds[i] == "L" and dead + sink and rng.random() < 0.5:
                # several zero-probability successors
                targets += [rng.choice(dead + sink) for _ in range(rng.randint(1, 3))]
            targets.append(rng.choice(absorbing))          # the leak, kept at a sizeable probability
            if rng.random() < 0.7:
                weights = [rng.randint(1, 4) for _ in targets]
            else:
                weights = [rng.random() + 0.05 for _ in targets]
            if len(weights) >= 3 and dead + sink and rng.random() < 0.3:
                # a tiny probability (into a state that cannot reach a final state, so that
                # the conditioned game keeps a reasonable contraction) and a near-1 probability
                targets[0] = rng.choice(dead + sink)
                weights[0], weights[1], weights[-1] = 1e-9, 1000.0, 100.0
            total = sum(weights)
            probs = [w / total for w in weights]
            order = list(range(len(targets)))
            rng.shuffle(order)
            targets = [targets[k] for k in order]
            probs = [probs[k] for k in order]
            trans[i] = list(zip(probs, targets))
        else:
            cand = [j for j in region
                    if players[j] == PR or kinds[j] in "FS" or (j > i and kinds[j] in "LD")]
            k = rng.randint(1, 4)
            targets = [rng.choice(cand) for _ in range(k)]
            if kinds[i] == "L" and players[i] == P1 and dead + sink and rng.random() < 0.4:
                targets += [rng.choice(dead + sink) for _ in range(rng.randint(1, 2))]
            rng.shuffle(targets)
            if odd and rng.random() < 0.5:
                names = [rng.choice(["a", "b"]) for _ in targets]      # duplicated action names
            else:
                names = ["a%d" % t for t in range(len(targets))]
            trans[i] = list(zip(names, targets))
    # random numbering, the first live state stays the initial state
    perm = list(range(1, n))
    rng.shuffle(perm)
    new_of = {0: 0}
    for old, new in zip(range(1, n), perm):
        new_of[old] = new
    g_rewards = [None] * n
    g_players = [None] * n
    g_trans = [None] * n
    for old in range(n):
        new = new_of[old]
        g_rewards[new] = rewards[old]
        g_players[new] = players[old]
        g_trans[new] = [(x, new_of[t]) for x, t in trans[old]]
    finals = [new_of[f] for f in fin]
    rng.shuffle(finals)
    return {"rewards": g_rewards, "players": g_players,
            "transition_list": g_trans, "final_states": finals}


def boundary_games():
    games = {}
    # one state, final, initial
    games["single_final"] = dict(rewards=[0], players=[PR], transition_list=[[(1, 0)]], final_states=[0])
    # initial probabilistic, only successor final
    games["two"] = dict(rewards=[3, 0], players=[PR, P1],
                        transition_list=[[(1.0, 1)], [("s", 1)]], final_states=[1])
    # all successors of a reachable probabilistic state are dead (via Player 2)
    games["p2_into_dead"] = dict(
        rewards=[1, 2, 4, 0, 0], players=[P2, PR, PR, PR, PR],
        transition_list=[[("a", 1), ("b", 2)], [(0.5, 3), (0.5, 4)], [(0.5, 4), (0.5, 4)],
                         [(1, 3)], [(1, 4)]], final_states=[3])
    # initial state with reach probability 0
    games["unsolvable"] = dict(
        rewards=[1, 0, 0], players=[P1, PR, PR],
        transition_list=[[("a", 2)], [(1, 1)], [(1, 2)]], final_states=[1])
    # ties everywhere
    games["ties"] = dict(
        rewards=[0, 2, 2, 2, 0, 0], players=[P1, P2, P2, PR, PR, PR],
        transition_list=[[("a", 1), ("b", 2), ("c", 3)], [("x", 3), ("y", 4)], [("y", 4), ("x", 3)],
                         [(0.5, 4), (0.5, 5)], [(1, 4)], [(1, 5)]], final_states=[4])
    # many zero-probability successors, renormalisation
    games["many_dead"] = dict(
        rewards=[1, 5, 0, 0, 7], players=[PR, PR, PR, PR, PR],
        transition_list=[[(0.1, 3), (0.1, 3), (0.2, 1), (0.1, 2), (0.2, 4), (0.3, 3)],
                         [(0.25, 2), (0.25, 0), (0.5, 3)], [(1, 2)], [(1, 3)], [(0.5, 3), (0.5, 3)]],
        final_states=[2])
    # malformed ones: both trees must fail identically
    games["neg_reward"] = dict(rewards=[-1, 0], players=[PR, PR],
                               transition_list=[[(1, 1)], [(1, 1)]], final_states=[1])
    games["missing_transitions"] = dict(rewards=[0, 0], players=[PR, PR],
                                        transition_list=[[(1, 1)], []], final_states=[1])
    games["bad_player"] = dict(rewards=[0, 0], players=[PR, "Nobody"],
                               transition_list=[[(1, 1)], [(1, 1)]], final_states=[1])
    return games


def all_named_games():
    rng = random.Random(20261004)
    games = {}
    for k in range(N_RANDOM):
        games["rnd%04d" % k] = gen_game(rng)
    rng = random.Random(777)
    for k in range(N_ODD):
        games["odd%04d" % k] = gen_game(rng, odd=True)
    games.update(boundary_games())
    return games


BOARD_PARAMS = [
    # seed, length, width, p_loose, max_reward, force_down, tile, robot, light
    (1, 1, 1, 0.3, 6, False, 0.1, 0.1, 0.1),
    (2, 1, 1, 0.3, 6, True, 0.1, 0.1, 0.1),
    (3, 3, 1, 0.5, 3, False, 0.1, 0.05, 0.1),
    (4, 1, 3, 0.5, 3, True, 0.2, 0.1, 0.3),
    (5, 2, 2, 0.3, 6, False, 1e-6, 1e-6, 1e-6),
    (6, 2, 2, 0.9, 6, True, 0.999, 0.999, 0.999),
    (7, 3, 3, 0.3, 6, False, 0.1, 0.1, 0.1),
    (8, 3, 3, 0.3, 6, True, 0.1, 0.1, 0.1),
    (9, 3, 4, 0.6, 2, True, 0.4, 0.2, 0.05),
    (10, 4, 3, 0.01, 1, False, 0.5, 0.5, 0.5),
    (11, 4, 4, 0.99, 6, False, 0.1, 0.1, 0.1),
    (12, 5, 2, 0.3, 6, True, 0.1, 0.3, 0.1),
]

# the w40 boards take minutes; on the other three HEAD itself does not finish within minutes
SKIP_INPUTS = ("_w40_", "robot_41_w10_", "robot_40_w20_")


# --------------------------------------------------------------------------
# worker: runs inside one tree
# --------------------------------------------------------------------------
def strip_time(results):
    out = {}
    for name, res in results.items():
        res = dict(res)
        res.pop("total_time")
        out[name] = res
    return out


def worker(root, clean_root, out_path):
    sys.path.insert(0, root)
    os.chdir(root)
    import signal
    import logging
    import tad
    import conditionalrewards
    import roberta_generator
    assert os.path.realpath(tad.__file__).startswith(os.path.realpath(root)), tad.__file__

    class Timeout(Exception):
        pass

    def on_alarm(signum, frame):
        raise Timeout()
    signal.signal(signal.SIGALRM, on_alarm)

    record = {}
    logging.getLogger().addHandler(logging.NullHandler())    # keep the driver's error lines off stderr
    import time
    t0 = time.time()

    def progress(what):
        sys.stderr.write("[%s] %s done at %.1fs\n" % (os.path.basename(root), what, time.time() - t0))

    # 1. StochasticGame.solve on every named game, both pruning modes
    games = all_named_games()
    solved = {}
    for name, game in games.items():
        for prune in (True, False):
            g = copy.deepcopy(game)
            before = copy.deepcopy(g)
            signal.alarm(6)
            try:
                res = tad.StochasticGame(prune_states=prune, **g).solve()
                res = ("OK", res)
            except Timeout:
                res = ("TIMEOUT",)
            except Exception as exc:     # noqa
                res = ("ERR", type(exc).__name__, str(exc))
            finally:
                signal.alarm(0)
            solved[(name, prune)] = (res, g == before)
    record["solve"] = solved
    progress("solve")

    # 2. the driver on a dictionary of games (the names that can be solved quickly)
    quick = {name: copy.deepcopy(game) for name, game in games.items()
             if solved[(name, True)][0][0] != "TIMEOUT" and solved[(name, False)][0][0] != "TIMEOUT"}
    record["run_games"] = strip_time(conditionalrewards.run_games(quick))
    progress("run_games")

    # 3. the repository's example inputs through the driver and the report writer
    tmp = tempfile.mkdtemp(prefix="c02_")
    os.makedirs(os.path.join(tmp, "outputs"))
    os.makedirs(os.path.join(tmp, "inputs"))
    reports = {}
    inputs = {}
    for path in sorted(glob.glob(os.path.join(clean_root, "inputs", "*.py"))):
        base = os.path.basename(path)
        if any(s in base for s in SKIP_INPUTS):
            continue
        games_dict = conditionalrewards.read_dict_from_file(path)
        results = conditionalrewards.run_games(games_dict)
        inputs[base] = strip_time(results)
        os.chdir(tmp)
        conditionalrewards.save_results_to_file(results, path)
        os.chdir(root)
        with open(os.path.join(tmp, "outputs", base.split(".")[0] + ".txt")) as fh:
            reports[base] = [line for line in fh if not line.startswith("Total time")]
    record["inputs"] = inputs
    progress("inputs")
    record["reports"] = reports

    # 4. generator boards (boundary parameter sets), solved by the driver
    boards = {}
    for (seed, length, width, p_loose, max_reward, force_down, tile, robot, light) in BOARD_PARAMS:
        moves, rewards, loose = roberta_generator.gen_rnd_board(
            seed, length, width, p_loose, max_reward, force_down)
        fname = os.path.join(tmp, "inputs", "board_%d.py" % seed)
        roberta_generator.write_robots(fname, length, width, moves, rewards, loose, tile, robot, light)
        with open(fname) as fh:
            text = fh.read()
        games_dict = conditionalrewards.read_dict_from_file(fname)
        boards[seed] = (text, strip_time(conditionalrewards.run_games(games_dict)))
    record["boards"] = boards
    progress("boards")

    # 5. solver / node level: custom thresholds, repeated iteration, direct Bellman steps,
    #    state changed between two iterations (no stale information may survive)
    low = {}
    rng = random.Random(4242)
    names = [n for n in games if n.startswith("rnd")][:150] + [n for n in games if n.startswith("odd")][:40]
    for name in names:
        game = games[name]
        for threshold in (10 ** -6, 10 ** -3, 10 ** -9, 0.5, 2):
            for prune in (True, False):
                key = (name, threshold, prune)
                signal.alarm(6)
                try:
                    sg = tad.StochasticGame(prune_states=prune, **copy.deepcopy(game))
                    sg.check_game()
                    states = sg.init_states()
                    solver = tad.Solver(threshold=threshold, state_list=states)
                    strategies, n_reach = solver.solve_reachability(
                        sg.transition_list, sg.final_states, prune)
                    solver.prune_reachability(strategies)
                    if prune:
                        solver.prune_stochastich_game()
                    steps_before = [s.value_iteration_rewards(states) for s in states]
                    first = solver.solve_total_rewards()
                    snap1 = [(s.expected_rewards, s.expected_rewards_min_reach,
                              s.expected_reach_min_rewards, list(s.next_states)) for s in states]
                    steps_after = [s.value_iteration_rewards(states) for s in states]
                    second = solver.solve_total_rewards()
                    snap2 = [(s.expected_rewards, s.expected_rewards_min_reach,
                              s.expected_reach_min_rewards) for s in states]
                    # disturb the state and iterate again
                    victim = states[rng.randrange(len(states))]
                    victim.reach_probability = rng.choice([0, 0.5, 1])
                    victim.expected_rewards = victim.expected_rewards + 1
                    other = states[rng.randrange(len(states))]
                    if len(other.next_states) > 1 and other.player != PR:
                        # (a player losing an option keeps the game stopping)
                        other.next_states = other.next_states[:-1]
                    third = solver.value_iteration_total_rewards()
                    snap3 = [(s.expected_rewards, s.expected_rewards_min_reach,
                              s.expected_reach_min_rewards) for s in states]
                    fourth = solver._get_total_rewards_strategies()
                    # nothing precomputed during an iteration may survive it: change every reach
                    # probability and take direct Bellman steps
                    old_probabilities = [s.reach_probability for s in states]
                    for s, p in zip(states, reversed(old_probabilities)):
                        s.reach_probability = p
                    steps_shuffled = [s.value_iteration_rewards(states) for s in states]
                    # ... also when the iteration dies half way
                    broken = states[rng.randrange(len(states))]
                    saved = broken.next_states
                    if saved:
                        broken.next_states = [(saved[0][0], len(states) + 3)] + saved[1:]
                        try:
                            solver.value_iteration_total_rewards()
                            died = "no"
                        except IndexError as exc:
                            died = "IndexError"
                        broken.next_states = saved
                    else:
                        died = "skipped"
                    for s in states:
                        s.reach_probability = 1 - s.reach_probability if s.reach_probability <= 1 else 0
                    steps_after_crash = [s.value_iteration_rewards(states) for s in states]
                    fifth = solver.value_iteration_total_rewards()
                    snap5 = [(s.expected_rewards, s.expected_rewards_min_reach,
                              s.expected_reach_min_rewards) for s in states]
                    low[key] = ("OK", strategies, n_reach, steps_before, first, snap1, steps_after,
                                second, snap2, third, snap3, fourth, steps_shuffled, died,
                                steps_after_crash, fifth, snap5)
                except Timeout:
                    low[key] = ("TIMEOUT",)
                except Exception as exc:     # noqa
                    low[key] = ("ERR", type(exc).__name__, str(exc))
                finally:
                    signal.alarm(0)
    record["low"] = low
    progress("low")

    # 6. debug logging on (the iteration has a separate logging branch)
    logging.getLogger().setLevel(logging.DEBUG)

    class Collect(logging.Handler):
        def __init__(self):
            super().__init__()
            self.lines = []

        def emit(self, rec):
            self.lines.append(rec.getMessage())
    collector = Collect()
    logging.getLogger().addHandler(collector)
    dbg = {}
    dbg_lines = {}
    for name in names[:60]:
        for prune in (True, False):
            collector.lines = dbg_lines[(name, prune)] = []
            try:
                dbg[(name, prune)] = ("OK", tad.StochasticGame(
                    prune_states=prune, **copy.deepcopy(games[name])).solve())
            except Exception as exc:     # noqa
                dbg[(name, prune)] = ("ERR", type(exc).__name__, str(exc))
    record["debug"] = dbg
    record["debug_log"] = dbg_lines      # the complete debug trace of the solver, line by line
    progress("debug")

    with open(out_path, "wb") as fh:
        pickle.dump(record, fh)


# --------------------------------------------------------------------------
# parent: exact comparison + independent reference for the property
# --------------------------------------------------------------------------
def exact(a, b):
    """Equality of values *and* types, recursively (1 != 1.0 here)."""
    if type(a) is not type(b):
        return False
    if isinstance(a, (list, tuple)):
        return len(a) == len(b) and all(exact(x, y) for x, y in zip(a, b))
    if isinstance(a, dict):
        return list(a.keys()) == list(b.keys()) and all(exact(a[k], b[k]) for k in a)
    if isinstance(a, float):
        return repr(a) == repr(b)
    return a == b


def first_difference(a, b, path=""):
    if type(a) is not type(b):
        return "%s: type %s vs %s (%r vs %r)" % (path, type(a).__name__, type(b).__name__, a, b)
    if isinstance(a, (list, tuple)):
        if len(a) != len(b):
            return "%s: length %d vs %d" % (path, len(a), len(b))
        for i, (x, y) in enumerate(zip(a, b)):
            d = first_difference(x, y, "%s[%d]" % (path, i))
            if d:
                return d
        return None
    if isinstance(a, dict):
        if list(a.keys()) != list(b.keys()):
            return "%s: keys differ" % path
        for k in a:
            d = first_difference(a[k], b[k], "%s[%r]" % (path, k))
            if d:
                return d
        return None
    if not exact(a, b):
        return "%s: %r vs %r" % (path, a, b)
    return None


def conditioned_game(game, strategies, probabilities, prune):
    n = len(game["players"])
    trans = []
    for i in range(n):
        t = list(game["transition_list"][i])
        player = game["players"][i]
        if player == P1:
            t = [(a, j) for a, j in t if a in strategies[i]]
            if prune:
                t = [(a, j) for a, j in t if probabilities[j] != 0]
        elif player == PR and prune:
            kept = [(p, j) for p, j in t if probabilities[j] != 0]
            if len(kept) != len(t):
                total = sum(p for p, _ in kept)
                kept = [(p / total, j) for p, j in kept]
            t = kept
        trans.append(t)
    return trans


def reference_values(game, trans, max_sweeps=200000):
    """Jacobi iteration from 0 to a tolerance far below the solver's; None if it does not settle."""
    n = len(trans)
    rewards = game["rewards"]
    players = game["players"]
    v = [0.0] * n
    for _ in range(max_sweeps):
        new = []
        for i in range(n):
            if not trans[i]:
                new.append(0.0)
            elif players[i] == P1:
                new.append(rewards[i] + max(v[j] for _, j in trans[i]))
            elif players[i] == P2:
                new.append(rewards[i] + min(v[j] for _, j in trans[i]))
            else:
                new.append(rewards[i] + sum(p * v[j] for p, j in trans[i]))
        delta = max(abs(x - y) for x, y in zip(new, v))
        v = new
        if delta <= 1e-13 * (1 + max(v)):
            return v
    return None


def reachable_from_initial(trans):
    seen = {0}
    stack = [0]
    while stack:
        i = stack.pop()
        for _, j in trans[i]:
            if j not in seen:
                seen.add(j)
                stack.append(j)
    return seen


def check_property(record):
    games = all_named_games()
    checked = skipped = 0
    worst = 0.0
    for (name, prune), (res, _unchanged) in record["solve"].items():
        if not name.startswith("rnd") and name not in ("two", "ties", "many_dead", "p2_into_dead", "single_final"):
            continue
        if res[0] != "OK":
            continue
        game = games[name]
        _final, strategies, rewards, probabilities = res[1][:4]
        trans = conditioned_game(game, strategies, probabilities, prune)
        ref = reference_values(game, trans)
        if ref is None:
            skipped += 1
            continue
        states = reachable_from_initial(trans) if prune else range(len(trans))
        for i in states:
            err = abs(ref[i] - rewards[i])
            worst = max(worst, err / (1 + abs(ref[i])))
            if err > 1e-3 * (1 + abs(ref[i])):
                return "property violated by the patched tree: game %s prune=%s state %d: reported %r, " \
                       "conditioned game value %r" % (name, prune, i, rewards[i], ref[i])
        checked += 1
    print("reference check: %d solves agree with the independently computed conditioned-game values "
          "(worst relative error %.2e), %d skipped" % (checked, worst, skipped))
    if checked < 800:
        return "too few games were checked against the reference (%d)" % checked
    return None


def main():
    if len(sys.argv) == 5 and sys.argv[1] == "--worker":
        worker(sys.argv[2], sys.argv[3], sys.argv[4])
        return 0
    if len(sys.argv) != 3:
        print(__doc__)
        return 2
    patched, clean = (os.path.abspath(p) for p in sys.argv[1:3])
    tmp = tempfile.mkdtemp(prefix="c02_eq_")
    records = []
    procs = []
    for tag, root in (("patched", patched), ("clean", clean)):
        out = os.path.join(tmp, tag + ".pickle")
        env = dict(os.environ, PYTHONDONTWRITEBYTECODE="1", PYTHONHASHSEED="0")
        env.pop("PYTHONPATH", None)
        procs.append((tag, out, subprocess.Popen(
            [sys.executable, os.path.abspath(__file__), "--worker", root, clean, out],
            env=env, stdout=subprocess.DEVNULL, stderr=subprocess.PIPE)))
    for tag, out, proc in procs:
        _, err = proc.communicate()
        if proc.returncode != 0:
            print(err.decode()[-3000:])
            print("FAIL (worker for the %s tree crashed)" % tag)
            return 1
        with open(out, "rb") as fh:
            records.append(pickle.load(fh))
    rec_patched, rec_clean = records

    failures = []
    for section in rec_clean:
        diff = first_difference(rec_patched[section], rec_clean[section], section)
        n = len(rec_clean[section])
        if diff:
            failures.append(diff)
            print("section %-10s: DIFFERENT  %s" % (section, diff))
        else:
            print("section %-10s: identical (%d entries)" % (section, n))
    for key, (res, unchanged) in rec_patched["solve"].items():
        if not unchanged:
            failures.append("input description of %r was modified by solve()" % (key,))
    ok = sum(1 for r, _ in rec_patched["solve"].values() if r[0] == "OK")
    err = sum(1 for r, _ in rec_patched["solve"].values() if r[0] == "ERR")
    tmo = sum(1 for r, _ in rec_patched["solve"].values() if r[0] == "TIMEOUT")
    print("solve(): %d solved, %d rejected, %d timed out" % (ok, err, tmo))
    low_ok = sum(1 for r in rec_patched["low"].values() if r[0] == "OK")
    print("solver-level runs: %d of %d completed" % (low_ok, len(rec_patched["low"])))
    for section in ("inputs", "boards"):
        runs = [res for entry in rec_patched[section].values()
                for res in (entry[1] if section == "boards" else entry).values()]
        print("%s: %d driver runs, %d solved" % (
            section, len(runs), sum(1 for r in runs if r["msg"] == "Game solved")))
    problem = check_property(rec_patched)
    if problem:
        failures.append(problem)
        print(problem)
    if failures:
        print("FAIL")
        return 1
    print("PASS")
    return 0


if __name__ == "__main__":
    sys.exit(main())
