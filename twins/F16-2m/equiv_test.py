#!/usr/bin/env python
"""Behavioural equivalence test for property C16 (the saved report states exactly
what was computed; the input file is read into the games it denotes).

usage: python equiv_test.py <path-to-patched-root> <path-to-clean-root>

Both trees are exercised in separate subprocesses (own interpreter, own scratch
working directory with inputs/ and outputs/).  Every case produces a string
(repr of results, bytes of report files, exception type + message, captured log
records, recorded logging.basicConfig calls ...) and the two resulting tables are
compared key by key.  Cases in which either side ran out of its time budget are
skipped (and counted).  Prints PASS and exits 0 when nothing differs.
"""
import contextlib
import copy
import hashlib
import io
import json
import logging
import os
import random
import shutil
import signal
import subprocess
import sys
import tempfile
import types

HERE = os.path.abspath(__file__)
SOLVE_BUDGET = 0.5      # seconds per run_games()/main() call
N_RANDOM = 330          # random game dictionaries
SMALL_INPUTS = [
    "example_17_08", "example_games", "paper_games", "manual_1_game_a",
    "manual_arrow_bottom", "robot_1_w1_l2_r6_rb10_lb5_tb10_lt0",
    "robot_1_w2_l1_r6_rb10_lb5_tb10_lt0", "robot_1_w2_l2_r6_rb10_lb5_tb10_lt0",
    "robot_999132423_w3_l3_r6_rb1_lb2_tb10_lt30",
]


# --------------------------------------------------------------------------- #
# helpers used inside the worker
# --------------------------------------------------------------------------- #
class _Timeout(BaseException):
    pass


def _alarm(signum, frame):
    raise _Timeout()


@contextlib.contextmanager
def budget(seconds=SOLVE_BUDGET):
    signal.signal(signal.SIGALRM, _alarm)
    signal.setitimer(signal.ITIMER_REAL, seconds)
    try:
        yield
    finally:
        signal.setitimer(signal.ITIMER_REAL, 0)


def exc_text(e):
    return f"EXC {type(e).__module__}.{type(e).__name__}: {e}"


class Capture(logging.Handler):
    def __init__(self):
        super().__init__(level=logging.NOTSET)
        self.records = []

    def emit(self, record):
        self.records.append(f"{record.levelno}|{record.name}|{record.getMessage()}")


def digest(lines):
    text = "\n".join(lines)
    return f"{len(lines)} lines sha1={hashlib.sha1(text.encode('utf8', 'replace')).hexdigest()}"


class FakeClock:
    """Deterministic time.time(): advances by an irregular amount per call."""

    def __init__(self):
        self.calls = 0
        self.now = 1_700_000_000.125

    def __call__(self):
        self.calls += 1
        self.now += 0.001 * ((self.calls * 7919) % 13 + 1) + 1e-7 * self.calls
        return self.now


@contextlib.contextmanager
def patched_time():
    import time as real_time
    clock = FakeClock()
    original = real_time.time
    real_time.time = clock
    try:
        yield clock
    finally:
        real_time.time = original


@contextlib.contextmanager
def logging_sandbox(preinstall_level=None):
    """Root logger without handlers (as in a fresh interpreter); basicConfig is
    replaced by a recorder that installs a capturing handler the way the real one
    would install a stream handler."""
    root = logging.getLogger()
    saved = (root.handlers[:], root.level, logging.basicConfig)
    root.handlers[:] = []
    root.setLevel(logging.WARNING)
    capture = Capture()
    calls = []

    def fake_basic_config(**kwargs):
        calls.append(repr(sorted(kwargs.items())))
        if not root.handlers:
            root.addHandler(capture)
            if "level" in kwargs:
                root.setLevel(kwargs["level"])

    logging.basicConfig = fake_basic_config
    if preinstall_level is not None:
        root.addHandler(capture)
        root.setLevel(preinstall_level)
    try:
        yield capture, calls
    finally:
        root.handlers[:], level, logging.basicConfig = saved[0], saved[1], saved[2]
        root.setLevel(level)


def outputs_snapshot(directory="outputs"):
    if not os.path.isdir(directory):
        return "<no outputs dir>"
    snap = []
    for fn in sorted(os.listdir(directory)):
        with open(os.path.join(directory, fn), "rb") as fh:
            snap.append((fn, fh.read().decode("utf8", "backslashreplace")))
    return repr(snap)


def clear_outputs(directory="outputs"):
    shutil.rmtree(directory, ignore_errors=True)
    os.mkdir(directory)


# --------------------------------------------------------------------------- #
# random games
# --------------------------------------------------------------------------- #
P1, P2, PR = "Player 1", "Player 2", "Probabilistic"
PROB_SPLITS = [
    [1], [1.0], [0.5, 0.5], [0.25, 0.75], [0.1, 0.9], [1 / 3, 2 / 3], [0.2, 0.3, 0.5],
    [0.01, 0.99], [0.125, 0.8, 0.075], [1e-9, 1 - 1e-9], [0.999999, 0.000001],
]
ACTIONS = ["a", "b", "c", "alfa", "beta", " ", "gamma_1", "x"]


def random_game(rng):
    """Mostly stopping games: absorbing tail states carry no reward, player moves go
    forward most of the time, probabilistic states may loop back with probability < 1."""
    n = rng.choice([1, 2, 3, 3, 4, 4, 5, 5, 6, 7, 8, 10])
    n_abs = rng.randint(1, max(1, min(3, n)))          # absorbing tail states
    wild = rng.random() < 0.06                         # anything goes (may not converge)
    players, transitions = [], []
    for s in range(n):
        if s >= n - n_abs:
            players.append(PR)
            transitions.append([(1, s)])
            continue
        kind = rng.choice([P1, P2, PR, PR])
        players.append(kind)
        if kind == PR:
            split = rng.choice(PROB_SPLITS)
            trans = []
            for j, p in enumerate(split):
                if j == 0 and not wild:
                    tgt = rng.randint(s + 1, n - 1)
                elif rng.random() < 0.6:
                    tgt = rng.randint(min(s + 1, n - 1), n - 1)
                else:
                    tgt = rng.randint(0, n - 1)
                trans.append((p, tgt))
            rng.shuffle(trans)
            transitions.append(trans)
        else:
            k = rng.randint(1, 3)
            names = rng.sample(ACTIONS, k) if rng.random() < 0.9 else [rng.choice(ACTIONS)] * k
            transitions.append([(a, rng.randint(0, n - 1) if wild else rng.randint(s + 1, n - 1))
                                for a in names])
    mode = rng.random()
    if mode < 0.4:
        rewards = [rng.randint(0, 5) for _ in range(n)]
    elif mode < 0.6:
        rewards = [rng.choice([0, 1]) for _ in range(n)]         # many ties
    elif mode < 0.8:
        rewards = [rng.choice([0, 0.5, 5 / 3, 11 / 6, 2, 100, 1e-3]) for _ in range(n)]
    else:
        rewards = [0] * n
    absorbing = list(range(n - n_abs, n))
    if not wild:
        for s in absorbing:
            rewards[s] = 0
    finals = rng.sample(absorbing, rng.randint(1, len(absorbing)))
    if rng.random() < 0.15:
        finals.append(rng.randint(0, n - 1))                      # a non-absorbing final
    if rng.random() < 0.1:
        finals = finals + finals[:1]                              # duplicate final
    return {"rewards": rewards, "players": players,
            "transition_list": transitions, "final_states": finals}


def malform(game, rng):
    g = copy.deepcopy(game)
    n = len(g["players"])
    choice = rng.randint(0, 17)
    if choice == 0:
        g["transition_list"][rng.randrange(n)] = None
    elif choice == 1:
        g["rewards"][rng.randrange(n)] = -1
    elif choice == 2:
        g["players"][rng.randrange(n)] = "Player 3"
    elif choice == 3:
        g["final_states"] = [n]
    elif choice == 4:
        g["final_states"] = []
    elif choice == 5:
        del g[rng.choice(["rewards", "players", "transition_list", "final_states"])]
    elif choice == 6:
        g["colour"] = "blue"
    elif choice == 7:
        g["transition_list"][rng.randrange(n)] = ((1, 0),)
    elif choice == 8:
        g["transition_list"][rng.randrange(n)] = [(1, 0, 0)]
    elif choice == 9:
        g["transition_list"][rng.randrange(n)] = [("a", n + 3)]
    elif choice == 10:
        g["rewards"] = g["rewards"][:-1]
    elif choice == 11:
        g["transition_list"] = g["transition_list"] + [[(1, 0)]]
    elif choice == 12:
        g["transition_list"][rng.randrange(n)] = []
    elif choice == 13:
        g["final_states"] = [-1]
    elif choice == 14:
        g["prune_states"] = "maybe"
    elif choice == 15:
        g["final_states"] = None
    elif choice == 16:
        g["rewards"] = None
    else:
        g["transition_list"][rng.randrange(n)] = [(1, "0")]
    return g


def random_games_dict(rng, idx):
    k = rng.choice([1, 1, 1, 2, 2, 3])
    games = {}
    for j in range(k):
        name = rng.choice(["game", "g", "robot_47_w5", "big_reward", "x1", "A_b_3_"]) + f"_{idx}_{j}"
        game = random_game(rng)
        if rng.random() < 0.22:
            game = malform(game, rng)
        games[name] = game
    return games


# --------------------------------------------------------------------------- #
# hand made result tables for save_results_to_file
# --------------------------------------------------------------------------- #
class Odd:
    """str(), repr() and format() all differ."""

    def __str__(self):
        return "odd-str"

    def __repr__(self):
        return "odd-repr"

    def __format__(self, spec):
        return f"odd-format[{spec}]"

    def __eq__(self, other):
        return "odd-eq"

    __hash__ = None


def entry(**over):
    base = {
        "n_states": 3, "n_transitions": 4, "n_iterations_reach": 5, "n_iterations_rew": 6,
        "reachability_strategies": [["a"], None, None], "final_strategies": [["a"], None, None],
        "total_time": 0.25, "msg": "Game solved", "rewards": [1.5, 0, 0],
        "rew_min_reach": [1.5, 0, 0], "probabilities": [0.5, 1, 0], "prob_min_rew": [0.5, 1, 0],
    }
    base.update(over)
    return base


def handmade_tables():
    rng = random.Random(5)
    long_vec = [rng.random() * 10 ** rng.randint(-12, 12) for _ in range(1500)]
    nan, inf = float("nan"), float("inf")
    tables = {
        "empty": {},
        "plain": {"g": entry(), "g_no_prune": entry(final_strategies=[["b"], None, None])},
        "unsolved": {"g": entry(reachability_strategies=None, final_strategies=None, rewards=None,
                                probabilities=None, n_iterations_reach=0, n_iterations_rew=0,
                                rew_min_reach=0, prob_min_rew=0,
                                msg="Error while solving the game: The game has no solution."),
                     "g_no_prune": entry(reachability_strategies=None, final_strategies=None,
                                         rewards=None, probabilities=None, msg="Game not solved")},
        "empty_lists": {"e": entry(reachability_strategies=[], final_strategies=[], rewards=[],
                                   probabilities=[], rew_min_reach=[], prob_min_rew=[], n_states=0,
                                   n_transitions=0)},
        "none_vs_empty": {"e": entry(reachability_strategies=None, final_strategies=[]),
                          "f": entry(reachability_strategies=[], final_strategies=None),
                          "g": entry(reachability_strategies=[None], final_strategies=[None])},
        "long": {"l": entry(rewards=long_vec, probabilities=long_vec[::-1],
                            rew_min_reach=[-x for x in long_vec], prob_min_rew=long_vec[:700])},
        "floats": {"f": entry(rewards=[nan, inf, -inf, -0.0, 1e-300, 1e300, 0.1 + 0.2, 1 / 3, 5e-324],
                              probabilities=[1, 1.0, True, 0.9999999999999999],
                              total_time=1e-7, rew_min_reach=nan, prob_min_rew=-0.0)},
        "format_chars": {"na{me}_%s_{0}": entry(msg="curly {msg} {0} {} %s %d %(x)s \\n {{}}"),
                         "line\nbreak": entry(msg="two\nlines\r\n", total_time="%s"),
                         "": entry(msg=""), "tab\t": entry(msg=None)},
        "tuples": {"t": entry(rewards=(1, 2), probabilities=(3,), rew_min_reach=(), prob_min_rew=((1,),),
                              msg=("a", "b"), n_states=(1, 2), total_time=(0.5,),
                              reachability_strategies=(1, 2), final_strategies=[1, 2]),
                   ("tuple", "name"): entry(), 7: entry(), None: entry(), (8,): entry()},
        "odd_objects":
                       {"o": entry(msg=Odd(), rewards=Odd(), total_time=Odd(), n_states=Odd(),
                                   n_transitions=Odd(), n_iterations_reach=Odd(), n_iterations_rew=Odd(),
                                   probabilities=Odd(), prob_min_rew=Odd(), rew_min_reach=Odd(),
                                   reachability_strategies=Odd(), final_strategies=Odd())},
        "nested": {"n": entry(rewards={"a": [1, {"b": None}]}, probabilities=[[0.5, [0.25]], []],
                              reachability_strategies=[["a", "b"], ["a"]],
                              final_strategies=[["a", "b"], ["a"]])},
        "bytes_unicode": {"ñandú_1": entry(msg="ok ✓   end", rewards=b"bytes"),
                          "x": entry(msg="\udcff surrogate")},
        "extra_keys": {"x": entry(extra=1, another=None)},
        "many": {f"game_{i}{'_no_prune' if i % 2 else ''}": entry(n_states=i, total_time=i / 7)
                 for i in range(40)},
    }
    keys = list(entry())
    for k in keys:                      # one table per missing key, second block broken
        broken = entry()
        del broken[k]
        tables[f"missing_{k}"] = {"fine": entry(), "broken": broken, "after": entry()}
    tables["first_broken"] = {"broken": {"msg": "only"}, "after": entry()}
    tables["value_none"] = {"fine": entry(), "none": None}
    tables["value_list"] = {"lst": [1, 2, 3]}
    tables["value_str"] = {"s": "abc"}
    return tables


FILE_NAMES = [
    "inputs/a.py", "a.py", "a", "x/y/z.tar.gz", "/abs/path/n_1.py", "./a.py", "../up/a_b_1.py",
    "inputs/.hidden.py", "dir/", "", "inputs\\win.py", "a..b", "name with space.py", "ñ_2.py",
    "inputs/robot_47_w5_l5_r6_rb10_lb10_tb10_lt30_force_down.py", "inputs//double.py",
    "inputs/v1.2_games.py", ".", "..", "a/b.c/d", "a/b.c/d.e.f", "sub/deeper.py/", "%s.py", "{x}.py",
]


# --------------------------------------------------------------------------- #
# the worker: runs every case against ONE tree
# --------------------------------------------------------------------------- #
def worker(root, out_path):
    root = os.path.abspath(root)
    scratch = tempfile.mkdtemp(prefix="c16_equiv_")
    shutil.copytree(os.path.join(root, "inputs"), os.path.join(scratch, "inputs"))
    os.mkdir(os.path.join(scratch, "outputs"))
    os.chdir(scratch)
    os.environ["COLUMNS"] = "100"
    sys.path.insert(0, root)
    import conditionalrewards as cr
    assert os.path.abspath(cr.__file__).startswith(root + os.sep), cr.__file__
    import tad
    assert os.path.abspath(tad.__file__).startswith(root + os.sep), tad.__file__

    R = {}

    # ---- S0: module surface -------------------------------------------------
    import inspect
    for fn in ("save_results_to_file", "read_dict_from_file", "run_games", "set_logger",
               "init_parser", "main"):
        R[f"S0/sig/{fn}"] = str(inspect.signature(getattr(cr, fn)))

    # ---- S1: parser ---------------------------------------------------------
    argvs = [
        [], ["-f", "x"], ["--file", "x", "-s"], ["-f", "x", "-l", "d"], ["-l"], ["-f"], ["-h"],
        ["--help"], ["-f", "a", "-f", "b"], ["--fil", "x"], ["--save", "-f", "x"], ["-sf", "x"],
        ["-fx"], ["-f=x"], ["x"], ["-f", "x", "extra"],
        ["-f", "x", "--log_level=dd", "--save_results"], ["-f", "x", "-ldd"],
        ["-s", "-s", "-f", "y"], ["-f", ""], ["--log", "i", "-f", "x"], ["-f", "x", "-l", ""],
        ["-f", "x", "-l"], ["-f", "x", "-s", "1"], ["--file=inputs/a b.py"], ["-f", "-s"],
        ["-f", "x", "--log-level", "i"], ["-f", "x", "-l", "INFO", "-l", "DEBUG"],
        ["--f", "x"], ["--s", "-f", "x"], ["--l", "i", "-f", "x"], ["-f", "x", "--", "-s"],
    ]
    for i, argv in enumerate(argvs):
        out, err = io.StringIO(), io.StringIO()
        with contextlib.redirect_stdout(out), contextlib.redirect_stderr(err):
            try:
                ns = cr.init_parser().parse_args(argv)
                res = "NS " + repr(sorted(vars(ns).items()))
            except SystemExit as e:
                res = f"EXIT {e.code!r}"
            except Exception as e:  # noqa
                res = exc_text(e)
        R[f"S1/parse/{i}:{argv}"] = repr((res, out.getvalue(), err.getvalue()))
    p = cr.init_parser()
    R["S1/help"] = p.format_help()
    R["S1/usage"] = p.format_usage()
    R["S1/attrs"] = repr((p.prog, p.description, p.epilog, p.formatter_class.__name__,
                          type(p).__name__, p.add_help, p.allow_abbrev, p.prefix_chars))
    R["S1/actions"] = repr([(a.option_strings, a.dest, getattr(a.type, "__name__", a.type), a.required,
                             a.default, a.help, type(a).__name__, a.nargs, a.const, a.metavar)
                            for a in p._actions])
    R["S1/fresh"] = repr(cr.init_parser() is not cr.init_parser())

    # ---- S2: set_logger -----------------------------------------------------
    levels = [None, "", "INFO", "i", "DEBUG", "d", "FULL_DEBUG", "dd", "x", "info", "I", "ddd",
              20, 10, 0, 0.0, False, True, logging.INFO, logging.DEBUG, [], ["i"], ("i",), {"i"},
              "INFO ", b"i", {"i": 1}, float("nan")]
    for i, level in enumerate(levels):
        with logging_sandbox() as (cap, calls):
            try:
                res = "RET " + repr(cr.set_logger(level))
            except Exception as e:  # noqa
                res = exc_text(e)
        R[f"S2/{i}:{level!r}"] = repr((res, calls))
    with logging_sandbox() as (cap, calls):
        try:
            res = "RET " + repr(cr.set_logger())
        except Exception as e:  # noqa
            res = exc_text(e)
    R["S2/default"] = repr((res, calls))
    with logging_sandbox() as (cap, calls):
        try:
            res = "RET " + repr(cr.set_logger(level="dd"))
        except Exception as e:  # noqa
            res = exc_text(e)
    R["S2/keyword"] = repr((res, calls))

    # ---- S3: read_dict_from_file -------------------------------------------
    os.mkdir("rd")
    contents = {
        "empty_dict": "{}", "small": "{'a': 1}", "list": "[1, 2]", "int": "3", "none": "None",
        "empty": "", "blank": "   \n", "open_brace": "{", "zero_div": "{'a': 1/0}",
        "set": "{1, 2}", "string": "'text'", "tuple": "({},)", "dict_call": "dict(a=1, b=[1, 2])",
        "subclass": "__import__('collections').OrderedDict(a=1)",
        "defaultdict": "__import__('collections').defaultdict(list, a=[1])",
        "uses_file_name": "{'n': file_name}", "uses_contents": "{'n': contents[:12], 'l': len(contents)}",
        "uses_file": "{'n': file.name, 'c': file.closed, 'm': file.mode}",
        "locals": "{'k': sorted(locals())}", "locals_list": "sorted(locals())",
        "globals": "{'g': [(n, n in globals()) for n in ('argparse', 'copy', 'logging', 'time', "
                   "'StochasticGame', 'save_results_to_file', 'read_dict_from_file', 'run_games', "
                   "'set_logger', 'init_parser', 'main')]}",
        "name_error": "{'a': undefined_name}", "statement": "x = {}", "two_exprs": "{}\n{}",
        "comment_first": "# comment\n{'a': 1}\n", "newline_first": "\n{'a': 1}",
        "indent_first": "   {'a': 1}", "crlf": "{\r\n'a': 1,\r\n'b': [1,\r\n2]\r\n}\r\n",
        "fractions": "{'g': {'rewards': [1/3, 5/3, 2**0.5, 1e-9, 10**-6]}}",
        "dup_keys": "{'g': 1, 'g': 2}", "int_keys": "{1: {}, (2, 3): {}, None: {}}",
        "nested_order": "{'z_9': {'b': 1, 'a': 2}, 'a_1': {'y': [(0.5, 1), ('x', 2)]}}",
        "raise_value": "(_ for _ in ()).throw(ValueError('from the file'))",
        "raise_key": "{}['missing']", "bool": "True", "lambda": "lambda: {}", "bytes": "b'{}'",
        "big": "{" + ", ".join(f"'game_{i}': {{'rewards': [{i}, {i / 7!r}], 'final_states': [{i}]}}"
                              for i in range(400)) + "}",
        "unicode": "{'ñ': 'é✓'}", "tabs": "\t{'a':\t1}",
    }
    for key, text in contents.items():
        path = os.path.join("rd", f"{key}.py")
        with open(path, "w", newline="") as fh:
            fh.write(text)
        try:
            got = cr.read_dict_from_file(path)
            res = f"RET {type(got).__name__} {got!r}"
        except BaseException as e:  # noqa  (SyntaxError etc.)
            res = exc_text(e)
        R[f"S3/{key}"] = res
    with open("rd/latin1.py", "wb") as fh:
        fh.write(b"{'a': '\xe9\xff'}")
    with open("rd/nul.py", "wb") as fh:
        fh.write(b"{'a': 1}\x00")
    for path in ["rd/latin1.py", "rd/nul.py", "rd/does_not_exist.py", "rd", "", "rd/", "inputs",
                 None, 3.5, b"rd/small.py", ["rd/small.py"]]:
        try:
            got = cr.read_dict_from_file(path)
            res = f"RET {type(got).__name__} {got!r}"
        except BaseException as e:  # noqa
            res = exc_text(e)
        R[f"S3/path:{path!r}"] = res
    import pathlib
    try:
        R["S3/pathlib"] = repr(cr.read_dict_from_file(pathlib.Path("rd/small.py")))
    except BaseException as e:  # noqa
        R["S3/pathlib"] = exc_text(e)
    for fn in sorted(os.listdir("inputs")):
        if os.path.getsize(os.path.join("inputs", fn)) > 400_000:
            continue
        try:
            got = cr.read_dict_from_file(os.path.join("inputs", fn))
            text = repr(got)
            res = f"RET {type(got).__name__} {list(got)} len={len(text)} " \
                  f"sha1={hashlib.sha1(text.encode()).hexdigest()}"
        except BaseException as e:  # noqa
            res = exc_text(e)
        R[f"S3/input:{fn}"] = res

    # ---- S4: save_results_to_file on hand made tables ----------------------
    tables = handmade_tables()
    for tname, table in tables.items():
        names = FILE_NAMES if tname in ("plain", "empty") else ["inputs/some_input_1.py"]
        for fname in names:
            clear_outputs()
            try:
                res = "RET " + repr(cr.save_results_to_file(table, fname))
            except Exception as e:  # noqa
                res = exc_text(e)
            R[f"S4/{tname}/{fname}"] = repr((res, outputs_snapshot()))
    for fname in [None, 5, b"inputs/a.py", pathlib.Path("inputs/a.py"), ["a.py"], ("a/b.py",)]:
        clear_outputs()
        try:
            res = "RET " + repr(cr.save_results_to_file(tables["plain"], fname))
        except Exception as e:  # noqa
            res = exc_text(e)
        R[f"S4/badname/{fname!r}"] = repr((res, outputs_snapshot()))
    for table in [None, [], [("a", entry())], "ab", 5]:
        clear_outputs()
        try:
            res = "RET " + repr(cr.save_results_to_file(table, "inputs/t.py"))
        except Exception as e:  # noqa
            res = exc_text(e)
        R[f"S4/badtable/{table!r:.30}"] = repr((res, outputs_snapshot()))
    # keyword call, existing file is overwritten (not appended), outputs missing / read-only target
    clear_outputs()
    cr.save_results_to_file(game_resuts=tables["many"], file_name="inputs/k.py")
    cr.save_results_to_file(file_name="inputs/k.py", game_resuts=tables["plain"])
    R["S4/overwrite"] = outputs_snapshot()
    shutil.rmtree("outputs")
    try:
        res = "RET " + repr(cr.save_results_to_file(tables["plain"], "inputs/k.py"))
    except Exception as e:  # noqa
        res = exc_text(e)
    R["S4/no_outputs_dir"] = repr((res, outputs_snapshot(), os.path.exists("outputs")))
    os.mkdir("outputs")
    os.mkdir("outputs/isdir.txt")
    try:
        res = "RET " + repr(cr.save_results_to_file(tables["plain"], "inputs/isdir.py"))
    except Exception as e:  # noqa
        res = exc_text(e)
    R["S4/target_is_dir"] = res
    shutil.rmtree("outputs/isdir.txt")

    # ---- S5: run_games on random dictionaries, then the report -------------
    rng = random.Random(20161016)
    for idx in range(N_RANDOM):
        games = random_games_dict(rng, idx)
        before = repr(games)
        key = f"S5/{idx}"
        clear_outputs()
        with logging_sandbox(preinstall_level=logging.DEBUG) as (cap, calls), patched_time() as clock:
            try:
                with budget():
                    results = cr.run_games(games)
                res = "RET " + repr(results)
            except _Timeout:
                R[key] = "TIMEOUT"
                continue
            except Exception as e:  # noqa
                results = None
                res = exc_text(e)
        R[key] = repr((res, f"clock={clock.calls}", digest(cap.records), calls,
                       "mutated=" + repr(games), before == repr(games)))
        if results is not None:
            fname = f"inputs/rand_{idx}_w{idx % 7}.v{idx % 3}.py"
            try:
                sres = "RET " + repr(cr.save_results_to_file(results, fname))
            except Exception as e:  # noqa
                sres = exc_text(e)
            R[key + "/report"] = repr((sres, outputs_snapshot()))
            # and a second run on the already mutated dictionary (prune_states left behind)
            if idx % 5 == 0:
                with logging_sandbox(preinstall_level=logging.INFO) as (cap, calls), patched_time():
                    try:
                        with budget():
                            again = "RET " + repr(cr.run_games(games))
                    except _Timeout:
                        again = None
                    except Exception as e:  # noqa
                        again = exc_text(e)
                R[key + "/again"] = "TIMEOUT" if again is None else repr((again, digest(cap.records)))
    # odd dictionaries
    odd_inputs = {
        "empty": {}, "int_name": {5: random_game(random.Random(1))},
        "tuple_name": {("a", 1): random_game(random.Random(2))},
        "game_none": {"g": None}, "game_list": {"g": [1, 2]}, "game_empty": {"g": {}},
        "not_dict": [("g", {})], "none": None,
        "two_fail_first": {"bad": {"rewards": [0], "players": [PR], "transition_list": [[(1, 0)]],
                                   "final_states": []},
                           "good": {"rewards": [0, 1], "players": [PR, PR],
                                    "transition_list": [[(1, 1)], [(1, 1)]], "final_states": [1]}},
        "name_clash": {"g": {"rewards": [0, 1], "players": [PR, PR],
                             "transition_list": [[(1, 1)], [(1, 1)]], "final_states": [1]},
                       "g_no_prune": {"rewards": [2, 1], "players": [PR, PR],
                                      "transition_list": [[(1, 1)], [(1, 1)]], "final_states": [1]}},
        "unreachable_start": {"u": {"rewards": [1, 1], "players": [PR, PR],
                                    "transition_list": [[(1, 0)], [(1, 1)]], "final_states": [1]}},
        "zero_states": {"z": {"rewards": [], "players": [], "transition_list": [], "final_states": [0]}},
    }
    for key, games in odd_inputs.items():
        clear_outputs()
        with logging_sandbox(preinstall_level=logging.DEBUG) as (cap, calls), patched_time() as clock:
            try:
                with budget():
                    results = cr.run_games(games)
                res = "RET " + repr(results)
            except _Timeout:
                R[f"S5/odd/{key}"] = "TIMEOUT"
                continue
            except Exception as e:  # noqa
                results = None
                res = exc_text(e)
        report = None
        if results is not None:
            try:
                cr.save_results_to_file(results, f"inputs/{key}.py")
                report = outputs_snapshot()
            except Exception as e:  # noqa
                report = exc_text(e) + outputs_snapshot()
        R[f"S5/odd/{key}"] = repr((res, clock.calls, cap.records[-12:], digest(cap.records),
                                   repr(games), report))

    # ---- S6: main() in process ---------------------------------------------
    os.makedirs("inputs/nested/deeper", exist_ok=True)
    shutil.copy("inputs/example_17_08.py", "inputs/my_games.v2.final.py")
    shutil.copy("inputs/paper_games.py", "inputs/nested/deeper/paper_9_copy_.py")
    shutil.copy("inputs/example_games.py", "no_dir_prefix.py")
    shutil.copy("inputs/example_games.py", "inputs/.hidden.py")
    with open("inputs/not_a_dict.py", "w") as fh:
        fh.write("[1, 2, 3]")
    with open("inputs/syntax_error.py", "w") as fh:
        fh.write("{'a': ")
    with open("inputs/empty_dict.py", "w") as fh:
        fh.write("{}")
    with open("inputs/bad_game.py", "w") as fh:
        fh.write("{'g_1': {'rewards': [0]}}")
    with open("inputs/self_aware.py", "w") as fh:
        fh.write("{'g_' + file_name.split('/')[-1][:4]: {'rewards': [len(contents), 0], "
                 "'players': ['Probabilistic', 'Probabilistic'], "
                 "'transition_list': [[(0.5, 0), (0.5, 1)], [(1, 1)]], 'final_states': [1]}}")
    main_cases = []
    for name in SMALL_INPUTS:
        main_cases.append(["-f", f"inputs/{name}.py", "-s"])
    main_cases += [
        ["-f", "inputs/example_17_08.py"], ["--file", "inputs/paper_games.py", "--save_results", "-l", "i"],
        ["-f", "inputs/example_games.py", "-s", "-l", "d"], ["-f", "inputs/example_games.py", "-l", "dd", "-s"],
        ["-f", "inputs/example_games.py", "-l", "INFO"], ["-f", "inputs/example_games.py", "-l", "DEBUG", "-s"],
        ["-f", "inputs/example_games.py", "-l", "FULL_DEBUG"], ["-f", "inputs/example_games.py", "-l", "bogus", "-s"],
        ["-f", "inputs/missing.py", "-l", "bogus", "-s"], ["-f", "inputs/example_games.py", "-l", "", "-s"],
        ["-f", "inputs/missing.py", "-s"], ["-f", "inputs/not_a_dict.py", "-s"],
        ["-f", "inputs/syntax_error.py", "-s"], ["-f", "inputs/empty_dict.py", "-s"],
        ["-f", "inputs/empty_dict.py"], ["-f", "inputs/bad_game.py", "-s"],
        ["-f", "inputs/self_aware.py", "-s"], ["-f", "inputs/my_games.v2.final.py", "-s"],
        ["-f", "inputs/nested/deeper/paper_9_copy_.py", "-s"], ["-f", "no_dir_prefix.py", "-s"],
        ["-f", "./inputs/../inputs/example_17_08.py", "-s"], ["-f", "inputs/.hidden.py", "-s"],
        ["-f", os.path.abspath("inputs/example_17_08.py"), "-s"], ["-s"], [], ["-h"],
        ["-f", "inputs", "-s"], ["-f", "", "-s"], ["-sf", "inputs/example_17_08.py"],
        ["-f", "inputs/example_17_08.py", "-s", "junk"],
    ]
    for i, argv in enumerate(main_cases + [["NO_OUTPUTS_DIR", "-f", "inputs/example_17_08.py", "-s"]]):
        clear_outputs()
        if argv and argv[0] == "NO_OUTPUTS_DIR":
            argv = argv[1:]
            shutil.rmtree("outputs")
        saved_argv = sys.argv
        sys.argv = ["conditionalrewards.py"] + argv
        out, err = io.StringIO(), io.StringIO()
        timed_out = False
        with logging_sandbox() as (cap, calls), patched_time() as clock, \
                contextlib.redirect_stdout(out), contextlib.redirect_stderr(err):
            try:
                with budget(6.0):
                    res = "RET " + repr(cr.main())
            except _Timeout:
                timed_out = True
            except SystemExit as e:
                res = f"EXIT {e.code!r}"
            except BaseException as e:  # noqa
                res = exc_text(e)
        sys.argv = saved_argv
        key = f"S6/{i}:{' '.join(argv).replace(scratch, '<scratch>')}"
        if timed_out:
            R[key] = "TIMEOUT"
        else:
            R[key] = repr((res, calls, clock.calls, digest(cap.records), cap.records[-6:],
                           out.getvalue(), err.getvalue(), outputs_snapshot()))
        if not os.path.isdir("outputs"):
            os.mkdir("outputs")

    # ---- S7: the real command line -----------------------------------------
    cli_cases = [
        ["-f", "inputs/example_17_08.py", "-s"], ["-f", "inputs/paper_games.py", "-s"],
        ["-f", "inputs/manual_arrow_bottom.py", "-s", "-l", "i"],
        ["-f", "inputs/my_games.v2.final.py", "--save_results"],
        ["-f", "inputs/not_a_dict.py", "-s"], ["-f", "inputs/example_games.py"], ["--help"],
        ["-f", "inputs/example_games.py", "-l", "nope"],
    ]
    for i, argv in enumerate(cli_cases):
        clear_outputs()
        proc = subprocess.run([sys.executable, os.path.join(root, "conditionalrewards.py")] + argv,
                              capture_output=True, text=True, timeout=60,
                              env=dict(os.environ, PYTHONDONTWRITEBYTECODE="1"))

        def mask(text):
            lines = []
            for line in text.splitlines(keepends=True):
                if line.startswith("Total time"):
                    head, _, _ = line.partition(":")
                    line = head + ": <time>\n"
                lines.append(line.replace(root, "<root>"))
            return "".join(lines)

        def strip_traceback(text):
            # frames carry line numbers and source text of the tree: keep what precedes the
            # traceback and its last line (exception type and message)
            marker = "Traceback (most recent call last):"
            if marker not in text:
                return text
            head, _, tail = text.partition(marker)
            return head + marker + " ... " + tail.rstrip("\n").rsplit("\n", 1)[-1] + "\n"

        R[f"S7/{i}:{' '.join(argv)}"] = repr((proc.returncode, mask(proc.stdout),
                                               strip_traceback(mask(proc.stderr)),
                                               mask(outputs_snapshot().replace("\\n", "\n"))))

    with open(out_path, "w") as fh:
        json.dump(R, fh)
    os.chdir("/")
    shutil.rmtree(scratch, ignore_errors=True)


# --------------------------------------------------------------------------- #
# the comparer
# --------------------------------------------------------------------------- #
def main():
    if len(sys.argv) == 4 and sys.argv[1] == "--worker":
        worker(sys.argv[2], sys.argv[3])
        return 0
    if len(sys.argv) != 3:
        print(__doc__)
        return 2
    patched, clean = (os.path.abspath(p) for p in sys.argv[1:3])
    tmp = tempfile.mkdtemp(prefix="c16_cmp_")
    procs = []
    env = dict(os.environ, PYTHONDONTWRITEBYTECODE="1", PYTHONHASHSEED="0")
    env.pop("PYTHONPATH", None)
    for tag, root in (("patched", patched), ("clean", clean)):
        out = os.path.join(tmp, f"{tag}.json")
        procs.append((tag, out, subprocess.Popen(
            [sys.executable, HERE, "--worker", root, out], env=env, cwd=tmp,
            stdout=subprocess.PIPE, stderr=subprocess.STDOUT, text=True)))
    tables = {}
    failed = False
    for tag, out, proc in procs:
        text, _ = proc.communicate()
        if proc.returncode != 0 or not os.path.exists(out):
            print(f"worker for the {tag} tree crashed (exit {proc.returncode}):\n{text[-3000:]}")
            failed = True
            continue
        with open(out) as fh:
            tables[tag] = json.load(fh)
    shutil.rmtree(tmp, ignore_errors=True)
    if failed:
        print("FAIL")
        return 1
    a, b = tables["patched"], tables["clean"]
    diffs, skipped = [], 0
    for key in sorted(set(a) | set(b)):
        if key not in a or key not in b:
            base = key.rsplit("/", 1)[0]
            if a.get(base) == "TIMEOUT" or b.get(base) == "TIMEOUT":
                continue
            diffs.append((key, a.get(key, "<absent>"), b.get(key, "<absent>")))
        elif a[key] == "TIMEOUT" or b[key] == "TIMEOUT":
            skipped += 1
        elif a[key] != b[key]:
            diffs.append((key, a[key], b[key]))
    sections = {}
    for key in b:
        sections[key.split("/")[0]] = sections.get(key.split("/")[0], 0) + 1
    print(f"compared {len(b)} cases {sections}; skipped for time budget: {skipped}")
    if skipped > len(b) // 10:
        print("too many cases ran out of their time budget")
        diffs.append(("<budget>", str(skipped), "0"))
    for key, x, y in diffs[:15]:
        pos = next((i for i, (c, d) in enumerate(zip(x, y)) if c != d), min(len(x), len(y)))
        print(f"DIFF in {key} at char {pos}:\n  patched: ...{x[max(0, pos - 120):pos + 200]!r}\n"
              f"  clean  : ...{y[max(0, pos - 120):pos + 200]!r}")
    if diffs:
        print(f"FAIL ({len(diffs)} differing cases)")
        return 1
    print("PASS")
    return 0


if __name__ == "__main__":
    sys.exit(main())
