#!/usr/bin/env python
"""
Equivalence test for property C14 (cross-objective diagnostics match the reported strategies).

usage: python equiv_test.py <path-to-patched-root> <path-to-clean-root>

The two trees are loaded in two separate subprocesses (same module names).  Each child
runs exactly the same, seeded, battery of inputs and prints one JSON document; the parent
compares the two documents item by item.  Everything the property talks about is compared
EXACTLY (no tolerance): the eight outputs of StochasticGame.solve() for both pruning modes
(so in particular [6] 'probabilities under minimal reward', [7] 'rewards under minimal
reachability', the final and the reachability strategies they are defined from, and the
iteration counts), the per-node value_iteration_rewards triples, the state left behind by
Solver.value_iteration_total_rewards, and the report text written by the driver.
"""
import copy
import json
import os
import random
import signal
import subprocess
import sys
import tempfile

P1, P2, PR = "Player 1", "Player 2", "Probabilistic"
SOLVE_TIMEOUT = 30


# --------------------------------------------------------------------------- generators

def split_probabilities(rng, k, style):
    if k == 1:
        return [1]
    if style == "uniform":
        w = [rng.uniform(0.05, 1) for _ in range(k)]
        t = sum(w)
        return [x / t for x in w]
    if style == "tiny":
        tiny = rng.choice([1e-9, 1e-7, 1e-6, 5e-7, 1e-3])
        rest = [rng.uniform(0.2, 1) for _ in range(k - 1)]
        t = sum(rest)
        return [tiny] + [x / t * (1 - tiny) for x in rest]
    if style == "near1":
        eps = rng.choice([1e-9, 1e-6, 1e-4])
        rest = [eps / (k - 1)] * (k - 1)
        return [1 - eps] + rest
    if style == "dyadic":
        out, left = [], 1.0
        for _ in range(k - 1):
            left /= 2
            out.append(left)
        out.append(left)
        rng.shuffle(out)
        return out
    if style == "thirds":
        return [1 / k] * k
    raise AssertionError(style)


def random_game(rng, max_inner=12):
    """
        A random well-formed STOPPING game: players only move to higher numbered states,
        every probabilistic state has at least one transition to a higher numbered state
        (weight >= ~0.02 when it also has transitions going back), the highest numbered
        states are absorbing with reward 0.  Cycles go through probabilistic back edges.
        Several finals, dead sinks, non-absorbing finals, reward ties, reach ties,
        duplicated action labels and repeated targets all occur.
    """
    n_sinks = rng.randint(1, 3)
    n_inner = rng.randint(0, max_inner)
    n = n_inner + n_sinks
    reward_style = rng.choice(["small_int", "float", "mostly_zero", "mixed", "distinct"])
    weights = rng.choice([(1, 1, 1), (3, 1, 1), (1, 3, 1), (1, 1, 3), (2, 2, 1)])
    players, transitions, rewards = [], [], []
    has_back_edges = False
    for i in range(n_inner):
        player = rng.choices([P1, P2, PR], weights=weights)[0]
        higher = list(range(i + 1, n))
        if player in (P1, P2):
            k = rng.randint(1, min(4, len(higher) + 1))
            targets = [rng.choice(higher) for _ in range(k)]
            if rng.random() < 0.08:
                labels = [rng.choice("ab") for _ in range(k)]      # duplicated labels
            else:
                labels = [f"a{j}" for j in range(k)]
                if rng.random() < 0.3:
                    rng.shuffle(labels)
            trans = list(zip(labels, targets))
        else:
            k_fwd = rng.randint(1, min(3, len(higher)))
            targets = rng.sample(higher, k_fwd)
            back = rng.random() < 0.45
            if back:
                has_back_edges = True
                targets += [rng.randint(0, i) for _ in range(rng.randint(1, 2))]
                style = "uniform"
            else:
                style = rng.choice(["uniform", "tiny", "near1", "dyadic", "thirds"])
            probs = split_probabilities(rng, len(targets), style)
            if back and rng.random() < 0.5:
                order = list(range(len(targets)))
                rng.shuffle(order)
                targets = [targets[j] for j in order]
                probs = [probs[j] for j in order]
            trans = list(zip(probs, targets))
        players.append(player)
        transitions.append(trans)
        if reward_style == "small_int":
            rewards.append(rng.randint(0, 3))
        elif reward_style == "float":
            rewards.append(rng.uniform(0, 10))
        elif reward_style == "mostly_zero":
            rewards.append(rng.choice([0, 0, 0, 1, 7]))
        elif reward_style == "mixed":
            rewards.append(rng.choice([0, 1, 1.0, 2, 2.5, 5 / 3, 11 / 6, 10 ** 6]))
        else:
            rewards.append(round(rng.uniform(0.1, 50), 3) + i * 1e-3)
    for i in range(n_inner, n):
        kind = rng.choices([PR, P1, P2], weights=(4, 1, 1))[0]
        players.append(kind)
        transitions.append([(1, i)] if kind == PR else [("stay", i)])
        rewards.append(0)
    sinks = list(range(n_inner, n))
    # A final state that is not absorbing keeps probability 1 whatever follows it, so the
    # pruning can close a cycle around it (the conditioned game is then not stopping and no
    # version terminates): such finals are only drawn for games without back edges.
    if rng.random() < 0.7 or n_inner == 0 or has_back_edges:
        finals = rng.sample(sinks, rng.randint(1, len(sinks)))
    else:
        finals = rng.sample(range(n), rng.randint(1, min(3, n)))
    if rng.random() < 0.5:
        finals.sort()
    return {"rewards": rewards, "players": players,
            "transition_list": transitions, "final_states": finals}


def boundary_games():
    games = {}
    games["single_final"] = dict(rewards=[0], players=[PR], transition_list=[[(1, 0)]], final_states=[0])
    games["single_final_p1"] = dict(rewards=[0], players=[P1], transition_list=[[("s", 0)]], final_states=[0])
    games["single_final_p2"] = dict(rewards=[0], players=[P2], transition_list=[[("s", 0)]], final_states=[0])
    games["start_dead"] = dict(rewards=[0, 0], players=[PR, PR],
                               transition_list=[[(1, 0)], [(1, 1)]], final_states=[1])
    games["two_states"] = dict(rewards=[3, 0], players=[P1, PR],
                               transition_list=[[("go", 1)], [(1, 1)]], final_states=[1])
    # P2 chooses between equal reach, different rewards (reach tie -> 'cheapest')
    games["p2_reach_tie"] = dict(
        rewards=[1, 5, 2, 0], players=[P2, PR, PR, PR],
        transition_list=[[("x", 1), ("y", 2)], [(1, 3)], [(1, 3)], [(1, 3)]], final_states=[3])
    # P2: reachability minimiser is the expensive action
    games["p2_cross"] = dict(
        rewards=[1, 50, 2, 0, 0], players=[P2, PR, PR, PR, PR],
        transition_list=[[("x", 1), ("y", 2)], [(0.5, 3), (0.5, 4)], [(1, 3)], [(1, 3)], [(1, 4)]],
        final_states=[3])
    # reach probabilities equal only after rounding to 6 decimals
    games["p2_round_tie"] = dict(
        rewards=[1, 5, 2, 0, 0], players=[P2, PR, PR, PR, PR],
        transition_list=[[("x", 1), ("y", 2)], [(0.5000001, 3), (0.4999999, 4)],
                         [(0.5, 3), (0.5, 4)], [(1, 3)], [(1, 4)]],
        final_states=[3])
    games["p2_round_notie"] = dict(
        rewards=[1, 5, 2, 0, 0], players=[P2, PR, PR, PR, PR],
        transition_list=[[("x", 1), ("y", 2)], [(0.500002, 3), (0.499998, 4)],
                         [(0.5, 3), (0.5, 4)], [(1, 3)], [(1, 4)]],
        final_states=[3])
    # duplicated action label on a P2 state, one of the two minimises reachability
    games["p2_dup_labels"] = dict(
        rewards=[1, 5, 2, 9, 0, 0], players=[P2, PR, PR, PR, PR, PR],
        transition_list=[[("a", 1), ("a", 2), ("b", 3)], [(0.2, 4), (0.8, 5)],
                         [(0.6, 4), (0.4, 5)], [(0.9, 4), (0.1, 5)], [(1, 4)], [(1, 5)]],
        final_states=[4])
    # P1 reward tie, int/float mix (2 == 2.0): which representative is reported matters
    games["p1_reward_tie_types"] = dict(
        rewards=[0, 2, 2.0, 0], players=[P1, PR, PR, PR],
        transition_list=[[("i", 1), ("f", 2)], [(1, 3)], [(1, 3)], [(1, 3)]], final_states=[3])
    games["p2_reward_tie_types"] = dict(
        rewards=[0, 2.0, 2, 0], players=[P2, PR, PR, PR],
        transition_list=[[("f", 1), ("i", 2)], [(1, 3)], [(1, 3)], [(1, 3)]], final_states=[3])
    # cycle through a probabilistic back edge and P1/P2 inside the cycle
    games["cycle"] = dict(
        rewards=[1, 2, 3, 0, 0], players=[P1, P2, PR, PR, PR],
        transition_list=[[("a", 1), ("b", 2)], [("c", 2), ("d", 3)],
                         [(0.5, 0), (0.3, 3), (0.2, 4)], [(1, 3)], [(1, 4)]],
        final_states=[3])
    # non absorbing final state
    games["final_not_absorbing"] = dict(
        rewards=[1, 4, 2, 0], players=[P1, PR, P2, PR],
        transition_list=[[("a", 1), ("b", 2)], [(0.5, 2), (0.5, 3)], [("c", 3)], [(1, 3)]],
        final_states=[1, 3])
    # everything dead but the start is final
    games["start_final"] = dict(
        rewards=[2, 0], players=[PR, PR], transition_list=[[(1, 1)], [(1, 1)]], final_states=[0])
    # big reward, small probability (from the paper games)
    games["big_reward_small_prob"] = dict(
        rewards=[0, 0, 0, 10 ** 25, 0, 1, 0], players=[P1] + [PR] * 6,
        transition_list=[[("alfa", 1), ("beta", 2)], [(0.01, 3), (0.99, 4)], [(0.01, 4), (0.99, 5)],
                         [(1, 6)], [(1, 4)], [(1, 6)], [(1, 6)]], final_states=[6])
    # malformed: rejected before any solving
    games["bad_no_finals"] = dict(rewards=[0, 0], players=[PR, PR],
                                  transition_list=[[(1, 1)], [(1, 1)]], final_states=[])
    games["bad_missing_transitions"] = dict(rewards=[0, 0], players=[P1, PR],
                                            transition_list=[[], [(1, 1)]], final_states=[1])
    games["bad_negative_reward"] = dict(rewards=[-1, 0], players=[P1, PR],
                                        transition_list=[[("a", 1)], [(1, 1)]], final_states=[1])
    return games


# --------------------------------------------------------------------------- child side

class Timeout(Exception):
    pass


def _alarm(signum, frame):
    raise Timeout()


def guarded(fn):
    signal.signal(signal.SIGALRM, _alarm)
    signal.alarm(SOLVE_TIMEOUT)
    try:
        return ["ok", fn()]
    except Timeout:
        return ["TIMEOUT", None]
    except Exception as e:                                   # noqa
        return ["exc", type(e).__name__, str(e)]
    finally:
        signal.alarm(0)


def solve_both_modes(tad, game):
    out = []
    for prune in (True, False):
        g = copy.deepcopy(game)
        before = copy.deepcopy(g)
        res = guarded(lambda: list(tad.StochasticGame(prune_states=prune, **g).solve()))
        out.append([res, g == before])
    return out


def node_state(state_list):
    return [[s.expected_rewards, s.expected_rewards_min_reach, s.expected_reach_min_rewards,
             s.reach_probability, list(map(list, s.next_states))] for s in state_list]


def random_node_list(tad, rng):
    """ Nodes built directly, with arbitrary (not solver produced) values on them. """
    n = rng.randint(1, 7)
    reach_values = [0, 0.25, 0.4999994, 0.4999996, 0.5, 0.5000004, 0.5000006, 1, 1.0000001, 1.5, 1e-7]
    value_pool = [0, 0.0, 1, 1.0, 2, 2.5, 3, 3.0000001, 10 ** 25, 1e-9, 7.25]
    nodes = []
    for i in range(n):
        kind = rng.choice([P1, P2, PR])
        k = rng.randint(1, 4)
        if kind == PR:
            trans = list(zip(split_probabilities(rng, k, rng.choice(["uniform", "thirds", "dyadic"])),
                             [rng.randrange(n) for _ in range(k)]))
            cls = tad.ProbabilisticNode
        else:
            labels = [rng.choice("abc") for _ in range(k)] if rng.random() < 0.3 else [f"a{j}" for j in range(k)]
            trans = list(zip(labels, [rng.randrange(n) for _ in range(k)]))
            cls = tad.PlayerOne if kind == P1 else tad.PlayerTwo
        node = cls(player=kind, idx=i, next_states=trans, reward=rng.choice([0, 1, 2, 2.5]),
                   num_states=n, is_final_node=rng.random() < 0.2)
        nodes.append(node)
    for node in nodes:
        node.reach_probability = rng.choice(reach_values)
        node.expected_rewards = rng.choice(value_pool)
        node.expected_rewards_min_reach = rng.choice(value_pool)
        node.expected_reach_min_rewards = rng.choice(reach_values)
        if rng.random() < 0.1:
            node.next_states = []
    return nodes


def child(root):
    root = os.path.abspath(root)
    sys.path.insert(0, root)
    workdir = tempfile.mkdtemp(prefix="c14_equiv_")
    os.makedirs(os.path.join(workdir, "outputs"))
    os.chdir(workdir)
    import logging
    logging.disable(logging.CRITICAL)
    import tad
    import conditionalrewards
    assert os.path.dirname(os.path.abspath(tad.__file__)) == root, tad.__file__
    doc = {}

    # A. random stopping games through the public entry point, both pruning modes
    rng = random.Random(140014)
    doc["random_games"] = [solve_both_modes(tad, random_game(rng)) for _ in range(700)]
    rng = random.Random(777)
    doc["random_games_large"] = [solve_both_modes(tad, random_game(rng, max_inner=40)) for _ in range(60)]

    # B. boundary games
    doc["boundary"] = {name: solve_both_modes(tad, g) for name, g in boundary_games().items()}

    # C1. one step of every node on arbitrary values
    rng = random.Random(99)
    steps = []
    for _ in range(1500):
        nodes = random_node_list(tad, rng)
        item = []
        for node in nodes:
            item.append(guarded(lambda: list(node.value_iteration_rewards(nodes))))
            if isinstance(node, tad.PlayerTwo) and node.next_states:
                actions = sorted({a for a, _ in node.next_states})
                subset = [a for a in actions if rng.random() < 0.6]
                item.append(guarded(lambda: node._expected_rewards_min_reach(nodes, subset)))
                item.append(guarded(lambda: node._expected_rewards_min_reach(nodes, [])))
        item.append(node_state(nodes))
        steps.append(item)
    doc["node_steps"] = steps

    # C2. the rewards fixed point alone (no reachability pass, other thresholds, run twice)
    rng = random.Random(4242)
    solo = []
    for _ in range(200):
        game = random_game(rng, max_inner=8)
        threshold = rng.choice([10 ** -6, 10 ** -3, 10 ** -9])

        def run():
            sg = tad.StochasticGame(**copy.deepcopy(game))
            sg.check_game()
            state_list = sg.init_states()
            solver = tad.Solver(state_list, threshold=threshold)
            rec = []
            if rng_flag:
                solver.solve_reachability(sg.transition_list, sg.final_states, False)
            rec.append(solver.value_iteration_total_rewards())
            rec.append(node_state(state_list))
            rec.append(solver.solve_total_rewards())
            rec.append(node_state(state_list))
            return rec
        rng_flag = rng.random() < 0.5
        solo.append(guarded(run))
    doc["rewards_fixed_point_alone"] = solo

    # C3. the same solver used again after the reach probabilities / transitions changed:
    #     whatever is remembered about Player 2's reachability-minimising moves must not
    #     survive from one run of the rewards iteration to the next.
    rng = random.Random(2718)
    reuse = []
    for _ in range(200):
        game = random_game(rng, max_inner=8)

        def run_reuse():
            sg = tad.StochasticGame(**copy.deepcopy(game))
            sg.check_game()
            state_list = sg.init_states()
            solver = tad.Solver(state_list)
            solver.solve_reachability(sg.transition_list, sg.final_states, False)
            rec = [solver.solve_total_rewards(), node_state(state_list)]
            local = random.Random(len(state_list) * 7919 + int(sum(sg.rewards) * 1000))
            for state in state_list:      # new reach probabilities, stopping structure kept
                if local.random() < 0.5:
                    state.reach_probability = local.choice([0, 0.25, 0.4999996, 0.5, 0.5000004, 0.75, 1])
            rec += [solver.solve_total_rewards(), node_state(state_list)]
            for state in state_list:      # drop transitions of some Player 2 states
                if isinstance(state, tad.PlayerTwo) and len(state.next_states) > 1 and local.random() < 0.5:
                    state.next_states = state.next_states[1:]
            rec += [solver.value_iteration_total_rewards(), node_state(state_list)]
            other = tad.Solver(state_list, threshold=10 ** -8)   # another solver, same nodes
            rec += [other.solve_total_rewards(), node_state(state_list)]
            return rec
        reuse.append(guarded(run_reuse))
    doc["solver_reuse"] = reuse

    # D. the driver and its report (the 'Total time' line is the only thing dropped)
    rng = random.Random(31337)
    games = {f"g{i}": random_game(rng, max_inner=9) for i in range(40)}
    games.update(boundary_games())
    for bad in ("bad_no_finals", "bad_missing_transitions", "bad_negative_reward"):
        pass  # kept: the driver reports them as errors, identically in both trees
    results = conditionalrewards.run_games(copy.deepcopy(games))
    conditionalrewards.save_results_to_file(results, "inputs/equiv_random.py")
    with open("outputs/equiv_random.txt") as fh:
        doc["report_random"] = [line for line in fh.read().split("\n") if not line.startswith("Total time")]
    doc["results_random"] = {name: {k: v for k, v in res.items() if k != "total_time"}
                             for name, res in results.items()}
    reports = {}
    for name in ("paper_games.py", "example_games.py", "example_17_08.py", "manual_1_game_a.py",
                 "manual_arrow_bottom.py", "robot_1_w1_l2_r6_rb10_lb5_tb10_lt0.py",
                 "robot_1_w2_l1_r6_rb10_lb5_tb10_lt0.py", "robot_1_w2_l2_r6_rb10_lb5_tb10_lt0.py",
                 "robot_999132423_w3_l3_r6_rb1_lb2_tb10_lt30.py",
                 "robot_manual_1_w4_l4_r6_rb10_lb5_tb10_lt30.py"):
        path = os.path.join(root, "inputs", name)
        if not os.path.exists(path):
            reports[name] = "missing"
            continue
        res = conditionalrewards.run_games(conditionalrewards.read_dict_from_file(path))
        conditionalrewards.save_results_to_file(res, path)
        with open(os.path.join("outputs", name.split(".")[0] + ".txt")) as fh:
            reports[name] = [line for line in fh.read().split("\n") if not line.startswith("Total time")]
    doc["reports_inputs"] = reports

    doc["extra"] = extra_checks(tad, conditionalrewards)
    sys.stdout.write(json.dumps(doc))


def extra_checks(tad, conditionalrewards):
    """
        Variant 2 specific, inside the patched tree only: a Player 2 step that is handed the
        precomputed successors must return what the step computing them itself returns, the
        solver must not keep the table, and the nodes must not remember anything.
    """
    if not hasattr(tad.PlayerTwo, "min_reach_successors"):
        return "ok"                      # clean tree: nothing to check
    rng = random.Random(161803)
    for _ in range(3000):
        nodes = random_node_list(tad, rng)
        for node in nodes:
            if not isinstance(node, tad.PlayerTwo):
                continue
            before = dict(vars(node))
            plain = node.value_iteration_rewards(nodes)
            table = node.min_reach_successors(nodes)
            handed = node.value_iteration_rewards(nodes, table)
            keyword = node.value_iteration_rewards(nodes, min_reach_successors=table)
            if not (repr(plain) == repr(handed) == repr(keyword)):
                return f"handed table differs: {plain!r} {handed!r} {keyword!r}"
            strategies = node.get_worst_strategies_reachability(nodes, 6)
            legacy = node._expected_rewards_min_reach(nodes, strategies)
            if node.next_states and repr(legacy) != repr(plain[1]):
                return f"legacy helper differs: {legacy!r} {plain[1]!r}"
            if dict(vars(node)) != before:
                return "a node remembered something"
    rng = random.Random(57721)
    for _ in range(50):
        game = random_game(rng, max_inner=8)
        sg = tad.StochasticGame(**copy.deepcopy(game))
        state_list = sg.init_states()
        solver = tad.Solver(state_list)
        solver.solve_reachability(sg.transition_list, sg.final_states, False)
        attributes = set(vars(solver))
        solver.solve_total_rewards()
        if set(vars(solver)) != attributes:
            return f"the solver kept {set(vars(solver)) - attributes}"
    return "ok-checked"


# --------------------------------------------------------------------------- parent side

def first_difference(a, b, path="$"):
    if type(a) != type(b):
        return f"{path}: type {type(a).__name__} != {type(b).__name__} ({a!r} vs {b!r})"
    if isinstance(a, dict):
        if a.keys() != b.keys():
            return f"{path}: keys differ"
        for k in a:
            d = first_difference(a[k], b[k], f"{path}.{k}")
            if d:
                return d
        return None
    if isinstance(a, list):
        if len(a) != len(b):
            return f"{path}: length {len(a)} != {len(b)}"
        for i, (x, y) in enumerate(zip(a, b)):
            d = first_difference(x, y, f"{path}[{i}]")
            if d:
                return d
        return None
    if a != b and not (a != a and b != b):
        return f"{path}: {a!r} != {b!r}"
    return None


def count(doc, tag):
    text = json.dumps(doc)
    return text.count(f'["{tag}"')


def main():
    if len(sys.argv) == 3 and sys.argv[1] == "--child":
        child(sys.argv[2])
        return 0
    if len(sys.argv) != 3:
        print(__doc__)
        return 2
    docs = []
    for root in sys.argv[1:3]:
        proc = subprocess.run([sys.executable, os.path.abspath(__file__), "--child", root],
                              capture_output=True, text=True)
        if proc.returncode != 0:
            print(proc.stderr[-3000:])
            print(f"FAIL: child for {root} crashed")
            return 1
        docs.append(json.loads(proc.stdout))
    patched, clean = docs
    if patched["extra"] != "ok-checked" or clean["extra"] != "ok":
        print("FAIL: variant specific check:", patched["extra"])
        return 1
    patched.pop("extra"), clean.pop("extra")
    diff = first_difference(patched, clean)
    solved = sum(1 for pair in clean["random_games"] + clean["random_games_large"]
                 for res, _ in pair if res[0] == "ok")
    errors = sum(1 for pair in clean["random_games"] + clean["random_games_large"]
                 for res, _ in pair if res[0] == "exc")
    single = 0
    for pair in clean["random_games"] + clean["random_games_large"]:
        for res, _ in pair:
            if res[0] == "ok" and all(s is None or len(s) <= 1 for s in res[1][0]):
                single += 1
    print(f"random solves: {solved} solved ({single} with at most one action per state in the final strategies), "
          f"{errors} rejected, {count(clean, 'TIMEOUT')} timeouts; "
          f"{len(clean['node_steps'])} node lists; {len(clean['rewards_fixed_point_alone'])} bare fixed points; {len(clean['solver_reuse'])} solver reuses; "
          f"{len(clean['report_random'])} report lines + {len(clean['reports_inputs'])} input files")
    if count(clean, "TIMEOUT") or count(patched, "TIMEOUT"):
        print("FAIL: a solve timed out (the generator is supposed to produce stopping games)")
        return 1
    if diff:
        print("FAIL:", diff)
        return 1
    print("PASS")
    return 0


if __name__ == "__main__":
    sys.exit(main())
