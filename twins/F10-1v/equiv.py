#!/usr/bin/env python
"""Differential test for property C10 (solving leaves the description intact and is repeatable).

usage: python equiv.py <clean_repo_dir> <patched_repo_dir>

Both trees are loaded in their own subprocess (the module names collide).  Each
worker runs the same deterministic battery and writes one line per observation;
the parent compares the two transcripts line by line.

Battery (all seeded, identical in both workers):
  A  random well-formed games (three node kinds, cycles, self loops, parallel
     edges, duplicate actions, several / duplicate finals) x random histories
     of solves (pruned / unpruned, same object / fresh object, repeated), each
     with result repr, exception type+message, log transcript digest, and
     whether the caller's description (content and inner list identities) is
     untouched;  plus a step-by-step probe of the pipeline that exposes the
     node-owned transition lists after each pruning stage.
  B  malformed descriptions: exception type + message, description untouched.
  C  node level: constructors, remove_path, prune_paths,
     prune_paths_reachability, Solver.prune_states / prune_paths on random
     state lists, aliasing with the caller's list.
  D  the driver: run_games on dictionaries of games (solved, erroring, without
     solution, malformed), the dictionary afterwards, INFO / ERROR log
     transcript, the report written by save_results_to_file byte for byte, the
     small shipped input files end to end.

Non-terminating value iterations are cut deterministically: the log handler
counts records (the solver logs every iteration at DEBUG) and raises after a
fixed number of records, which happens at the same point in both trees when
the behaviour is the same.  A global timeout guards everything else.
"""
import hashlib
import os
import subprocess
import sys
import tempfile

GLOBAL_TIMEOUT = 110


# --------------------------------------------------------------------------- #
# worker
# --------------------------------------------------------------------------- #

def worker(tree, out_path):
    import copy
    import logging
    import random

    tree = os.path.abspath(tree)
    workdir = tempfile.mkdtemp(prefix="equiv_F10_")
    os.makedirs(os.path.join(workdir, "outputs"))
    os.chdir(workdir)
    sys.path.insert(0, tree)
    import tad
    import conditionalrewards as cr
    assert os.path.dirname(os.path.abspath(tad.__file__)) == tree, tad.__file__
    assert os.path.dirname(os.path.abspath(cr.__file__)) == tree, cr.__file__

    P1, P2, PR = tad.PLAYER_1, tad.PLAYER_2, tad.PROBABILISTIC
    out = open(out_path, "w")

    def emit(*parts):
        out.write(" | ".join(str(p) for p in parts).replace("\n", "\\n") + "\n")

    class Abort(Exception):
        pass

    class Recorder(logging.Handler):
        def __init__(self):
            super().__init__(level=logging.NOTSET)
            self.reset(None)

        def reset(self, cap):
            self.n = 0
            self.h = hashlib.sha1()
            self.cap = cap
            self.head = []

        def emit(self, record):
            msg = f"{record.levelno}:{record.getMessage()}"
            self.n += 1
            self.h.update(msg.encode() + b"\0")
            if self.n <= 2:
                self.head.append(msg[:60])
            if self.cap is not None and self.n > self.cap:
                raise Abort()

        def sig(self):
            return (self.n, self.h.hexdigest()[:12], self.head)

    rec = Recorder()
    root = logging.getLogger()
    root.handlers = [rec]
    # cheaper log records (documented switches); the message and level are all we look at
    logging._srcfile = None
    logging.logThreads = logging.logProcesses = logging.logMultiprocessing = False
    logging.logAsyncioTasks = False

    def guarded(fn, level=logging.DEBUG, cap=1500):
        """Run fn() with the log recorder armed; return (outcome, logsig)."""
        root.setLevel(level)
        rec.reset(cap)
        try:
            outcome = ("ok", repr(fn()))
        except Abort:
            outcome = ("abort",)
        except RecursionError:
            outcome = ("exc", "RecursionError")
        except Exception as e:  # noqa: BLE001 - type and message are the observation
            outcome = ("exc", type(e).__name__, str(e))
        return outcome, rec.sig()

    # ---------------------------------------------------------------- games
    def gen_transitions(rng, player, n, sinks, stopping, leaky=()):
        k = rng.choice([1, 1, 2, 2, 2, 3, 3, 4])
        targets = [rng.randrange(n) for _ in range(k)]
        if stopping and player != PR and leaky:
            # cycles of the two players mostly pass through a probabilistic state that leaks to a sink
            targets = [t if rng.random() < 0.15 else rng.choice(leaky) for t in targets]
        if stopping and player == PR and sinks and rng.random() < 0.9:
            targets[rng.randrange(k)] = rng.choice(sinks)
        if rng.random() < 0.15 and k > 1:
            targets[1] = targets[0]  # parallel edge
        if player == PR:
            style = rng.randrange(5)
            if k == 1:
                probs = [rng.choice([1, 1.0])]
            elif style == 0:
                probs = [1 / k] * k
            elif style == 1:
                w = [rng.randint(1, 9) for _ in range(k)]
                probs = [x / sum(w) for x in w]
            elif style == 2:
                probs = [0.5 ** (i + 1) for i in range(k)]
                probs[-1] *= 2
            elif style == 3:
                w = [rng.random() for _ in range(k)]
                probs = [x / sum(w) for x in w]
            else:
                probs = [0.0] + [1 / (k - 1)] * (k - 1)  # an explicit zero-probability branch
                rng.shuffle(probs)
            return list(zip(probs, targets))
        names = [f"{'ab'[player == P2]}{j}" for j in range(k)]
        if rng.random() < 0.12 and k > 1:
            names[1] = names[0]  # duplicated action label
        return list(zip(names, targets))

    def gen_game(rng):
        n = rng.choice([1, 2, 2, 3, 3, 4, 4, 5, 5, 6, 6, 7, 8, 10, 12])
        stopping = rng.random() < 0.8
        weights = rng.choice([(1, 1, 1), (1, 1, 3), (3, 1, 1), (1, 3, 1), (0, 0, 1), (1, 1, 0)])
        players = [rng.choices([P1, P2, PR], weights)[0] for _ in range(n)]
        rewards = [rng.choice([0, 0, 1, 2, 3, 5, 10, 0.5, 2.25]) for _ in range(n)]
        if rng.random() < 0.1:
            rewards = [0] * n
        n_final = rng.choice([1, 1, 1, 2, 2, 3])
        finals = [rng.randrange(n) for _ in range(n_final)]
        if rng.random() < 0.1:
            finals.append(finals[0])  # duplicate final
        sinks = []
        if stopping:
            sinks = sorted(set(finals))
            if n > 2 and rng.random() < 0.6:
                sinks.append(rng.randrange(n))  # a bad sink (unless it is final too)
        transition_list = []
        leaky = sinks + [i for i in range(n) if players[i] == PR and i not in sinks]
        for i in range(n):
            if i in sinks:
                players[i] = PR if rng.random() < 0.8 else players[i]
                rewards[i] = 0
                label = 1 if players[i] == PR else "stay"
                transition_list.append([(label, i)])
            else:
                transition_list.append(gen_transitions(rng, players[i], n, sinks, stopping, leaky))
        return {"rewards": rewards, "players": players,
                "transition_list": transition_list, "final_states": finals}

    def ids_of(desc):
        tl = desc["transition_list"]
        inner = tuple(id(x) for x in tl) if isinstance(tl, list) else ()
        return (id(desc["rewards"]), id(desc["players"]), id(tl), id(desc["final_states"]), inner)

    def intact(desc, before_repr, before_ids):
        return (repr(desc) == before_repr, ids_of(desc) == before_ids)

    def probe(desc, mode):
        """The pipeline of StochasticGame.solve step by step, exposing the nodes."""
        obs = []

        def nodes(tag, sl):
            obs.append((tag, [s.next_states for s in sl]))

        sg = tad.StochasticGame(desc["rewards"], desc["players"], desc["transition_list"],
                                desc["final_states"], prune_states=mode)
        sg.check_game()
        sl = sg.init_states()
        obs.append(("alias", [s.next_states is t for s, t in zip(sl, desc["transition_list"])]))
        obs.append(("types", [type(s).__name__ for s in sl], [type(s.next_states).__name__ for s in sl]))
        solver = tad.Solver(threshold=10 ** (-6), state_list=sl)
        obs.append(("floor", solver.floor, solver.threshold))
        strat, it = solver.solve_reachability(desc["transition_list"], desc["final_states"], mode)
        obs.append(("reach", strat, it, [s.reach_probability for s in sl]))
        nodes("n0", sl)
        solver.prune_reachability(strat)
        nodes("n1", sl)
        if mode:
            solver.prune_paths()
            nodes("n2", sl)
            solver.prune_states()
            nodes("n3", sl)
        fin, it2 = solver.solve_total_rewards()
        obs.append(("rew", fin, it2, [(s.expected_rewards, s.expected_rewards_min_reach,
                                       s.expected_reach_min_rewards) for s in sl]))
        nodes("n4", sl)
        return obs

    LEVELS = [logging.DEBUG, logging.INFO, logging.WARNING]

    def battery_a(seed, count):
        rng = random.Random(seed)
        terminating = []
        for case in range(count):
            desc = gen_game(rng)
            before_repr, before_ids = repr(desc), ids_of(desc)
            emit("A", case, "desc", before_repr)
            objects = {}
            steps = rng.randint(2, 5)
            aborted = set()
            all_ok = True
            for step in range(steps):
                mode = rng.random() < 0.6
                fresh = rng.random() < 0.5 or mode not in objects
                if mode in aborted:
                    continue  # do not pay the cut-off twice for the same divergence
                if fresh:
                    objects[mode] = tad.StochasticGame(
                        desc["rewards"], desc["players"], desc["transition_list"],
                        desc["final_states"], prune_states=mode)
                sg = objects[mode]
                outcome, logsig = guarded(sg.solve)
                if outcome[0] == "abort":
                    aborted.add(mode)
                if outcome[0] != "ok":
                    all_ok = False
                emit("A", case, "solve", step, mode, fresh, outcome, logsig,
                     intact(desc, before_repr, before_ids),
                     sg.count_transitions(), sg.num_states)
            for mode in (True, False):
                if mode in aborted:
                    continue
                outcome, logsig = guarded(lambda: probe(desc, mode))
                if outcome[0] == "abort":
                    aborted.add(mode)
                emit("A", case, "probe", mode, outcome, logsig, intact(desc, before_repr, before_ids))
            # quieter log levels take the `effective level` branches; only for games known to stop
            if not aborted:
                level = LEVELS[case % 3]
                for mode in (True, False, True):
                    sg = tad.StochasticGame(**copy.deepcopy(desc), prune_states=mode) \
                        if case % 2 else tad.StochasticGame(prune_states=mode, **desc)
                    outcome, logsig = guarded(sg.solve, level=level, cap=None)
                    emit("A", case, "quiet", level, mode, outcome, logsig,
                         intact(desc, before_repr, before_ids))
                if all_ok or rng.random() < 0.5:
                    terminating.append(desc)
        return terminating

    # ------------------------------------------------------------ malformed
    def mutations(rng, desc):
        n = len(desc["players"])
        tl = desc["transition_list"]
        i = rng.randrange(n)
        pr = [k for k in range(n) if desc["players"][k] == PR]
        pl = [k for k in range(n) if desc["players"][k] != PR]

        def setk(key, value):
            def f(d):
                d[key] = value
            return f

        def set_tl(idx, value):
            def f(d):
                d["transition_list"][idx] = value
            return f

        def set_entry(idx, pos, value):
            def f(d):
                d["transition_list"][idx][pos] = value
            return f

        muts = [
            ("rewards short", setk("rewards", desc["rewards"][:-1])),
            ("rewards long", setk("rewards", desc["rewards"] + [1])),
            ("rewards empty", setk("rewards", [])),
            ("rewards negative", setk("rewards", [-1] + desc["rewards"][1:])),
            ("rewards neg float", setk("rewards", desc["rewards"][:-1] + [-0.5])),
            ("rewards str", setk("rewards", ["x"] + desc["rewards"][1:])),
            ("rewards None", setk("rewards", None)),
            ("rewards tuple", setk("rewards", tuple(desc["rewards"]))),
            ("players short", setk("players", desc["players"][:-1])),
            ("players long", setk("players", desc["players"] + [PR])),
            ("players unknown", setk("players", desc["players"][:i] + ["Player 3"] + desc["players"][i + 1:])),
            ("players None entry", setk("players", desc["players"][:i] + [None] + desc["players"][i + 1:])),
            ("players list entry", setk("players", desc["players"][:i] + [[P1]] + desc["players"][i + 1:])),
            ("players lowercase", setk("players", [p.lower() for p in desc["players"]])),
            ("players empty", setk("players", [])),
            ("players swapped kind", setk("players", [PR if p != PR else P1 for p in desc["players"]])),
            ("tl short", setk("transition_list", tl[:-1])),
            ("tl long", setk("transition_list", tl + [[(1, 0)]])),
            ("tl None", setk("transition_list", None)),
            ("tl tuple", setk("transition_list", tuple(tl))),
            ("finals empty", setk("final_states", [])),
            ("finals too big", setk("final_states", [n])),
            ("finals negative", setk("final_states", [0, -1])),
            ("finals None", setk("final_states", None)),
            ("finals tuple", setk("final_states", tuple(desc["final_states"]))),
            ("finals float", setk("final_states", [float(desc["final_states"][0])])),
            ("finals str", setk("final_states", ["0"])),
            ("state empty list", set_tl(i, [])),
            ("state None", set_tl(i, None)),
            ("state tuple", set_tl(i, tuple(tl[i]))),
            ("state dict", set_tl(i, {"a": 0})),
            ("state str", set_tl(i, "ab")),
            ("state int", set_tl(i, 7)),
            ("entry list", set_entry(i, 0, list(tl[i][0]))),
            ("entry None", set_entry(i, -1, None)),
            ("entry len 3", set_entry(i, 0, tl[i][0] + (0,))),
            ("entry len 1", set_entry(i, -1, tl[i][-1][:1])),
            ("entry len 0", set_entry(i, 0, ())),
            ("idx too big", set_entry(i, -1, (tl[i][-1][0], n))),
            ("idx negative", set_entry(i, 0, (tl[i][0][0], -1))),
            ("idx float", set_entry(i, 0, (tl[i][0][0], 0.0))),
            ("idx str", set_entry(i, -1, (tl[i][-1][0], "0"))),
            ("idx None", set_entry(i, 0, (tl[i][0][0], None))),
            ("idx bool", set_entry(i, 0, (tl[i][0][0], True if n > 1 else False))),
        ]
        if pr:
            j = rng.choice(pr)
            muts += [
                ("prob str", set_entry(j, 0, ("0.5", tl[j][0][1]))),
                ("prob None", set_entry(j, -1, (None, tl[j][-1][1]))),
                ("prob bool", set_entry(j, 0, (True, tl[j][0][1]))),
                ("prob complex", set_entry(j, 0, (1j, tl[j][0][1]))),
                ("prob int 2", set_entry(j, 0, (2, tl[j][0][1]))),
            ]
        if pl:
            j = rng.choice(pl)
            muts += [
                ("action int", set_entry(j, 0, (1, tl[j][0][1]))),
                ("action None", set_entry(j, -1, (None, tl[j][-1][1]))),
                ("action bytes", set_entry(j, 0, (b"a", tl[j][0][1]))),
                ("action float", set_entry(j, 0, (0.5, tl[j][0][1]))),
                ("action empty str", set_entry(j, 0, ("", tl[j][0][1]))),
            ]
        return muts

    def battery_b(seed, count):
        rng = random.Random(seed)
        case = 0
        for g in range(count):
            base = gen_game(rng)
            muts = mutations(rng, base)
            picked = muts if g < 12 else rng.sample(muts, 8)
            for title, mutate in picked:
                desc = copy.deepcopy(base)
                mutate(desc)
                before_repr, before_ids = repr(desc), ids_of(desc)
                for mode in (True, False):
                    outcome, logsig = guarded(
                        lambda: tad.StochasticGame(prune_states=mode, **desc).solve(), cap=1500)
                    emit("B", case, title, mode, outcome, logsig, intact(desc, before_repr, before_ids))
                sg = tad.StochasticGame(**desc)
                emit("B", case, title, "count", guarded(sg.count_transitions)[0],
                     "init", guarded(lambda: [s.next_states for s in sg.init_states()])[0],
                     "check", guarded(sg.check_game)[0])
                case += 1
        # the empty game and other fixed corner cases
        corner = [
            {"rewards": [], "players": [], "transition_list": [], "final_states": []},
            {"rewards": [], "players": [], "transition_list": [], "final_states": [0]},
            {"rewards": [0], "players": [PR], "transition_list": [[(1, 0)]], "final_states": [0]},
            {"rewards": [3], "players": [P1], "transition_list": [[("a", 0)]], "final_states": [0]},
            {"rewards": [0], "players": [P2], "transition_list": [[("a", 0)]], "final_states": []},
            {"rewards": [1, 0], "players": [P1, PR], "transition_list": [[("a", 0)], [(1, 1)]],
             "final_states": [1]},
            {"rewards": [1, 0], "players": [P2, PR], "transition_list": [[("a", 0), ("b", 1)], [(1, 1)]],
             "final_states": [1]},
            {"rewards": [1, 0, 0], "players": [PR, PR, PR],
             "transition_list": [[(0.5, 1), (0.5, 2)], [(1, 1)], [(1, 2)]], "final_states": [2, 2, 1]},
        ]
        for k, desc in enumerate(corner):
            before_repr, before_ids = repr(desc), ids_of(desc)
            for mode in (True, False, True):
                outcome, logsig = guarded(
                    lambda: tad.StochasticGame(prune_states=mode, **desc).solve(), cap=1500)
                emit("B", "corner", k, mode, outcome, logsig, intact(desc, before_repr, before_ids))

    # ----------------------------------------------------------- node level
    def battery_c(seed, count):
        rng = random.Random(seed)
        classes = {P1: tad.PlayerOne, P2: tad.PlayerTwo, PR: tad.ProbabilisticNode}
        for case in range(count):
            n = rng.randint(1, 6)
            player = rng.choice([P1, P2, PR])
            caller = gen_transitions(rng, player, n, [], False)
            before = repr(caller)
            node = classes[player](player=player, idx=rng.randrange(n), reward=rng.choice([0, 1, 2.5]),
                                   next_states=caller, num_states=n, is_final_node=rng.random() < 0.3)
            emit("C", case, "new", type(node).__name__, sorted(vars(node).items(), key=lambda kv: kv[0]),
                 node.next_states is caller, type(node.next_states).__name__)
            twin = classes[player](player, node.idx, node.reward, list(caller), n, node.is_final_node)
            emit("C", case, "eq", node == twin, guarded(node.check_next_states)[0])
            if player != P2:
                pick = rng.random()
                if pick < 0.7:
                    victim = rng.choice(caller)
                elif pick < 0.85:
                    victim = (caller[0][0], n + 3)
                else:
                    victim = rng.choice([None, (), caller[0] + (1,)])
                for round_ in range(2):
                    outcome = guarded(lambda: node.remove_path(victim))[0]
                    emit("C", case, "remove", round_, victim, outcome, node.next_states,
                         repr(caller) == before, node == twin)
            if player == P1:
                actions = sorted({a for a, _ in caller})
                best = rng.sample(actions, rng.randint(0, len(actions)))
                if rng.random() < 0.2:
                    best.append("zz")
                outcome = guarded(lambda: node.prune_paths_reachability(best))[0]
                emit("C", case, "keepbest", best, outcome, node.next_states, repr(caller) == before)

        # constructors and check_next_states on arbitrary (mostly malformed) arguments
        entries = [(0.5, 0), (1, 1), ("a", 0), ("b", 1), (0.5, 7), ("a", -1), (None, 0), (0.5, None),
                   ("a", "0"), (0.5, 1.0), (True, 0), ("a", True), (), (1,), (0.5, 0, 0), [0.5, 0],
                   None, "ab", 3, (b"a", 0), (1j, 0), ("", 0), (float("nan"), 1), (2, 2)]
        for case in range(count):
            player = rng.choice([P1, P2, PR, P1, P2, PR, "Player 3", None, "player 1", [P1], 1])
            cls = rng.choice(list(classes.values()))
            n = rng.choice([0, 1, 2, 3, 8, 2.5, float("nan"), None, True])
            pick = rng.random()
            if pick < 0.8:
                caller = [rng.choice(entries) for _ in range(rng.randint(0, 4))]
            else:
                caller = rng.choice([None, (), ((0.5, 0),), {}, "ab", 0, {(0.5, 0)}])
            before = repr(caller)
            holder = {}

            def build():
                holder["n"] = cls(player=player, idx=0, reward=1, next_states=caller,
                                  num_states=n, is_final_node=False)
                return sorted(vars(holder["n"]).items(), key=lambda kv: kv[0])

            emit("C", case, "ctor", cls.__name__, repr(player), repr(n), before, guarded(build)[0],
                 repr(caller) == before)
            if "n" in holder:
                node = holder["n"]
                emit("C", case, "ctor-alias", node.next_states is caller, node.next_states == caller)
                node.next_states = rng.choice([caller, None, [rng.choice(entries)], tuple(caller)])
                emit("C", case, "recheck", repr(node.next_states), guarded(node.check_next_states)[0],
                     repr(node.next_states))

        # pruning on whole state lists with arbitrary reach probabilities
        for case in range(count):
            desc = gen_game(rng)
            before_repr, before_ids = repr(desc), ids_of(desc)
            sl = tad.StochasticGame(**desc).init_states()
            zero_rate = rng.choice([0.0, 0.2, 0.5, 0.8, 1.0])
            for s in sl:
                s.reach_probability = 0 if rng.random() < zero_rate else rng.choice([1, 0.5, 1e-9, 0.25])
            solver = tad.Solver(sl)
            order = rng.choice(["paths,states", "states", "states,paths,states", "game", "game,game"])
            for stage in order.split(","):
                fn = {"paths": solver.prune_paths, "states": solver.prune_states,
                      "game": solver.prune_stochastich_game}[stage]
                outcome = guarded(fn)[0]
                emit("C", case, "prune", order, stage, outcome, [s.next_states for s in sl],
                     intact(desc, before_repr, before_ids))
            if rng.random() < 0.3:
                # hand-made emptiness: player-one states without moves, unreachable chains
                for s in sl:
                    if rng.random() < 0.3:
                        s.next_states = []
                outcome = guarded(solver.prune_states)[0]
                emit("C", case, "prune-holes", outcome, [s.next_states for s in sl])

    # --------------------------------------------------------------- driver
    class FakeTime:
        def __init__(self):
            self.now = 1000.0
            self.calls = 0

        def time(self):
            self.calls += 1
            self.now += 0.25
            return self.now

    def battery_d(seed, pool, count):
        rng = random.Random(seed)
        no_solution = {"rewards": [1, 0, 0], "players": [P1, PR, PR],
                       "transition_list": [[("a", 1)], [(1, 1)], [(1, 2)]], "final_states": [2]}
        for case in range(count):
            games = {}
            for k in range(rng.randint(0, 4)):
                pick = rng.random()
                if pick < 0.6 and pool:
                    g = copy.deepcopy(rng.choice(pool))
                elif pick < 0.75:
                    g = copy.deepcopy(no_solution)
                else:
                    g = copy.deepcopy(rng.choice(pool)) if pool else copy.deepcopy(no_solution)
                    title, mutate = rng.choice(mutations(rng, g))
                    mutate(g)
                if rng.random() < 0.2:
                    g["prune_states"] = rng.choice([True, False, None])
                if rng.random() < 0.04:
                    g["bogus"] = 1
                if rng.random() < 0.03:
                    g = rng.choice([None, [], 5])
                games[rng.choice(["g", "game", "x/y", "päper 5.5"]) + str(k)] = g
            before = repr(games)
            fake = FakeTime()
            cr.time = fake
            level = rng.choice([logging.INFO, logging.WARNING, logging.ERROR, logging.INFO])
            holder = {}

            def run():
                holder["r"] = cr.run_games(games)
                return holder["r"]

            outcome, logsig = guarded(run, level=level, cap=None)
            emit("D", case, "run", before, outcome, logsig, fake.calls, repr(games))
            if "r" in holder:
                fname = rng.choice(["inputs/case.py", "case", "a/b/c.d.e", "case.txt"])
                outcome, _ = guarded(lambda: cr.save_results_to_file(holder["r"], fname), level=level, cap=None)
                written = {}
                for f in sorted(os.listdir("outputs")):
                    with open(os.path.join("outputs", f), "rb") as fh:
                        written[f] = fh.read()
                    os.remove(os.path.join("outputs", f))
                emit("D", case, "save", fname, outcome, hashlib.sha1(repr(written).encode()).hexdigest(),
                     {k: (len(v), v[:200]) for k, v in written.items()})
                # a damaged result table: the report must break at the same byte
                broken = copy.deepcopy(holder["r"])
                if broken:
                    victim = rng.choice(sorted(broken))
                    broken[victim].pop(rng.choice(sorted(broken[victim])))
                    outcome, _ = guarded(lambda: cr.save_results_to_file(broken, "broken.py"), cap=None)
                    data = open("outputs/broken.txt", "rb").read() if os.path.exists("outputs/broken.txt") else None
                    emit("D", case, "save-broken", outcome, None if data is None else
                         (len(data), hashlib.sha1(data).hexdigest()))
                    if data is not None:
                        os.remove("outputs/broken.txt")

        # shipped inputs end to end (the small ones)
        shipped = ["example_17_08.py", "paper_games.py", "example_games.py", "manual_1_game_a.py",
                   "manual_arrow_bottom.py", "robot_1_w1_l2_r6_rb10_lb5_tb10_lt0.py",
                   "robot_1_w2_l1_r6_rb10_lb5_tb10_lt0.py", "robot_1_w2_l2_r6_rb10_lb5_tb10_lt0.py",
                   "robot_999132423_w3_l3_r6_rb1_lb2_tb10_lt30.py"]
        for name in shipped:
            path = os.path.join(tree, "inputs", name)
            fake = FakeTime()
            cr.time = fake
            holder = {}

            def run():
                holder["d"] = cr.read_dict_from_file(path)
                holder["before"] = repr(holder["d"])
                holder["r"] = cr.run_games(holder["d"])
                cr.save_results_to_file(holder["r"], path)
                return holder["r"]

            outcome, logsig = guarded(run, level=logging.INFO, cap=None)
            with open(os.path.join("outputs", name[:-3] + ".txt"), "rb") as fh:
                data = fh.read()
            emit("D", "file", name, hashlib.sha1(repr(outcome).encode()).hexdigest(), logsig, fake.calls,
                 hashlib.sha1(data).hexdigest(), len(data), hashlib.sha1(repr(holder.get("d")).encode()).hexdigest())
            # solving the very same (already used) dictionary again must give the same report
            outcome2, logsig2 = guarded(lambda: cr.run_games(holder["d"]), level=logging.INFO, cap=None)
            emit("D", "file-again", name, hashlib.sha1(repr(outcome2).encode()).hexdigest(), logsig2)

        # set_logger / parser surface
        for level in [None, "", "x", "INFO"]:
            emit("D", "set_logger", level, guarded(lambda: cr.set_logger(level), cap=None)[0])
        root.handlers = [rec]
        emit("D", "parser", sorted(vars(cr.init_parser().parse_args(["-f", "x", "-s"])).items()))

    pool = battery_a(20241, 700)
    battery_b(20242, 60)
    battery_c(20243, 500)
    battery_d(20244, pool, 160)
    out.close()


# --------------------------------------------------------------------------- #
# parent
# --------------------------------------------------------------------------- #

def main():
    if len(sys.argv) == 4 and sys.argv[1] == "--worker":
        worker(sys.argv[2], sys.argv[3])
        return 0
    if len(sys.argv) != 3:
        print(__doc__)
        return 2
    trees = [os.path.abspath(p) for p in sys.argv[1:3]]
    tmp = tempfile.mkdtemp(prefix="equiv_F10_out_")
    outs = [os.path.join(tmp, f"transcript_{k}.txt") for k in (0, 1)]
    procs = []
    for k, (tree, out) in enumerate(zip(trees, outs)):
        env = dict(os.environ)
        env["PYTHONHASHSEED"] = str(11 + 17 * k)  # behaviour must not depend on hash order either
        env["PYTHONDONTWRITEBYTECODE"] = "1"
        env.pop("PYTHONPATH", None)
        procs.append(subprocess.Popen(
            [sys.executable, os.path.abspath(__file__), "--worker", tree, out],
            env=env, stdout=subprocess.PIPE, stderr=subprocess.PIPE, text=True))
    failed = False
    for k, p in enumerate(procs):
        try:
            so, se = p.communicate(timeout=GLOBAL_TIMEOUT)
        except subprocess.TimeoutExpired:
            p.kill()
            so, se = p.communicate()
            print(f"DIFFERENT: worker for {trees[k]} did not finish within {GLOBAL_TIMEOUT}s")
            failed = True
            continue
        if p.returncode != 0:
            print(f"DIFFERENT: worker for {trees[k]} crashed (exit {p.returncode}):\n{se[-3000:]}")
            failed = True
    if failed:
        for q in procs:
            if q.poll() is None:
                q.kill()
        return 1
    with open(outs[0]) as a, open(outs[1]) as b:
        la, lb = a.read().split("\n"), b.read().split("\n")
    for i, (x, y) in enumerate(zip(la, lb)):
        if x != y:
            j = next((c for c, (p, q) in enumerate(zip(x, y)) if p != q), min(len(x), len(y)))
            print(f"DIFFERENT at observation {i} (column {j}):")
            print("  clean  :", x[:200], "..." if len(x) > 200 else "")
            print("  patched:", y[:200], "..." if len(y) > 200 else "")
            print("  clean   near diff:", x[max(0, j - 150):j + 250])
            print("  patched near diff:", y[max(0, j - 150):j + 250])
            return 1
    if len(la) != len(lb):
        print(f"DIFFERENT: transcripts have {len(la)} vs {len(lb)} observations")
        return 1
    print(f"SAME ({len(la) - 1} observations)")
    return 0


if __name__ == "__main__":
    sys.exit(main())
