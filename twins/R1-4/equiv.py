#!/usr/bin/env python
"""
Behavioural equivalence check for two checkouts of the conditional-rewards tool.

    /venv/bin/python equiv.py <repo-root-A> <repo-root-B>

Each root is exercised in its own subprocess (so the two `tad` modules never
share an interpreter).  The worker prints one line per observation
("<case id>\t<repr of result>"); the parent compares the two transcripts and
prints SAME (exit 0) or the first difference (exit 1).

Observations:
  * node level  - every public/private method of ProbabilisticNode, PlayerOne
                  and PlayerTwo on hand written and seeded random state lists
                  (ties, int/float mixtures, rounding borders, empty transition
                  lists, bogus arguments -> exception type + message);
  * solver level - the full pipeline (reachability, strategy pruning, dead
                  branch pruning, total rewards) on hand written games, the
                  small files in inputs/, ~400 seeded random stopping games and
                  a collection of malformed games, with and without pruning,
                  dumping the conditioned transition lists as well;
  * driver level - conditionalrewards.run_games + save_results_to_file in a
                  temporary directory (the timing line is dropped).
"""
import os
import subprocess
import sys
import tempfile

FOCUS = "shared successor_of helper; PlayerOne/PlayerTwo value_iteration_rewards"


# --------------------------------------------------------------------------- #
# worker
# --------------------------------------------------------------------------- #

def worker(root):
    import copy
    import random
    import signal

    root = os.path.abspath(root)
    sys.path.insert(0, root)
    import tad
    from tad import (PLAYER_1, PLAYER_2, PROBABILISTIC, PlayerOne, PlayerTwo,
                     ProbabilisticNode, Solver, StochasticGame)

    out = sys.stdout

    def emit(case, value):
        out.write(f"{case}\t{value!r}\n")

    class _Timeout(Exception):
        pass

    def _on_alarm(signum, frame):
        raise _Timeout()

    signal.signal(signal.SIGALRM, _on_alarm)

    def guarded(fn, *args, seconds=0, **kwargs):
        """Result of the call, or a description of the exception it raised."""
        try:
            if seconds:
                signal.alarm(seconds)
            try:
                return ("ok", fn(*args, **kwargs))
            finally:
                if seconds:
                    signal.alarm(0)
        except _Timeout:
            return ("timeout",)
        except Exception as exc:  # noqa: BLE001 - the exception IS the observation
            return ("exc", type(exc).__name__, str(exc))

    # ------------------------------------------------------------------ #
    # node level
    # ------------------------------------------------------------------ #
    CLASSES = {PLAYER_1: PlayerOne, PLAYER_2: PlayerTwo, PROBABILISTIC: ProbabilisticNode}
    VALUE_POOL = [0, 0.0, 1, 1.0, 0.5, 0.25, 0.75, 0.5000004, 0.5000006, 0.4999996,
                  0.49999949, 1e-7, 4e-7, 6e-7, 1e-9, 0.3333333333, 1 / 3, 2 / 3, 0.1 + 0.2, 0.3,
                  2, 2.0, 3, 5 / 3, 7.25, 10, 10.0000004, 9.9999996, 100, 1e6, 0.999999, 0.9999996]
    WEIRD_POOL = VALUE_POOL + [-1, -0.5, -0.0, -1e-7, 1.5, float("inf")]
    ACTIONS = ["a", "b", "c", "d", "alfa", "beta", ""]

    def build_state_list(rng, n, weird):
        pool = WEIRD_POOL if weird else VALUE_POOL
        nodes = []
        for idx in range(n):
            kind = rng.choice([PLAYER_1, PLAYER_2, PROBABILISTIC])
            degree = rng.randint(1, 5)
            if kind == PROBABILISTIC:
                if rng.random() < 0.5:
                    weights = [rng.choice([1, 1, 2, 3, 4]) for _ in range(degree)]
                    total = sum(weights)
                    probs = [w / total for w in weights]
                else:
                    probs = [rng.choice([0.5, 0.25, 0.1, 0.2, 0.3, 1, 0.125, 0.075, 0, 1 / 3])
                             for _ in range(degree)]
                    if weird and rng.random() < 0.3:
                        probs[rng.randrange(degree)] = rng.choice([-0.5, 1.0, 2, 1e-12])
                transitions = [(p, rng.randrange(n)) for p in probs]
            else:
                if rng.random() < 0.85:
                    names = rng.sample(ACTIONS, degree)
                else:
                    names = [rng.choice(ACTIONS) for _ in range(degree)]  # duplicates allowed
                transitions = [(a, rng.randrange(n)) for a in names]
            node = CLASSES[kind](player=kind, idx=idx, reward=rng.choice([0, 1, 2, 5 / 3, 3, 10, 0.5]),
                                 next_states=transitions, num_states=n,
                                 is_final_node=rng.random() < 0.25)
            nodes.append(node)
        tie_heavy = rng.random() < 0.5
        small = rng.sample(pool, 3)
        for node in nodes:
            src = small if tie_heavy else pool
            if rng.random() < 0.8:
                node.reach_probability = rng.choice(src)
            node.expected_rewards = rng.choice(src)
            node.expected_rewards_min_reach = rng.choice(src)
            node.expected_reach_min_rewards = rng.choice(src)
            if rng.random() < 0.07:
                node.next_states = []
        return nodes

    def snapshot(nodes):
        return [(n.player, n.idx, n.reward, list(n.next_states), n.is_final_node,
                 n.reach_probability, n.expected_rewards, n.expected_rewards_min_reach,
                 n.expected_reach_min_rewards) for n in nodes]

    def exercise_node(case, nodes, i, rng):
        """Run every method of nodes[i]; mutating ones run on private copies."""
        def fresh():
            cp = copy.deepcopy(nodes)
            return cp, cp[i]

        node = nodes[i]
        emit(f"{case}/reach", guarded(node.value_iteration_reach, nodes))
        emit(f"{case}/rewards", guarded(node.value_iteration_rewards, nodes))
        for floor in (6, 2, 0, 9):
            for name in ("get_best_strategies_reachability", "get_best_strategies_total_rewards",
                         "get_worst_strategies_reachability", "get_worst_strategies_total_rewards"):
                if hasattr(node, name):
                    emit(f"{case}/{name}/{floor}", guarded(getattr(node, name), nodes, floor))
        own_actions = [t[0] for t in node.next_states]
        if hasattr(node, "_expected_rewards_min_reach"):
            candidates = [[], None, own_actions, own_actions[:1], own_actions[-1:], ["zzz"],
                          ["zzz"] + own_actions[1:2], tuple(own_actions), set(map(str, own_actions))]
            for k, strategies in enumerate(candidates):
                emit(f"{case}/min_reach/{k}", guarded(node._expected_rewards_min_reach, nodes, strategies))
            for k in range(3):
                strategies = [a for a in own_actions if rng.random() < 0.5]
                emit(f"{case}/min_reach/r{k}", guarded(node._expected_rewards_min_reach, nodes, strategies))
        if hasattr(node, "prune_paths_reachability"):
            candidates = [[], own_actions, own_actions[:1], own_actions[::-1], own_actions[1:], ["zzz"],
                          own_actions + own_actions, tuple(own_actions), None]
            candidates += [[a for a in own_actions if rng.random() < 0.5] for _ in range(3)]
            for k, best in enumerate(candidates):
                cp, me = fresh()
                res = guarded(me.prune_paths_reachability, best)
                emit(f"{case}/prune_reach/{k}", (res, me.next_states, snapshot(cp)))
        if hasattr(node, "prune_paths"):
            cp, me = fresh()
            before = me.next_states
            res = guarded(me.prune_paths, cp)
            emit(f"{case}/prune_paths", (res, me.next_states, before, snapshot(cp)))
        if hasattr(node, "remove_path"):
            targets = list(node.next_states) + [("zzz", 0), (0.123, 0), None, (0.5,), 7]
            for k, target in enumerate(targets):
                cp, me = fresh()
                before = me.next_states
                res = guarded(me.remove_path, target)
                emit(f"{case}/remove/{k}", (res, me.next_states, before is me.next_states, before))
        emit(f"{case}/untouched", snapshot(nodes))

    def node_level():
        # hand written: the fixtures of the unit tests and a few border cases
        def prob(idx, reward, nxt, n, final=False):
            return ProbabilisticNode(PROBABILISTIC, idx, reward, nxt, n, final)

        def p1(idx, reward, nxt, n, final=False):
            return PlayerOne(PLAYER_1, idx, reward, nxt, n, final)

        def p2(idx, reward, nxt, n, final=False):
            return PlayerTwo(PLAYER_2, idx, reward, nxt, n, final)

        hand = {
            "simple": [prob(0, 1, [(0.5, 1), (0.5, 2)], 3), prob(1, 2, [(1, 1)], 3, True), prob(2, 3, [(1, 2)], 3)],
            "allprob": [prob(0, 1, [(0.5, 1), (0.2, 2), (0.3, 3)], 4), prob(1, 2, [(1, 1)], 4),
                        prob(2, 2, [(1, 2)], 4, True), prob(3, 3, [(1, 3)], 4)],
            "p1start": [p1(0, 1, [("a", 1), ("b", 2)], 3), prob(1, 2, [(1, 1)], 3, True), prob(2, 3, [(1, 2)], 3)],
            "p2start": [p2(0, 1, [("a", 1), ("b", 2)], 3), prob(1, 2, [(1, 1)], 3, True), prob(2, 1, [(1, 2)], 3)],
            "twofinal": [p1(0, 1, [("a", 1), ("b", 2)], 3), prob(1, 2, [(1, 1)], 3, True), prob(2, 2, [(1, 2)], 3, True)],
            "fig55": [p1(0, 0, [("alfa", 1), ("beta", 2)], 8), p2(1, 2, [("x", 3)], 8), p2(2, 5 / 3, [("x", 4)], 8),
                      prob(3, 0, [(1 / 2, 5), (1 / 2, 6)], 8), prob(4, 0, [(3 / 4, 6), (1 / 4, 7)], 8),
                      prob(5, 0, [(1, 5)], 8), prob(6, 0, [(1, 6)], 8, True), prob(7, 0, [(1, 7)], 8)],
            "redistrib": [prob(0, 0, [(0.5, 1), (0.5, 5)], 6), p1(1, 2, [("epsilon", 2)], 6),
                          p2(2, 3, [("beta", 3), ("alfa", 4)], 6), p1(3, 4, [("delta", 4), ("gamma", 5)], 6),
                          prob(4, 0, [(1, 4)], 6), prob(5, 0, [(1, 5)], 6, True)],
            "alldead": [p1(0, 1, [("a", 1), ("b", 2), ("c", 1)], 3), prob(1, 0, [(0.3, 1), (0.7, 2)], 3),
                        p2(2, 0, [("a", 1), ("b", 2)], 3)],
            "manydead": [prob(0, 1, [(0.1, 1), (0.2, 2), (0.3, 3), (0.15, 1), (0.25, 4)], 5),
                         p1(1, 0, [("a", 1)], 5), p2(2, 0, [("x", 2)], 5, True), p1(3, 1, [("a", 1), ("b", 2), ("c", 4), ("d", 1)], 5),
                         prob(4, 0, [(1, 4)], 5, True)],
        }
        for name, nodes in hand.items():
            rng = random.Random(name)
            for i in range(len(nodes)):
                exercise_node(f"node/hand/{name}/{i}", nodes, i, rng)
            # same lists after one synchronous sweep of value iteration for reachability
            for n in nodes:
                n.reach_probability = n.value_iteration_reach(nodes) if not n.is_final_node else 1
            for i in range(len(nodes)):
                exercise_node(f"node/hand2/{name}/{i}", nodes, i, rng)

        for seed in range(400):
            rng = random.Random(1000 + seed)
            nodes = build_state_list(rng, rng.randint(1, 7), weird=(seed % 4 == 3))
            for i in range(len(nodes)):
                exercise_node(f"node/rand/{seed}/{i}", nodes, i, rng)

    # ------------------------------------------------------------------ #
    # solver level
    # ------------------------------------------------------------------ #
    def pipeline(game, prune):
        """The steps of StochasticGame.solve, dumping the conditioned game too."""
        game = copy.deepcopy(game)
        sg = StochasticGame(prune_states=prune, **game)
        obs = {"n_transitions": guarded(sg.count_transitions)}
        sg.check_game()
        state_list = sg.init_states()
        solver = Solver(threshold=10 ** (-6), state_list=state_list)
        reach_strategies, it_reach = solver.solve_reachability(sg.transition_list, sg.final_states, prune)
        obs["reach_strategies"] = reach_strategies
        obs["it_reach"] = it_reach
        obs["probabilities"] = [s.reach_probability for s in state_list]
        solver.prune_reachability(reach_strategies)
        obs["after_strategy_pruning"] = [list(s.next_states) for s in state_list]
        if prune:
            solver.prune_stochastich_game()
        obs["conditioned"] = [list(s.next_states) for s in state_list]
        final_strategies, it_rew = solver.solve_total_rewards()
        obs["final_strategies"] = final_strategies
        obs["it_rew"] = it_rew
        obs["nodes"] = snapshot(state_list)
        obs["input_untouched"] = (game == {k: v for k, v in sg.__dict__.items() if k in game})
        return sorted(obs.items())

    def solve(game, prune):
        sg = StochasticGame(prune_states=prune, **copy.deepcopy(game))
        return sg.solve()

    def run_game(case, game, seconds=20):
        for prune in (True, False):
            emit(f"{case}/prune={prune}/solve", guarded(solve, game, prune, seconds=seconds))
            emit(f"{case}/prune={prune}/pipeline", guarded(pipeline, game, prune, seconds=seconds))

    def random_stopping_game(rng):
        n = rng.randint(2, 11)
        n_sinks = rng.randint(1, min(3, n - 1))
        first_sink = n - n_sinks
        players, transitions, rewards = [], [], []
        nice = rng.random() < 0.6
        for i in range(first_sink):
            kind = rng.choice([PLAYER_1, PLAYER_2, PROBABILISTIC])
            forward = list(range(i + 1, n))
            if kind == PROBABILISTIC:
                degree = rng.randint(1, 4)
                targets = [rng.choice(forward)]
                for _ in range(degree - 1):
                    targets.append(rng.randrange(n) if rng.random() < 0.4 else rng.choice(forward))
                rng.shuffle(targets)
                if nice:
                    weights = [rng.choice([1, 1, 1, 2, 3]) for _ in targets]
                else:
                    weights = [rng.random() + 0.05 for _ in targets]
                total = sum(weights)
                trans = [(w / total, t) for w, t in zip(weights, targets)]
            else:
                degree = rng.randint(1, 4)
                if rng.random() < 0.9:
                    names = rng.sample(["a", "b", "c", "d", "e"], degree)
                else:
                    names = [rng.choice(["a", "b"]) for _ in range(degree)]
                trans = [(a, rng.choice(forward)) for a in names]
            players.append(kind)
            transitions.append(trans)
            rewards.append(rng.choice([0, 1, 1, 2, 3, 5]) if nice else rng.choice([0, 1, 2.5, 5 / 3, rng.random() * 4]))
        finals = []
        for i in range(first_sink, n):
            kind = rng.choice([PLAYER_1, PLAYER_2, PROBABILISTIC])
            players.append(kind)
            transitions.append([(1, i)] if kind == PROBABILISTIC else [("stay", i)])
            rewards.append(0)
            if rng.random() < 0.55:
                finals.append(i)
        if not finals and rng.random() < 0.9:
            finals.append(n - 1)
        if first_sink > 1 and rng.random() < 0.1:
            finals.append(rng.randrange(1, first_sink))   # a final state that is not absorbing
        rng.shuffle(finals)
        return {"rewards": rewards, "players": players, "transition_list": transitions, "final_states": finals}

    def solver_level():
        P, A, B = PROBABILISTIC, PLAYER_1, PLAYER_2
        fig55 = {"players": [A, B, B, P, P, P, P, P], "rewards": [0, 2, 5 / 3, 0, 0, 0, 0, 0], "final_states": [6],
                 "transition_list": [[("alfa", 1), ("beta", 2)], [("x", 3)], [("x", 4)], [(0.5, 5), (0.5, 6)],
                                     [(0.75, 6), (0.25, 7)], [(1, 5)], [(1, 6)], [(1, 7)]]}
        fig55_same = copy.deepcopy(fig55)
        fig55_same["transition_list"][4] = [(0.5, 6), (0.5, 7)]
        redistrib = {"players": [P, A, B, A, P, P], "rewards": [0, 2, 3, 4, 0, 0], "final_states": [5],
                     "transition_list": [[(0.5, 1), (0.5, 5)], [("epsilon", 2)], [("beta", 3), ("alfa", 4)],
                                         [("delta", 4), ("gamma", 5)], [(1, 4)], [(1, 5)]]}
        hand = {
            "fig55": fig55, "fig55_same": fig55_same, "redistrib": redistrib,
            "no_solution": {"players": [A, P, P], "rewards": [1, 0, 0], "final_states": [2],
                            "transition_list": [[("a", 1)], [(1, 1)], [(1, 2)]]},
            "initial_final": {"players": [P], "rewards": [0], "final_states": [0], "transition_list": [[(1, 0)]]},
            "many_dead": {"players": [P, A, P, P, B, P], "rewards": [1, 2, 0, 0, 3, 0], "final_states": [5],
                          "transition_list": [[(0.1, 2), (0.2, 1), (0.3, 3), (0.15, 2), (0.25, 4)],
                                              [("a", 2), ("b", 5), ("c", 3), ("d", 5), ("e", 4)],
                                              [(1, 2)], [(1, 3)], [("x", 5), ("y", 2), ("z", 1)], [(1, 5)]]},
            "p2_ties": {"players": [B, A, A, P, P, P], "rewards": [1, 2, 2, 0, 0, 0], "final_states": [4],
                        "transition_list": [[("l", 1), ("r", 2), ("m", 3)], [("a", 3), ("b", 4)], [("a", 4), ("b", 3)],
                                            [(0.5, 4), (0.5, 5)], [(1, 4)], [(1, 5)]]},
            "loop": {"players": [A, P, B, P, P], "rewards": [10, 0, 5, 0, 0], "final_states": [4],
                     "transition_list": [[("go", 1), ("alt", 2)], [(0.8, 4), (0.1, 0), (0.1, 3)],
                                         [("g1", 1), ("g2", 3), ("g3", 4)], [(1, 3)], [(1, 4)]]},
        }
        for name, game in hand.items():
            run_game(f"solve/hand/{name}", game)

        bad = {
            "none_transitions": {"players": [P, P, P], "rewards": [0, 0, 0], "final_states": [2],
                                 "transition_list": [None, [(1, 2)], [(1, 2)]]},
            "short_rewards": {"players": [P, P, P], "rewards": [0, 0], "final_states": [2],
                              "transition_list": [[(1, 1)], [(1, 2)], [(1, 2)]]},
            "short_players": {"players": [P, P], "rewards": [0, 0, 0], "final_states": [2],
                              "transition_list": [[(1, 2)], [(1, 2)], [(1, 2)]]},
            "short_transitions": {"players": [P, P, P], "rewards": [0, 0, 0], "final_states": [2],
                                  "transition_list": [[(1, 1)], [(1, 2)]]},
            "negative_reward": {"players": [P, P, P], "rewards": [-10, 0, 0], "final_states": [2],
                                "transition_list": [[(1, 1)], [(1, 2)], [(1, 2)]]},
            "final_low": {"players": [P, P, P], "rewards": [0, 0, 0], "final_states": [-1],
                          "transition_list": [[(1, 1)], [(1, 2)], [(1, 2)]]},
            "final_high": {"players": [P, P, P], "rewards": [0, 0, 0], "final_states": [3],
                           "transition_list": [[(1, 1)], [(1, 2)], [(1, 2)]]},
            "no_final": {"players": [P, P, P], "rewards": [0, 0, 0], "final_states": [],
                         "transition_list": [[(1, 1)], [(1, 2)], [(1, 2)]]},
            "player3": {"players": [P, P, "Player 3"], "rewards": [0, 0, 0], "final_states": [2],
                        "transition_list": [[(1, 1)], [(1, 2)], [(1, 2)]]},
            "tuples_not_lists": {"players": [P, P, P], "rewards": [0, 0, 0], "final_states": [2],
                                 "transition_list": [(1, 1), (1, 2), (1, 2)]},
            "ints_not_tuples": {"players": [P, P, P], "rewards": [0, 0, 0], "final_states": [2],
                                "transition_list": [[1, 2, 3], [1, 2], [1, 2]]},
            "triples": {"players": [P, P, P], "rewards": [0, 0, 0], "final_states": [2],
                        "transition_list": [[(1, 1, 4)], [(1, 2, 2)], [(1, 2, 3)]]},
            "action_not_str": {"players": [B, P, P], "rewards": [0, 0, 0], "final_states": [2],
                               "transition_list": [[(1, 1)], [(1, 2)], [(1, 2)]]},
            "prob_not_number": {"players": [P, P, P], "rewards": [0, 0, 0], "final_states": [2],
                                "transition_list": [[("alfa", 1)], [(1, 2)], [(1, 2)]]},
            "target_not_int": {"players": [P, P, P], "rewards": [0, 0, 0], "final_states": [2],
                               "transition_list": [[(1, "1")], [(1, 2)], [(1, 2)]]},
            "target_out_of_range": {"players": [P, P, P], "rewards": [0, 0, 0], "final_states": [2],
                                    "transition_list": [[(1, 10)], [(1, 2)], [(1, 2)]]},
            "empty_transitions": {"players": [A, P, P], "rewards": [0, 0, 0], "final_states": [2],
                                  "transition_list": [[], [(1, 2)], [(1, 2)]]},
            "negative_probability": {"players": [A, P, B, P], "rewards": [1, 0, 5, 0], "final_states": [3],
                                     "transition_list": [[("a", 1)], [(-1.0, 2), (2.0, 3)], [("x", 3)], [(1, 3)]]},
            "substochastic": {"players": [P, A, P, P], "rewards": [1, 2, 0, 0], "final_states": [3],
                              "transition_list": [[(0.3, 1), (0.3, 2), (0.2, 3)], [("a", 2), ("b", 3)], [(1, 2)], [(0.5, 3)]]},
            "zero_probability_edge": {"players": [P, A, P, P], "rewards": [1, 2, 0, 0], "final_states": [3],
                                      "transition_list": [[(0, 1), (1, 2)], [("a", 2), ("b", 3)], [(0.0, 3), (1.0, 2)], [(1, 3)]]},
            "only_zero_mass_survives": {"players": [P, P, P], "rewards": [1, 0, 0], "final_states": [2],
                                        "transition_list": [[(1, 1), (0, 2)], [(1, 1)], [(1, 2)]]},
            "duplicate_actions": {"players": [A, B, P, P], "rewards": [1, 2, 0, 0], "final_states": [3],
                                  "transition_list": [[("a", 1), ("a", 2), ("b", 3)], [("x", 2), ("x", 3)], [(1, 2)], [(1, 3)]]},
            "bool_probability": {"players": [P, P], "rewards": [1, 0], "final_states": [1],
                                 "transition_list": [[(True, 1)], [(True, 1)]]},
        }
        for name, game in bad.items():
            run_game(f"solve/bad/{name}", game, seconds=10)

        for seed in range(400):
            rng = random.Random(50000 + seed)
            run_game(f"solve/rand/{seed}", random_stopping_game(rng))

    # ------------------------------------------------------------------ #
    # driver level
    # ------------------------------------------------------------------ #
    def driver_level():
        import conditionalrewards as cr
        inputs = os.path.join(root, "inputs")
        workdir = tempfile.mkdtemp(prefix="equiv_driver_")
        os.makedirs(os.path.join(workdir, "outputs"))
        os.chdir(workdir)
        for fname in sorted(os.listdir(inputs)):
            path = os.path.join(inputs, fname)
            if not fname.endswith(".py") or os.path.getsize(path) > 12000:
                continue

            def run():
                games = cr.read_dict_from_file(path)
                results = cr.run_games(games)
                cr.save_results_to_file(results, path)
                with open(os.path.join("outputs", fname.split(".")[0] + ".txt")) as fh:
                    lines = [ln for ln in fh.read().split("\n") if not ln.startswith("Total time")]
                for res in results.values():
                    res.pop("total_time")
                return results, lines
            emit(f"driver/{fname}", guarded(run, seconds=120))
        emit("driver/files", sorted(os.listdir(os.path.join(workdir, "outputs"))))

    node_level()
    solver_level()
    driver_level()
    out.flush()


# --------------------------------------------------------------------------- #
# parent
# --------------------------------------------------------------------------- #

def transcript(root):
    with tempfile.TemporaryDirectory(prefix="equiv_cwd_") as cwd:
        env = dict(os.environ, PYTHONDONTWRITEBYTECODE="1", PYTHONHASHSEED="0")
        proc = subprocess.run([sys.executable, os.path.abspath(__file__), "--worker", os.path.abspath(root)],
                              cwd=cwd, env=env, capture_output=True, text=True)
    if proc.returncode != 0:
        return None, proc.stderr
    return proc.stdout.split("\n"), proc.stderr


def main(argv):
    if len(argv) == 3 and argv[1] == "--worker":
        worker(argv[2])
        return 0
    if len(argv) != 3:
        print("usage: equiv.py <repo-root-A> <repo-root-B>")
        return 2
    lines_a, err_a = transcript(argv[1])
    lines_b, err_b = transcript(argv[2])
    if lines_a is None or lines_b is None:
        print("DIFFERENT: worker crashed")
        print("A stderr:", (err_a or "")[-2000:])
        print("B stderr:", (err_b or "")[-2000:])
        return 1
    for k, (la, lb) in enumerate(zip(lines_a, lines_b)):
        if la != lb:
            print(f"DIFFERENT at observation {k}:")
            print("A:", la[:3000])
            print("B:", lb[:3000])
            return 1
    if len(lines_a) != len(lines_b):
        print(f"DIFFERENT: {len(lines_a)} observations for A, {len(lines_b)} for B")
        return 1
    print(f"SAME ({len(lines_a) - 1} observations, focus: {FOCUS})")
    return 0


if __name__ == "__main__":
    sys.exit(main(sys.argv))
