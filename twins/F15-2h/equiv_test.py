#!/usr/bin/env python
"""
Equivalence test for property C15 (random boards are reproducible, in range and
honour their parameters; out-of-range parameter sets are refused with ValueError
before anything is written).

usage: python equiv_test.py <path-to-patched-root> <path-to-clean-root>

Both trees are loaded in separate subprocesses (this same file, run with --worker),
each in its own scratch working directory, and asked for the same observations:

  boards   gen_rnd_board(...) for several hundred parameter sets (boundaries included),
           the value of random.random() right after the call, and the outcome of calls
           outside the accepted ranges (exception type and message);
  checks   check_input(...) on a grid that puts every parameter on, just inside and just
           outside each of its bounds (exception type and message, or "accepted");
  mains    main() run in-process with sys.argv set: exception or, for accepted sets, the
           names and the bytes of everything that appeared under inputs/;
  cli      "python roberta_generator.py ..." as a real process: exit status, last line of
           stderr, stdout, content of inputs/;
  manual   stochastic_game_from_roborta_board.create_sg_from_board on fixed boards;
  repo     the committed inputs/robot_*.py whose names give all their parameters are
           regenerated (compared between the trees, and with the committed file).

The new option (--count / -n, check_input(..., count=1), gen_rnd_boards) exists in the
patched tree only, so it is compared with what the clean tree does WITHOUT it:

  batch    "main -s S -n K ..." in the patched tree against K runs "main -s S+i ..." of the
           clean tree in one folder: same files, same bytes (K >= 1); for K <= 0 the patched
           tree must raise ValueError and write nothing - with the clean tree's message when
           another parameter is out of range too (the older checks come first);
  count    check_input(*args, count) against the clean check_input(*args) in the same way;
  lazy     gen_rnd_boards(...) consumed lazily with foreign random draws between two boards
           against gen_rnd_board of the clean tree for each seed.
(The -h output legitimately differs - it lists the new option - and is not compared.)

On top of the comparison the patched tree's boards are checked against the property
itself (sizes, ranges, flags, arrows, a down-only tile in each row exactly under
force_down, loose-tile frequency on large boards, same board when asked twice).

Prints PASS and exits 0 when nothing differs, prints FAIL (and what differs) and exits 1
otherwise.
"""
import hashlib
import json
import os
import random as _random
import subprocess
import sys
import tempfile


# --------------------------------------------------------------------------- worker

def _outcome(fun, *args, **kwargs):
    try:
        return {"ok": fun(*args, **kwargs)}
    except SystemExit as exc:  # argparse
        return {"exit": repr(exc.code)}
    except BaseException as exc:  # noqa - we want to compare whatever happens
        return {"exc": type(exc).__name__, "msg": str(exc)}


def _snapshot(folder):
    found = {}
    for base, _dirs, files in os.walk(folder):
        for name in sorted(files):
            path = os.path.join(base, name)
            with open(path, "rb") as handle:
                data = handle.read()
            found[os.path.relpath(path, folder)] = [len(data), hashlib.sha256(data).hexdigest()]
    return found


def _fresh_dir(scratch, counter=[0]):
    counter[0] += 1
    path = os.path.join(scratch, "run%05d" % counter[0])
    os.makedirs(os.path.join(path, "inputs"))
    return path


def worker(root, cases_path, out_path, is_patched):
    import io
    import contextlib
    import random
    sys.path.insert(0, root)
    import roberta_generator as gen
    import stochastic_game_from_roborta_board as manual

    with open(cases_path) as handle:
        cases = json.load(handle)
    scratch = tempfile.mkdtemp(prefix="c15_worker_")
    result = {}

    def board(case):
        args = list(case["args"])
        kwargs = dict(case.get("kwargs", {}))
        out = _outcome(gen.gen_rnd_board, *args, **kwargs)
        if "ok" in out:
            got = out["ok"]
            out = {"ok": [list(map(list, part)) for part in got],
                   "len": len(got),
                   "eq_tuple": got == (got[0], got[1], got[2]),
                   "is_tuple": isinstance(got, tuple),
                   "types": sorted({type(v).__name__ for part in got for row in part for v in row}),
                   "next": random.random()}
        return out

    result["boards"] = [board(case) for case in cases["boards"]]
    # the same board when asked again, with other boards generated in between
    result["boards_again"] = [board(case) for case in reversed(cases["boards"])][::-1]

    result["checks"] = [_outcome(gen.check_input, *args) for args in cases["checks"]]
    result["checks_kw"] = [_outcome(gen.check_input, **kw) for kw in cases["checks_kw"]]

    mains = []
    for argv in cases["mains"]:
        folder = _fresh_dir(scratch)
        os.chdir(folder)
        old_argv = sys.argv
        sys.argv = ["roberta_generator.py"] + [str(a) for a in argv]
        stdout, stderr = io.StringIO(), io.StringIO()
        try:
            with contextlib.redirect_stdout(stdout), contextlib.redirect_stderr(stderr):
                out = _outcome(gen.main)
        finally:
            sys.argv = old_argv
            os.chdir(scratch)
        if "ok" in out:
            out = {"ok": None}
        out["files"] = _snapshot(folder)
        out["stdout"] = stdout.getvalue()
        out["stderr_tail"] = stderr.getvalue().strip().splitlines()[-1:]
        mains.append(out)
    result["mains"] = mains

    clis = []
    for argv in cases["cli"]:
        folder = _fresh_dir(scratch)
        proc = subprocess.run(
            [sys.executable, os.path.join(root, "roberta_generator.py")] + [str(a) for a in argv],
            cwd=folder, capture_output=True, text=True)
        clis.append({"status": proc.returncode, "stdout": proc.stdout,
                     "stderr_tail": proc.stderr.strip().splitlines()[-1:],
                     "files": _snapshot(folder)})
    # no inputs/ directory at all: the run fails, nothing is created
    folder = os.path.join(scratch, "noinputs")
    os.makedirs(folder)
    proc = subprocess.run([sys.executable, os.path.join(root, "roberta_generator.py"), "-s", "3"],
                          cwd=folder, capture_output=True, text=True)
    clis.append({"status": proc.returncode, "stdout": proc.stdout,
                 "stderr_tail": proc.stderr.strip().splitlines()[-1:],
                 "files": _snapshot(folder)})
    result["cli"] = clis

    manuals = []
    for case in cases["manual"]:
        folder = _fresh_dir(scratch)
        os.chdir(folder)
        try:
            out = _outcome(manual.create_sg_from_board, *case)
        finally:
            os.chdir(scratch)
        out["files"] = _snapshot(folder)
        manuals.append(out)
    result["manual"] = manuals

    repo = []
    for case in cases["repo"]:
        folder = _fresh_dir(scratch)
        os.chdir(folder)
        old_argv = sys.argv
        sys.argv = ["roberta_generator.py"] + [str(a) for a in case["argv"]]
        try:
            out = _outcome(gen.main)
        finally:
            sys.argv = old_argv
            os.chdir(scratch)
        files = _snapshot(folder)
        committed = os.path.join(root, "inputs", case["name"])
        with open(committed, "rb") as handle:
            data = handle.read()
        repo.append({"files": files,
                     "same_as_committed":
                         files.get(os.path.join("inputs", case["name"])) ==
                         [len(data), hashlib.sha256(data).hexdigest()]})
    result["repo"] = repo

    def run_main(argv, folder):
        os.chdir(folder)
        old_argv = sys.argv
        sys.argv = ["roberta_generator.py"] + [str(a) for a in argv]
        try:
            with contextlib.redirect_stdout(io.StringIO()) as out, \
                    contextlib.redirect_stderr(io.StringIO()):
                outcome = _outcome(gen.main)
        finally:
            sys.argv = old_argv
            os.chdir(scratch)
        outcome["stdout"] = out.getvalue()
        return outcome

    batches = []
    for k, case in enumerate(cases["batch"]):
        folder = _fresh_dir(scratch)
        seed, count = case["seed"], case["count"]
        returned = None
        if is_patched:
            flag = "-n" if k % 2 else "--count"
            outcome = run_main(case["argv"] + ["-s", seed, flag, count], folder)
            if "ok" in outcome:
                returned = outcome["ok"]
                outcome["ok"] = None
        else:
            for one in range(seed, seed + max(count, 1)):
                outcome = run_main(case["argv"] + ["-s", one], folder)
                if "ok" not in outcome:
                    break
        batches.append({"outcome": outcome, "files": _snapshot(folder), "returned": returned})
    result["batch"] = batches

    counts = []
    for case in cases["count"]:
        args = case["args"] + ([case["count"]] if is_patched else [])
        counts.append(_outcome(gen.check_input, *args))
    if is_patched:
        counts.append(_outcome(gen.check_input, *cases["count"][0]["args"], count=0))
        counts.append(_outcome(gen.check_input, *cases["count"][0]["args"], count=3))
    result["count"] = counts

    lazy = []
    for case in cases["lazy"]:
        seed, count, rest = case["seed"], case["count"], case["rest"]
        if is_patched:
            got = []
            for board_seed, board_ in gen.gen_rnd_boards(seed, count, *rest):
                random.seed("foreign")          # somebody else uses the global generator
                random.random()
                got.append([board_seed, [list(map(list, part)) for part in board_]])
        else:
            got = [[one, [list(map(list, part)) for part in gen.gen_rnd_board(one, *rest)]]
                   for one in range(seed, seed + count)]
        lazy.append(got)
    result["lazy"] = lazy

    with open(out_path, "w") as handle:
        json.dump(result, handle)


# --------------------------------------------------------------------------- cases

def make_cases(clean_root):
    rnd = _random.Random(20241004)
    probs = [0.3, 0.1, 0.5, 1e-12, 1e-3, 0.004, 0.005, 0.0051, 0.995, 0.999999, 1 - 2.0 ** -53,
             5e-324, 0.25, 0.75]
    seeds = [0, 1, 2, 40, 41, 47, 51, 999132423, 2 ** 31 - 1, 2 ** 32, 2 ** 64 + 5, 10 ** 30]
    sizes = [1, 1, 2, 3, 4, 5, 7, 10]

    boards = []
    for seed in seeds[:8]:
        for length, width in [(1, 1), (1, 2), (2, 1), (1, 9), (9, 1), (3, 3), (5, 5), (10, 20)]:
            for force_down in (False, True):
                boards.append({"args": [seed, length, width, 0.3, 6, force_down]})
    for _ in range(400):
        args = [rnd.choice(seeds) if rnd.random() < 0.3 else rnd.randrange(0, 10 ** 6),
                rnd.choice(sizes), rnd.choice(sizes), rnd.choice(probs),
                rnd.choice([1, 1, 2, 3, 6, 6, 10, 30, 52, 53, 60, 1021, 1022, 1023, 1100]),
                rnd.random() < 0.5]
        boards.append({"args": args})
    # defaults of max_reward / force_down, keywords, truthy and falsy flags that are not bools
    boards.append({"args": [5, 3, 4, 0.3]})
    boards.append({"args": [5, 3, 4, 0.3, 2]})
    boards.append({"args": [], "kwargs": {"seed": 7, "length": 2, "width": 3, "prob_loose_tile": 0.4,
                                          "max_reward": 3, "force_down": True}})
    for flag in [0, 1, 2, "", "yes", None]:
        boards.append({"args": [11, 3, 3, 0.3, 6, flag]})
    # large boards for the frequency check
    boards.append({"args": [123, 60, 50, 0.3, 6, False], "freq": 0.3})
    boards.append({"args": [124, 50, 60, 0.05, 4, True], "freq": 0.05})
    boards.append({"args": [125, 40, 80, 0.9, 1, True], "freq": 0.9})
    # calls that check_input would have refused (gen_rnd_board itself does not check)
    for args in [[3, 0, 3, 0.3, 6, False], [3, 0, 3, 0.3, 6, True], [3, 3, 0, 0.3, 6, False],
                 [3, 3, 0, 0.3, 6, True], [3, -1, 3, 0.3, 6, True], [3, 3, -2, 0.3, 6, True],
                 [3, 2, 2, 0.0, 6, True], [3, 2, 2, 1.0, 6, False], [3, 2, 2, 0.3, 0, True],
                 [3, 2, 2, 0.3, -1, False], [3, 2, 2, 0.3, -3, True], [-4, 2, 2, 0.3, 6, True],
                 [3, 2, 2, 0.3, 2.5, True], [3, 2, 2, 0.3, "6", False], [3, 0, 2, 0.3, "6", False],
                 [3, 2, 0, 0.3, "6", True], [3, 2, 2, "0.3", 6, False], [3, 2.0, 2, 0.3, 6, False],
                 [3, 2, 2.0, 0.3, 6, True], ["seed", 2, 2, 0.3, 6, True],
                 [1.5, 2, 2, 0.3, 6, False], [3, 2, 2, 0.3, 5000, False]]:
        boards.append({"args": args, "outside": True})

    # check_input(seed, width, length, prob_robot_break, prob_light_break, prob_loose_tile,
    #             prob_tile_break, max_reward)
    good = [0, 1, 1, 0.5, 0.5, 0.5, 0.5, 1]
    edge = {
        0: [-2, -1, 0, 1, 2 ** 70, -2 ** 70, True, False],
        1: [-1, 0, 1, 2, 10 ** 9, True, False],
        2: [-1, 0, 1, 2, 10 ** 9, True, False],
        7: [-1, 0, 1, 2, 10 ** 9, True, False, 0.5],
    }
    pvals = [-1.0, -5e-324, -0.0, 0.0, 0, 5e-324, 1e-300, 0.5, 1 - 2.0 ** -53, 1.0, 1, 1 + 2.0 ** -52,
             2.0, float("inf"), float("-inf"), float("nan"), True, False]
    for k in (3, 4, 5, 6):
        edge[k] = pvals
    checks = [list(good)]
    for k, values in edge.items():
        for value in values:
            args = list(good)
            args[k] = value
            checks.append(args)
    # several parameters wrong at once: the first failing check decides the message
    for _ in range(300):
        args = list(good)
        for k in rnd.sample(range(8), rnd.randrange(2, 5)):
            args[k] = rnd.choice(edge[k])
        checks.append(args)
    # wrong types
    for k in range(8):
        for value in ["1", None, [1]]:
            args = list(good)
            args[k] = value
            checks.append(args)
    names = ["seed", "width", "length", "prob_robot_break", "prob_light_break", "prob_loose_tile",
             "prob_tile_break", "max_reward"]
    checks_kw = [dict(zip(names, args)) for args in checks[:40]]
    checks_kw.append(dict(zip(names[:-1], good[:-1])))        # one missing -> TypeError

    def argv_of(seed, width, length, rb, lb, tb, lt, mr, fd, long_names=False):
        if long_names:
            argv = ["--seed", seed, "--width", width, "--length", length, "--prob_robot_break", rb,
                    "--prob_light_break", lb, "--prob_tile_break", tb, "--prob_loose_tile", lt,
                    "--max_reward", mr]
            return argv + (["--force_down"] if fd else [])
        argv = ["-s", seed, "-w", width, "-l", length, "-p", rb, "-q", lb, "-r", tb, "-t", lt, "-m", mr]
        return argv + (["-f"] if fd else [])

    mains = [[], ["-f"], ["-s", 1], ["-s", 1, "-f"], ["-w", 1, "-l", 1], ["-w", 1, "-l", 1, "-f"],
             ["-w", 1, "-l", 7, "-f"], ["-w", 7, "-l", 1, "-f"], ["-m", 1], ["-m", 1, "-f"]]
    cli_probs = [0.1, 0.3, 0.5, 0.001, 0.004, 0.005, 0.0149, 0.015, 0.025, 0.985, 0.995, 0.9951,
                 0.999999, 1e-9, 0.05]
    for n in range(260):
        mains.append(argv_of(rnd.choice(seeds) if rnd.random() < 0.3 else rnd.randrange(0, 10 ** 5),
                             rnd.choice(sizes), rnd.choice(sizes), rnd.choice(cli_probs),
                             rnd.choice(cli_probs), rnd.choice(cli_probs), rnd.choice(cli_probs),
                             rnd.choice([1, 2, 6, 6, 9, 40]), rnd.random() < 0.5,
                             long_names=(n % 3 == 0)))
    # every range check on and around its bound, one at a time, then several at once
    base = dict(seed=4, width=2, length=2, rb=0.1, lb=0.1, tb=0.1, lt=0.3, mr=6, fd=False)
    bad_values = {"seed": [-1, 0, -10 ** 20], "width": [0, -1, 1], "length": [0, -1, 1],
                  "mr": [0, -1, 1],
                  "rb": [0, 0.0, 1, 1.0, -0.1, 1.1, "nan", "inf", "-inf", 1e-320, 0.9999999999999999],
                  "lb": [0, 1, -0.5, 2, "nan", 1e-320], "tb": [0, 1, -0.5, 2, "nan", 1e-320],
                  "lt": [0, 1, -0.5, 2, "nan", 1e-320]}
    for key, values in bad_values.items():
        for value in values:
            for fd in (False, True):
                params = dict(base, fd=fd)
                params[key] = value
                mains.append(argv_of(**params))
    for _ in range(60):
        params = dict(base, fd=rnd.random() < 0.5)
        for key in rnd.sample(sorted(bad_values), rnd.randrange(2, 4)):
            params[key] = rnd.choice(bad_values[key])
        mains.append(argv_of(**params))
    # refused by argparse itself
    mains += [["-s", "abc"], ["-w", "2.5"], ["-p", "x"], ["--nonsense"], ["-f", "1"], ["extra"]]

    cli = [[], ["-f"], ["-s", 47, "-w", 5, "-l", 5], ["-s", 47, "-w", 5, "-l", 5, "-f"],
           ["-s", 1, "-w", 1, "-l", 2, "-q", 0.05, "-t", 0.001], ["-w", 1, "-l", 1, "-f"],
           ["-s", -1], ["-w", 0], ["-l", 0], ["-m", 0], ["-p", 0], ["-p", 1], ["-q", 0], ["-q", 1.0],
           ["-r", 0.0], ["-r", 1], ["-t", 0], ["-t", 1], ["-t", "nan"], ["-s", "x"],
           ["--seed", 999132423, "-p", 0.01, "-q", 0.02, "--force_down"]]

    manual = [
        [[[1, 0, 2], [1, 1, 1]], [[0, 3, 1], [2, 0, 0]], [[0, 1, 0], [1, 0, 0]], 0.1, 0.05, 0.2],
        [[[3, 0, 2], [1, 3, 1]], [[0, 3, 1], [2, 0, 5]], [[0, 1, 0], [1, 0, 1]], 0.1, 0.1, 0.1],
        [[[1]], [[0]], [[1]], 0.5, 0.5, 0.5],
        [[[3]], [[2]], [[0]], 0.015, 0.025, 0.995],
    ]

    repo = []
    for name in sorted(os.listdir(os.path.join(clean_root, "inputs"))):
        parts = name[:-3].split("_")
        if not (name.startswith("robot_") and name.endswith(".py") and parts[1].isdigit()):
            continue
        fd = name.endswith("_force_down.py")
        try:
            fields = {"w": None, "l": None, "r": None, "rb": None, "lb": None, "tb": None, "lt": None}
            for part in parts[2:9]:
                key = part.rstrip("0123456789")
                fields[key] = int(part[len(key):])
        except (ValueError, KeyError):
            continue
        if any(v is None for v in fields.values()) or 0 in (fields["rb"], fields["lb"], fields["tb"],
                                                           fields["lt"]):
            continue    # the probability cannot be recovered from a name that says 0
        repo.append({"name": name,
                     "argv": argv_of(int(parts[1]), fields["w"], fields["l"], fields["rb"] / 100,
                                     fields["lb"] / 100, fields["tb"] / 100, fields["lt"] / 100,
                                     fields["r"], fd)})
    def common(width, length, rb, lb, tb, lt, mr, fd):
        return argv_of(0, width, length, rb, lb, tb, lt, mr, fd)[2:]

    batch = []
    for count in [1, 2, 3, 5, 17]:
        for fd in (False, True):
            batch.append({"argv": ["-f"] if fd else [], "seed": 0, "count": count})
            batch.append({"argv": common(1, 1, 0.1, 0.1, 0.1, 0.3, 1, fd), "seed": 2 ** 40, "count": count})
    for _ in range(120):
        batch.append({"argv": common(rnd.choice(sizes), rnd.choice(sizes), rnd.choice(cli_probs),
                                     rnd.choice(cli_probs), rnd.choice(cli_probs), rnd.choice(cli_probs),
                                     rnd.choice([1, 2, 6, 9]), rnd.random() < 0.5),
                      "seed": rnd.choice([0, 1, 46, 99, 10 ** 12, rnd.randrange(10 ** 6)]),
                      "count": rnd.choice([1, 1, 2, 3, 4, 8])})
    # refused batches: the count itself, another parameter, both; negative first seed
    for count in [0, -1, -5, 1, 2, 3]:
        batch.append({"argv": [], "seed": 3, "count": count} if count <= 0 else
                     {"argv": [], "seed": -1, "count": count})
        batch.append({"argv": [], "seed": -count - 1, "count": count})   # would "reach" seed 0
        for key, values in bad_values.items():
            if key == "seed":
                continue
            params = dict(base, fd=count % 2 == 0)
            params[key] = values[0]
            batch.append({"argv": argv_of(**params)[2:], "seed": 5, "count": count})
        batch.append({"argv": ["-t", "nan"], "seed": 5, "count": count})
    for _ in range(40):
        params = dict(base, fd=rnd.random() < 0.5)
        for key in rnd.sample(sorted(set(bad_values) - {"seed"}), rnd.randrange(1, 3)):
            params[key] = rnd.choice(bad_values[key])
        batch.append({"argv": argv_of(**params)[2:], "seed": rnd.choice([-3, 0, 8]),
                      "count": rnd.choice([-2, 0, 1, 2, 4])})

    count_cases = [{"args": list(good), "count": c} for c in [1, 2, 10 ** 9, 0, -1, -10 ** 9, True, False]]
    for args in checks:
        count_cases.append({"args": args, "count": rnd.choice([-1, 0, 1, 2, 7])})

    lazy = [{"seed": s_, "count": c_, "rest": [l_, w_, p_, m_, f_]}
            for s_, c_, l_, w_, p_, m_, f_ in [
                (0, 1, 3, 3, 0.3, 6, False), (0, 4, 3, 3, 0.3, 6, True), (46, 3, 1, 1, 0.5, 1, True),
                (10 ** 12, 5, 2, 7, 0.999999, 30, True), (7, 6, 7, 1, 1e-12, 2, False),
                (7, 0, 2, 2, 0.3, 6, False), (7, -3, 2, 2, 0.3, 6, True)]]
    lazy.append({"seed": 9, "count": 2, "rest": [2, 2, 0.3]})        # defaults of the new function

    return {"boards": boards, "checks": checks, "checks_kw": checks_kw, "mains": mains, "cli": cli,
            "manual": manual, "repo": repo, "batch": batch, "count": count_cases, "lazy": lazy}


# --------------------------------------------------------------------------- property on the patched tree

def property_violations(cases, patched):
    problems = []
    for case, out, again in zip(cases["boards"], patched["boards"], patched["boards_again"]):
        if out != again:
            problems.append("not reproducible: %r" % (case,))
        if case.get("outside") or "ok" not in out:
            if not case.get("outside"):
                problems.append("accepted parameters raised: %r -> %r" % (case, out))
            continue
        args = case["args"] + [6, False][len(case["args"]) - 4:] if case["args"] else \
            [case["kwargs"][k] for k in ("seed", "length", "width", "prob_loose_tile", "max_reward",
                                         "force_down")]
        _seed, length, width, _prob, max_reward, force_down = args
        moves, rewards, loose = out["ok"]
        for part in (moves, rewards, loose):
            if len(part) != length or any(len(row) != width for row in part):
                problems.append("wrong size: %r" % (case,))
        if out["types"] != ["int"] or out["len"] != 3 or not out["eq_tuple"] or not out["is_tuple"]:
            problems.append("wrong types/shape of the result: %r %r" % (case, out["types"]))
        if any(not 0 <= v <= max_reward for row in rewards for v in row):
            problems.append("reward out of range: %r" % (case,))
        if any(v not in (0, 1) for row in loose for v in row):
            problems.append("loose flag out of range: %r" % (case,))
        allowed = (0, 1, 2, 3) if force_down else (0, 1, 2)
        if any(v not in allowed for row in moves for v in row):
            problems.append("arrow outside the allowed set: %r" % (case,))
        if force_down and any(3 not in row for row in moves):
            problems.append("row without a down-only tile: %r" % (case,))
        if "freq" in case:
            flat = [v for row in loose for v in row]
            freq = sum(flat) / len(flat)
            sigma = (case["freq"] * (1 - case["freq"]) / len(flat)) ** 0.5
            if abs(freq - case["freq"]) > 5 * sigma:
                problems.append("loose-tile frequency %.4f far from %.4f: %r" % (freq, case["freq"], case))
    # refused parameter sets leave nothing behind, accepted ones exactly one file under inputs/
    for argv, out in zip(cases["mains"], patched["mains"]):
        if out.get("exc") == "ValueError" and out["files"]:
            problems.append("written although refused: %r" % (argv,))
        if "ok" in out and len(out["files"]) != 1:
            problems.append("accepted but %d files: %r" % (len(out["files"]), argv))
    return problems


COUNT_MESSAGE = "The number of boards must be a positive integer"


def new_option_violations(cases, patched, clean):
    problems = []
    for case, new, old in zip(cases["batch"], patched["batch"], clean["batch"]):
        count = case["count"]
        if count >= 1:
            if new["outcome"] != old["outcome"] or new["files"] != old["files"]:
                problems.append("batch differs from %d single runs: %r\n   %.300r\n   %.300r" % (
                    count, case, new, old))
            if "ok" in new["outcome"] and sorted(new["returned"]) != sorted(new["files"]):
                problems.append("main() does not return the names it wrote: %r" % (case,))
            if "ok" in new["outcome"] and len(new["files"]) != count:
                problems.append("%d files for a batch of %d: %r" % (len(new["files"]), count, case))
        else:
            if "ok" in old["outcome"] or old["outcome"].get("exc") != "ValueError" or \
                    "NaN" in old["outcome"].get("msg", ""):
                # everything else is fine (or is only found out later): the count is what is refused
                expected = {"exc": "ValueError", "msg": COUNT_MESSAGE}
            else:
                expected = {"exc": "ValueError", "msg": old["outcome"]["msg"]}
            got = {k: v for k, v in new["outcome"].items() if k in ("exc", "msg")}
            if got != expected:
                problems.append("count %d not refused as expected: %r -> %r" % (count, case, new))
        if "exc" in new["outcome"] and new["files"] and count <= 1:
            problems.append("files written although refused: %r" % (case,))
        if new["outcome"].get("exc") == "ValueError" and new["files"]:
            problems.append("files written although refused with ValueError: %r" % (case,))
        if new["outcome"].get("stdout") != old["outcome"].get("stdout"):
            problems.append("stdout differs: %r" % (case,))
    n = len(cases["count"])
    for case, new, old in zip(cases["count"], patched["count"][:n], clean["count"]):
        if "exc" in old:
            expected = old
        elif case["count"] <= 0:
            expected = {"exc": "ValueError", "msg": COUNT_MESSAGE}
        else:
            expected = {"ok": None}
        if new != expected:
            problems.append("check_input with count: %r -> %r, expected %r" % (case, new, expected))
    if patched["count"][n:] != [{"exc": "ValueError", "msg": COUNT_MESSAGE}, {"ok": None}]:
        problems.append("check_input(count=...) by keyword: %r" % (patched["count"][n:],))
    return problems


# --------------------------------------------------------------------------- driver

def run_worker(root, cases_path, scratch, tag):
    out_path = os.path.join(scratch, tag + ".json")
    proc = subprocess.run([sys.executable, os.path.abspath(__file__), "--worker", root, cases_path,
                           out_path, tag], capture_output=True, text=True, cwd=scratch)
    if proc.returncode != 0:
        print("FAIL: worker for %s crashed\n%s\n%s" % (tag, proc.stdout[-2000:], proc.stderr[-4000:]))
        sys.exit(1)
    with open(out_path) as handle:
        return json.load(handle)


def main():
    if len(sys.argv) == 6 and sys.argv[1] == "--worker":
        worker(sys.argv[2], sys.argv[3], sys.argv[4], sys.argv[5] == "patched")
        return 0
    if len(sys.argv) != 3:
        print(__doc__)
        return 2
    patched_root, clean_root = (os.path.abspath(p) for p in sys.argv[1:3])
    scratch = tempfile.mkdtemp(prefix="c15_equiv_")
    cases = make_cases(clean_root)
    cases_path = os.path.join(scratch, "cases.json")
    with open(cases_path, "w") as handle:
        json.dump(cases, handle)
    patched = run_worker(patched_root, cases_path, scratch, "patched")
    clean = run_worker(clean_root, cases_path, scratch, "clean")

    differences = []
    for section in sorted((set(patched) | set(clean)) - {"batch", "count"}):
        left, right = patched.get(section), clean.get(section)
        if left == right:
            continue
        inputs = cases.get(section.replace("_again", "").replace("checks_kw", "checks_kw"), [])
        for k, (a, b) in enumerate(zip(left, right)):
            # NaN != NaN would be a false difference; json keeps NaN as float('nan')
            if a != b and json.dumps(a, sort_keys=True) != json.dumps(b, sort_keys=True):
                differences.append("%s[%d] input=%r\n    patched=%.600r\n    clean  =%.600r" % (
                    section, k, inputs[k] if k < len(inputs) else None, a, b))
        if len(left) != len(right):
            differences.append("%s: %d vs %d observations" % (section, len(left), len(right)))

    problems = property_violations(cases, patched)
    problems += new_option_violations(cases, patched, clean)

    accepted = sum(1 for out in patched["mains"] if "ok" in out)
    refused = sum(1 for out in patched["mains"] if out.get("exc") == "ValueError")
    print("boards: %d   check_input grid: %d   main() runs: %d (%d accepted, %d ValueError, %d other)"
          "   cli runs: %d   manual: %d   batches: %d   count checks: %d   lazy: %d" % (
              len(cases["boards"]), len(cases["checks"]) + len(cases["checks_kw"]), len(cases["mains"]),
              accepted, refused, len(cases["mains"]) - accepted - refused, len(patched["cli"]),
              len(cases["manual"]), len(cases["batch"]), len(cases["count"]), len(cases["lazy"])))
    print("committed inputs regenerated: %d, identical to the committed file: %d (patched) / %d (clean)" % (
        len(cases["repo"]), sum(r["same_as_committed"] for r in patched["repo"]),
        sum(r["same_as_committed"] for r in clean["repo"])))
    for line in differences[:40]:
        print("DIFFERENCE " + line)
    for line in problems[:40]:
        print("PROPERTY " + line)
    if differences or problems:
        print("FAIL (%d differences, %d property violations)" % (len(differences), len(problems)))
        return 1
    print("PASS")
    return 0


if __name__ == "__main__":
    sys.exit(main())
