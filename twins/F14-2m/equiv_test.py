#!/usr/bin/env python
"""
Behavioural equivalence test for property C14 (cross-objective diagnostics:
solve()[6] 'probabilities under minimal reward' and solve()[7] 'rewards under
minimal reachability', report lines 'Probabilities min rew'/'Rewards min reach').

usage:  python equiv_test.py <path-to-patched-root> <path-to-clean-root>

Each tree is loaded in its own subprocess (the "worker"), which runs a
deterministic battery and writes one line per observation.  The parent
compares the two transcripts line by line: PASS / exit 0 when identical.

Battery (all seeded, no wall-clock dependence in the recorded data):
  A. ~420 random well-formed games x both pruning modes through
     StochasticGame.solve(): repr of the full 8-tuple or exception type+message,
     a checksum of every logging.debug message (i.e. the whole trajectory of
     both value iterations) and a check that the input description is not
     mutated.  Iterations are bounded by a deterministic budget (counting the
     "iteration N" debug messages), because non-stopping games do not converge.
  B. the same pipeline driven by hand (check_game, init_states, Solver steps)
     with a dump of every node after every stage, several thresholds.
  C. node-level fuzzing: hand-made state lists with arbitrary field values
     (ties, negatives, nan, ints/floats), each node's value_iteration_rewards,
     PlayerTwo._expected_rewards_min_reach with arbitrary strategies (empty,
     non matching, list/tuple/set), the strategy getters, Node construction.
  D. boundary / malformed games.
  E. the batch driver and the report writer on the small shipped inputs and on
     generated dictionaries (result dicts without the time, report files).
"""
import json
import math
import os
import random
import subprocess
import sys
import tempfile
import zlib

ITERATION_BUDGET = 250
WALL_CLOCK_LIMIT = 20.0


# --------------------------------------------------------------------------- #
# worker side
# --------------------------------------------------------------------------- #

class BudgetExceeded(BaseException):
    pass


class WallClock(BaseException):
    pass


class DebugTap:
    """Replaces logging.debug: checksums every message, bounds the iterations."""

    def __init__(self):
        self.reset()

    def reset(self, budget=ITERATION_BUDGET):
        self.crc = 0
        self.count = 0
        self.iterations = 0
        self.budget = budget

    def __call__(self, msg, *args, **kwargs):
        text = str(msg)
        self.crc = zlib.crc32(text.encode("utf-8", "replace"), self.crc)
        self.count += 1
        if text.startswith("iteration "):
            self.iterations += 1
            if self.iterations > self.budget:
                raise BudgetExceeded()


def outcome(fn, tap=None):
    """repr of the result, or the exception type and message."""
    import signal

    def on_alarm(signum, frame):
        raise WallClock()

    if tap is not None:
        tap.reset(tap.budget)
    signal.signal(signal.SIGALRM, on_alarm)
    signal.setitimer(signal.ITIMER_REAL, WALL_CLOCK_LIMIT)
    try:
        try:
            result = "OK " + repr(fn())
        except BudgetExceeded:
            result = "BUDGET"
        except WallClock:
            result = "WALLCLOCK"
        except Exception as exc:  # noqa
            result = f"EXC {type(exc).__name__}: {exc}"
    finally:
        signal.setitimer(signal.ITIMER_REAL, 0)
    if tap is not None:
        result += f" | dbg={tap.count}/{tap.iterations}/{tap.crc:08x}"
    return result


def random_probabilities(rnd, k):
    style = rnd.random()
    if k == 1:
        return [1] if style < 0.7 else [1.0]
    if style < 0.4:
        weights = [rnd.randint(1, 6) for _ in range(k)]
        total = sum(weights)
        return [w / total for w in weights]
    if style < 0.7:
        cuts = sorted(rnd.sample(range(1, 16), k - 1))
        parts = [b - a for a, b in zip([0] + cuts, cuts + [16])]
        return [p / 16 for p in parts]
    if style < 0.85:
        tiny = rnd.choice([1e-9, 1e-6, 1e-3, 0.01])
        rest = [(1 - tiny) / (k - 1)] * (k - 1)
        probs = [tiny] + rest
        rnd.shuffle(probs)
        return probs
    weights = [rnd.random() + 0.01 for _ in range(k)]
    total = sum(weights)
    return [w / total for w in weights]


def random_game(rnd, wild=None):
    """A random well-formed game description (dict of constructor arguments)."""
    P1, P2, PR = "Player 1", "Player 2", "Probabilistic"
    n = rnd.randint(2, 10)
    n_abs = rnd.randint(1, min(3, n - 1))
    first_abs = n - n_abs
    if wild is None:
        wild = rnd.random() < 0.3
    reward_style = rnd.random()
    players, transitions, rewards = [], [], []
    for idx in range(n):
        if idx >= first_abs:
            kind = rnd.random()
            if kind < 0.8:
                players.append(PR)
                transitions.append([(1, idx)])
            elif kind < 0.9:
                players.append(P1)
                transitions.append([("stay", idx)])
            else:
                players.append(P2)
                transitions.append([("stay", idx)])
            rewards.append(0 if rnd.random() < 0.93 else rnd.randint(1, 3))
            continue
        player = rnd.choice([P1, P2, PR, PR]) if idx else rnd.choice([P1, P2, PR])
        players.append(player)
        forward = list(range(idx + 1, n))
        anywhere = list(range(n))
        k = rnd.randint(1, 3)
        if player == PR:
            targets = [rnd.choice(forward)]
            pool = anywhere
            while len(targets) < k:
                targets.append(rnd.choice(pool))
            if rnd.random() < 0.8:
                targets = list(dict.fromkeys(targets))
            rnd.shuffle(targets)
            probs = random_probabilities(rnd, len(targets))
            transitions.append(list(zip(probs, targets)))
        else:
            pool = anywhere if wild else forward
            targets = [rnd.choice(pool) for _ in range(k)]
            names = ["a", "b", "c", "d"][:len(targets)]
            if rnd.random() < 0.1:
                names = [rnd.choice("ab") for _ in targets]
            transitions.append(list(zip(names, targets)))
        if reward_style < 0.45:
            rewards.append(rnd.randint(0, 3))
        elif reward_style < 0.75:
            rewards.append(round(rnd.uniform(0, 10), 3))
        elif reward_style < 0.9:
            rewards.append(rnd.choice([0, 1, 10 ** 6, 10 ** 12, 0.5]))
        else:
            rewards.append(rnd.choice([0, 0, 0, 1, 2.5]))
    absorbing = list(range(first_abs, n))
    n_final = rnd.randint(1, len(absorbing))
    finals = rnd.sample(absorbing, n_final)
    if rnd.random() < 0.06:
        finals.append(rnd.randrange(0, n))
    if rnd.random() < 0.05:
        finals.append(finals[0])
    return {"rewards": rewards, "players": players,
            "transition_list": transitions, "final_states": finals}


def dump_nodes(state_list):
    return repr([(type(s).__name__, s.player, s.idx, s.reward, s.next_states, s.is_final_node,
                  s.reach_probability, s.expected_rewards, s.expected_rewards_min_reach,
                  s.expected_reach_min_rewards, s.num_states) for s in state_list])


def worker(root, out_path):
    root = os.path.abspath(root)
    sys.path.insert(0, root)
    os.chdir(root)
    sys.dont_write_bytecode = True
    import logging
    import copy
    import tad
    import reverse_dfs  # noqa
    import conditionalrewards
    assert os.path.abspath(tad.__file__).startswith(root + os.sep), tad.__file__
    assert os.path.abspath(conditionalrewards.__file__).startswith(root + os.sep)

    tap = DebugTap()
    logging.debug = tap
    logging.getLogger().setLevel(logging.DEBUG)   # the DEBUG-only trailer of the rewards iteration runs too
    logging.info = lambda *a, **k: None
    logging.error = lambda *a, **k: None

    out = open(out_path, "w")

    def rec(key, value):
        out.write(json.dumps([key, value]) + "\n")

    P1, P2, PR = tad.PLAYER_1, tad.PLAYER_2, tad.PROBABILISTIC

    # ---------------- A. random games through solve() ---------------------- #
    games = []
    for seed in range(420):
        rnd = random.Random(1000 + seed)
        games.append(random_game(rnd))
    for g_idx, game in enumerate(games):
        for prune in (True, False):
            args = copy.deepcopy(game)
            before = repr(args)
            sgame = tad.StochasticGame(prune_states=prune, **args)
            rec(f"A{g_idx}/{prune}/count", outcome(sgame.count_transitions))
            rec(f"A{g_idx}/{prune}/solve", outcome(sgame.solve, tap))
            rec(f"A{g_idx}/{prune}/unmutated", repr(args) == before)
            # solving twice the same object must give the same answer as well
            if g_idx % 7 == 0:
                rec(f"A{g_idx}/{prune}/again", outcome(sgame.solve, tap))

    # ---------------- B. the pipeline by hand, node dumps ------------------ #
    for g_idx, game in enumerate(games[:160]):
        for prune in (True, False):
            threshold = [10 ** -6, 10 ** -3, 10 ** -9, 0.5, 1, 2][g_idx % 6] if g_idx % 3 == 0 else 10 ** -6
            key = f"B{g_idx}/{prune}/{threshold}"
            args = copy.deepcopy(game)
            sgame = tad.StochasticGame(prune_states=prune, **args)

            def pipeline():
                trace = []
                sgame.check_game()
                state_list = sgame.init_states()
                trace.append(dump_nodes(state_list))
                solver = tad.Solver(threshold=threshold, state_list=state_list)
                trace.append(repr((solver.threshold, solver.floor)))
                try:
                    trace.append(repr(solver.solve_reachability(
                        sgame.transition_list, sgame.final_states, prune)))
                finally:
                    trace.append(dump_nodes(state_list))
                strategies = solver._get_reachability_strategies()
                solver.prune_reachability(strategies)
                trace.append(dump_nodes(state_list))
                if prune:
                    solver.prune_stochastich_game()
                    trace.append(dump_nodes(state_list))
                # single steps of every node before the fixed point iteration
                trace.append(repr([repr(s.value_iteration_rewards(state_list)) for s in state_list]))
                try:
                    trace.append(repr(solver.solve_total_rewards()))
                finally:
                    trace.append(dump_nodes(state_list))
                trace.append(repr([repr(s.value_iteration_rewards(state_list)) for s in state_list]))
                return trace

            holder = []

            def run():
                try:
                    result = pipeline()
                    holder.append(result)
                    return result
                except BaseException:
                    raise
            rec(key, outcome(run, tap))

    # ---------------- C. node level fuzzing ------------------------------- #
    nan = float("nan")
    value_pool = [0, 1, 2, 3, 0.0, 0.5, 1.0, 1.5, 2.5, 1e-7, 4e-7, 5e-7, 6e-7, 1 - 1e-7,
                  0.9999995, 0.9999994, 0.33333333, 1 / 3, 7, 10 ** 9]
    odd_pool = value_pool + [-1, -0.5, nan, 1e300, -0.0]
    for case in range(700):
        rnd = random.Random(50000 + case)
        pool = odd_pool if case % 4 == 0 else value_pool
        n = rnd.randint(1, 6)
        state_list = []
        for idx in range(n):
            player = rnd.choice([P1, P2, PR])
            k = rnd.randint(1, 4)
            targets = [rnd.randrange(n) for _ in range(k)]
            if player == PR:
                firsts = random_probabilities(rnd, k)
                cls = tad.ProbabilisticNode
            else:
                firsts = ["a", "b", "c", "d"][:k]
                if rnd.random() < 0.15:
                    firsts = [rnd.choice("ab") for _ in range(k)]
                cls = tad.PlayerOne if player == P1 else tad.PlayerTwo
            node = cls(player=player, idx=idx, reward=rnd.choice(pool[:12]),
                       next_states=list(zip(firsts, targets)), num_states=n,
                       is_final_node=rnd.random() < 0.3)
            state_list.append(node)
        rec(f"C{case}/fresh", dump_nodes(state_list))
        for node in state_list:
            node.reach_probability = rnd.choice(pool)
            node.expected_rewards = rnd.choice(pool)
            node.expected_rewards_min_reach = rnd.choice(pool)
            node.expected_reach_min_rewards = rnd.choice(pool)
            if rnd.random() < 0.08:
                node.next_states = []
        for node in state_list:
            key = f"C{case}/{node.idx}"
            rec(key + "/vir", outcome(lambda: node.value_iteration_rewards(state_list)))
            rec(key + "/reach", outcome(lambda: node.value_iteration_reach(state_list)))
            if isinstance(node, tad.PlayerTwo):
                for digits in (6, 3, 0):
                    rec(key + f"/worst_reach{digits}", outcome(
                        lambda: node.get_worst_strategies_reachability(state_list, digits)))
                rec(key + "/worst_rew", outcome(
                    lambda: node.get_worst_strategies_total_rewards(state_list, 6)))
                own = [a for a, _ in node.next_states]
                candidates = [[], own, own[:1], own[-1:], ["zz"], ["zz"] + own[1:],
                              tuple(own), set(own), (), own + own,
                              [a for a in own if rnd.random() < 0.5]]
                for c_idx, strategies in enumerate(candidates):
                    rec(key + f"/ermr{c_idx}", outcome(
                        lambda: node._expected_rewards_min_reach(state_list, strategies)))
            if isinstance(node, tad.PlayerOne):
                rec(key + "/best_reach", outcome(
                    lambda: node.get_best_strategies_reachability(state_list, 6)))
                rec(key + "/best_rew", outcome(
                    lambda: node.get_best_strategies_total_rewards(state_list, 6)))
        rec(f"C{case}/untouched", dump_nodes(state_list))
        # a bounded fixed point iteration from these arbitrary values
        if case % 2 == 0:
            for threshold in (10 ** -6, 0.25, 1, 3):
                clone = copy.deepcopy(state_list)
                solver = tad.Solver(state_list=clone, threshold=threshold)
                tap.budget = 60
                rec(f"C{case}/iter{threshold}", outcome(solver.value_iteration_total_rewards, tap))
                rec(f"C{case}/iter{threshold}/nodes", dump_nodes(clone))
                clone = copy.deepcopy(state_list)
                solver = tad.Solver(state_list=clone, threshold=threshold)
                reaching = sorted(rnd.sample(range(n), rnd.randint(0, n)))
                for prune in (True, False):
                    rec(f"C{case}/reachiter{threshold}/{prune}", outcome(
                        lambda: solver.value_iteration_reachability(reaching, prune), tap))
                    rec(f"C{case}/reachiter{threshold}/{prune}/nodes", dump_nodes(clone))
            tap.budget = ITERATION_BUDGET
    rec("C/empty_solver_rew", outcome(tad.Solver(state_list=[]).value_iteration_total_rewards, tap))
    for prune in (True, False):
        rec(f"C/empty_solver_reach/{prune}", outcome(
            lambda: tad.Solver(state_list=[]).value_iteration_reachability([], prune), tap))
    for bad in (0, -1, nan):
        rec(f"C/solver_threshold/{bad}", outcome(lambda: tad.Solver(state_list=[], threshold=bad).floor))

    # Node construction: initial values of the iterated quantities
    for reward in (0, 3, 2.5, True, nan, None, "x"):
        for final in (True, False, 1, 0, None, "yes"):
            def build():
                node = tad.PlayerTwo(player=P2, idx=0, reward=reward, next_states=[("a", 0)],
                                     num_states=1, is_final_node=final)
                return dump_nodes([node])
            rec(f"C/node/{reward!r}/{final!r}", outcome(build))

    # ---------------- D. boundary and malformed games --------------------- #
    from fractions import Fraction
    base = {
        "rewards": [0, 5, 2, 2, 10, 0, 0],
        "players": [P1, P2, P1, PR, PR, PR, PR],
        "transition_list": [[("alfa", 1), ("beta", 2)], [("gamma", 3), ("delta", 4)],
                            [("epsilon", 4)], [(0.35, 5), (0.65, 6)], [(0.3, 5), (0.7, 6)],
                            [(1, 5)], [(1, 6)]],
        "final_states": [5],
    }

    def variant(**changes):
        game = copy.deepcopy(base)
        game.update(changes)
        return game

    def edit(path_fn):
        game = copy.deepcopy(base)
        path_fn(game)
        return game

    specials = {
        "base": base,
        "finals_empty": variant(final_states=[]),
        "finals_out_of_range": variant(final_states=[7]),
        "finals_negative": variant(final_states=[-1]),
        "finals_both": variant(final_states=[5, 6]),
        "finals_initial": variant(final_states=[0]),
        "finals_tuple": variant(final_states=(5,)),
        "finals_dup": variant(final_states=[5, 5]),
        "rewards_nan_first": variant(rewards=[nan, 5, 2, 2, 10, 0, 0]),
        "rewards_nan_mid": variant(rewards=[0, 5, 2, nan, 10, 0, 0]),
        "rewards_nan_p2": variant(rewards=[0, nan, 2, 2, 10, 0, 0]),
        "rewards_negative": variant(rewards=[0, 5, -2, 2, 10, 0, 0]),
        "rewards_bool": variant(rewards=[False, True, True, False, True, False, False]),
        "rewards_float": variant(rewards=[0.0, 5.5, 2.25, 2.125, 10.0, 0.0, 0.0]),
        "rewards_fraction": variant(rewards=[Fraction(0), Fraction(1, 3), Fraction(2), Fraction(2),
                                             Fraction(10), Fraction(0), Fraction(0)]),
        "rewards_short": variant(rewards=[0, 5, 2]),
        "rewards_ties": variant(rewards=[0, 2, 2, 2, 2, 0, 0]),
        "rewards_final_positive": variant(rewards=[0, 5, 2, 2, 10, 1, 0]),
        "rewards_sink_positive": variant(rewards=[0, 5, 2, 2, 10, 0, 1]),
        "rewards_none": variant(rewards=[None] * 7),
        "players_short": variant(players=[P1, P2]),
        "players_unknown": variant(players=[P1, P2, P1, PR, PR, PR, "Player 3"]),
        "prob_nan": edit(lambda g: g["transition_list"].__setitem__(3, [(nan, 5), (0.65, 6)])),
        "prob_zero": edit(lambda g: g["transition_list"].__setitem__(3, [(0, 5), (1, 6)])),
        "prob_not_normalised": edit(lambda g: g["transition_list"].__setitem__(3, [(0.5, 5), (0.2, 6)])),
        "prob_over": edit(lambda g: g["transition_list"].__setitem__(3, [(0.9, 5), (0.9, 6)])),
        "prob_bool": edit(lambda g: g["transition_list"].__setitem__(5, [(True, 5)])),
        "action_int": edit(lambda g: g["transition_list"].__setitem__(1, [(1, 3), ("delta", 4)])),
        "action_dup": edit(lambda g: g["transition_list"].__setitem__(1, [("x", 3), ("x", 4)])),
        "action_dup_p1": edit(lambda g: g["transition_list"].__setitem__(0, [("x", 1), ("x", 2)])),
        "target_out": edit(lambda g: g["transition_list"].__setitem__(1, [("gamma", 7)])),
        "target_bool": edit(lambda g: g["transition_list"].__setitem__(1, [("gamma", True)])),
        "target_float": edit(lambda g: g["transition_list"].__setitem__(1, [("gamma", 3.0)])),
        "trans_empty_state": edit(lambda g: g["transition_list"].__setitem__(2, [])),
        "trans_tuple_state": edit(lambda g: g["transition_list"].__setitem__(2, (("epsilon", 4),))),
        "trans_list_pair": edit(lambda g: g["transition_list"].__setitem__(2, [["epsilon", 4]])),
        "trans_triple": edit(lambda g: g["transition_list"].__setitem__(2, [("epsilon", 4, 1)])),
        "trans_short": variant(transition_list=[[("alfa", 1)]]),
        "init_cannot_reach": edit(lambda g: g["transition_list"].__setitem__(0, [("alfa", 6)])),
        "p2_can_avoid": edit(lambda g: g["transition_list"].__setitem__(1, [("gamma", 3), ("delta", 6)])),
        "p2_tie": edit(lambda g: g["transition_list"].__setitem__(4, [(0.35, 5), (0.65, 6)])),
        "single_final": {"rewards": [0], "players": [PR], "transition_list": [[(1, 0)]],
                         "final_states": [0]},
        "single_final_reward": {"rewards": [1], "players": [PR], "transition_list": [[(1, 0)]],
                                "final_states": [0]},
        "single_p2": {"rewards": [0], "players": [P2], "transition_list": [[("a", 0)]],
                      "final_states": [0]},
        "single_p1": {"rewards": [0], "players": [P1], "transition_list": [[("a", 0)]],
                      "final_states": [0]},
        "empty": {"rewards": [], "players": [], "transition_list": [], "final_states": []},
        "empty_with_final": {"rewards": [], "players": [], "transition_list": [], "final_states": [0]},
        "two_p2_cycle": {"rewards": [1, 1, 0], "players": [P2, P2, PR],
                         "transition_list": [[("a", 1), ("b", 2)], [("a", 0), ("b", 2)], [(1, 2)]],
                         "final_states": [2]},
        "two_p1_cycle": {"rewards": [1, 1, 0], "players": [P1, P1, PR],
                         "transition_list": [[("a", 1), ("b", 2)], [("a", 0), ("b", 2)], [(1, 2)]],
                         "final_states": [2]},
        "p2_reach_close": {"rewards": [0, 1, 2, 0, 0], "players": [P2, PR, PR, PR, PR],
                           "transition_list": [[("a", 1), ("b", 2)],
                                               [(0.5000001, 3), (0.4999999, 4)],
                                               [(0.5, 3), (0.5, 4)], [(1, 3)], [(1, 4)]],
                           "final_states": [3]},
        "p2_reach_equal_cheapest": {"rewards": [0, 3, 2, 0, 0], "players": [P2, PR, PR, PR, PR],
                                    "transition_list": [[("a", 1), ("b", 2), ("c", 3)],
                                                        [(0.5, 3), (0.5, 4)],
                                                        [(0.5, 3), (0.5, 4)], [(1, 3)], [(1, 4)]],
                                    "final_states": [3]},
    }
    for name, game in specials.items():
        for prune in (True, False):
            args = copy.deepcopy(game)
            before = repr(args)
            sgame = tad.StochasticGame(prune_states=prune, **args)
            rec(f"D/{name}/{prune}/count", outcome(sgame.count_transitions))
            rec(f"D/{name}/{prune}/solve", outcome(sgame.solve, tap))
            rec(f"D/{name}/{prune}/unmutated", repr(args) == before)

    # ---------------- E. driver and report -------------------------------- #
    def strip_time(results):
        return repr({name: {k: v for k, v in res.items() if k != "total_time"}
                     for name, res in results.items()})

    def report_of(results, file_name):
        here = os.getcwd()
        with tempfile.TemporaryDirectory() as tmp:
            os.mkdir(os.path.join(tmp, "outputs"))
            os.chdir(tmp)
            try:
                conditionalrewards.save_results_to_file(results, file_name)
                produced = sorted(os.listdir("outputs"))
                texts = []
                for produced_name in produced:
                    with open(os.path.join("outputs", produced_name)) as handle:
                        lines = [ln for ln in handle.read().split("\n")
                                 if not ln.startswith("Total time")]
                    texts.append((produced_name, lines))
                return texts
            finally:
                os.chdir(here)

    shipped = ["paper_games.py", "example_games.py", "example_17_08.py", "manual_1_game_a.py",
               "manual_arrow_bottom.py", "robot_1_w1_l2_r6_rb10_lb5_tb10_lt0.py",
               "robot_1_w2_l1_r6_rb10_lb5_tb10_lt0.py", "robot_1_w2_l2_r6_rb10_lb5_tb10_lt0.py",
               "robot_999132423_w3_l3_r6_rb1_lb2_tb10_lt30.py",
               "robot_manual_0_w4_l4_r6_rb10_lb5_tb10_lt30.py"]
    tap.budget = 3000
    for file_name in shipped:
        path = os.path.join(root, "inputs", file_name)
        holder = {}

        def run_file():
            games_dict = conditionalrewards.read_dict_from_file(path)
            holder["results"] = conditionalrewards.run_games(games_dict)
            return strip_time(holder["results"])
        rec(f"E/{file_name}/results", outcome(run_file, tap))
        if "results" in holder:
            rec(f"E/{file_name}/report", outcome(lambda: report_of(holder["results"], "inputs/" + file_name)))
    tap.budget = ITERATION_BUDGET
    for chunk in range(12):
        games_dict = {}
        for offset in range(5):
            rnd = random.Random(90000 + chunk * 5 + offset)
            game = random_game(rnd, wild=False)
            games_dict[f"g{offset}"] = game
        holder = {}

        def run_dict():
            holder["results"] = conditionalrewards.run_games(copy.deepcopy(games_dict))
            return strip_time(holder["results"])
        rec(f"E/generated{chunk}/results", outcome(run_dict, tap))
        if "results" in holder:
            rec(f"E/generated{chunk}/report", outcome(
                lambda: report_of(holder["results"], f"some/dir/generated{chunk}.py")))
    out.close()


# --------------------------------------------------------------------------- #
# parent side
# --------------------------------------------------------------------------- #

def main():
    if len(sys.argv) == 4 and sys.argv[1] == "--worker":
        worker(sys.argv[2], sys.argv[3])
        return 0
    if len(sys.argv) != 3:
        print(__doc__)
        return 2
    patched, clean = sys.argv[1], sys.argv[2]
    with tempfile.TemporaryDirectory() as tmp:
        procs = []
        for label, root in (("patched", patched), ("clean", clean)):
            out_path = os.path.join(tmp, label + ".jsonl")
            env = dict(os.environ, PYTHONDONTWRITEBYTECODE="1", PYTHONHASHSEED="0")
            proc = subprocess.Popen(
                [sys.executable, os.path.abspath(__file__), "--worker", root, out_path],
                env=env, stdout=subprocess.PIPE, stderr=subprocess.PIPE, text=True)
            procs.append((label, proc, out_path))
        transcripts = {}
        failed = False
        for label, proc, out_path in procs:
            stdout, stderr = proc.communicate()
            if proc.returncode != 0:
                print(f"worker for the {label} tree crashed (exit {proc.returncode}):")
                print(stderr[-3000:])
                failed = True
                continue
            with open(out_path) as handle:
                transcripts[label] = [json.loads(line) for line in handle]
        if failed:
            print("FAIL")
            return 1
    a, b = transcripts["patched"], transcripts["clean"]
    differences = []
    if len(a) != len(b):
        differences.append(f"different number of observations: {len(a)} vs {len(b)}")
    for (key_a, val_a), (key_b, val_b) in zip(a, b):
        if key_a != key_b or val_a != val_b:
            differences.append(f"{key_a}:\n   patched: {str(val_a)[:600]}\n   clean  : {str(val_b)[:600]}")
    stats = {"OK": 0, "EXC": 0, "BUDGET": 0, "WALLCLOCK": 0, "other": 0}
    for _, value in b:
        text = str(value)
        for prefix in ("OK", "EXC", "BUDGET", "WALLCLOCK"):
            if text.startswith(prefix):
                stats[prefix] += 1
                break
        else:
            stats["other"] += 1
    print(f"{len(b)} observations on the clean tree: {stats}")
    if stats["WALLCLOCK"]:
        differences.append("wall clock limit hit; the comparison is not deterministic")
    if differences:
        for diff in differences[:25]:
            print(diff)
        print(f"{len(differences)} difference(s)")
        print("FAIL")
        return 1
    print("PASS")
    return 0


if __name__ == "__main__":
    sys.exit(main())
