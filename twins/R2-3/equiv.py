#!/usr/bin/env python
"""
Behavioural equivalence check between two checkouts of the conditional
rewards tool.

    /venv/bin/python equiv.py <repo-root-A> <repo-root-B>

Each root is exercised in its own subprocess (so both can `import tad`
without clashing).  The child prints one line per observation; the parent
compares the two transcripts line by line, prints SAME and exits 0 when they
are identical, otherwise prints the first difference and exits 1.

FOCUS (set per variant, below) only selects which extra low-level probes get
the most random cases; every variant runs the complete battery.
"""
import copy
import glob
import logging
import os
import random
import subprocess
import sys
import tempfile

FOCUS = "Solver value iteration loops"
N_RANDOM = 320          # seeded random well-formed games
N_MALFORMED = 320       # seeded random malformed games
CHILD_TIMEOUT = 900

P1, P2, PR = "Player 1", "Player 2", "Probabilistic"


# --------------------------------------------------------------------------- #
# input generation (identical in both children: fixed seeds)
# --------------------------------------------------------------------------- #

def hand_games():
    g = {}
    g["single_final"] = dict(rewards=[0], players=[PR], transition_list=[[(1, 0)]], final_states=[0])
    g["two_prob"] = dict(rewards=[3, 0], players=[PR, PR],
                         transition_list=[[(1, 1)], [(1, 1)]], final_states=[1])
    g["unreachable_final"] = dict(rewards=[1, 0, 0], players=[PR, PR, PR],
                                  transition_list=[[(1.0, 1)], [(1, 1)], [(1, 2)]], final_states=[2])
    g["p1_choice_dead"] = dict(
        rewards=[1, 2, 7, 0, 0], players=[P1, PR, PR, PR, PR],
        transition_list=[[("a", 1), ("b", 2)], [(0.5, 3), (0.5, 4)], [(1, 4)], [(1, 3)], [(1, 4)]],
        final_states=[3])
    g["p1_tie"] = dict(
        rewards=[1, 2, 7, 0, 0], players=[P1, PR, PR, PR, PR],
        transition_list=[[("a", 1), ("b", 2), ("c", 4)], [(0.5, 3), (0.5, 4)], [(0.5, 4), (0.5, 3)],
                         [(1, 3)], [(1, 4)]],
        final_states=[3])
    g["p2_choice"] = dict(
        rewards=[0, 4, 1, 0, 0], players=[P2, PR, PR, PR, PR],
        transition_list=[[("x", 1), ("y", 2)], [(0.25, 3), (0.75, 4)], [(0.25, 3), (0.75, 4)],
                         [(1, 3)], [(1, 4)]],
        final_states=[3])
    g["many_dead_successors"] = dict(
        rewards=[1, 0, 0, 0, 0, 0, 2], players=[PR, PR, PR, PR, PR, PR, P1],
        transition_list=[[(0.1, 1), (0.2, 2), (0.1, 3), (0.2, 5), (0.3, 4), (0.1, 6)],
                         [(1, 1)], [(1, 2)], [(1, 3)], [(1, 4)], [(1, 5)],
                         [("u", 1), ("v", 5), ("w", 2), ("z", 5)]],
        final_states=[5])
    g["prob_cycle"] = dict(
        rewards=[1, 2, 0, 0], players=[PR, PR, PR, PR],
        transition_list=[[(0.5, 1), (0.5, 0)], [(0.25, 0), (0.25, 3), (0.5, 2)], [(1, 2)], [(1, 3)]],
        final_states=[2])
    g["p1_p2_mix"] = dict(
        rewards=[0, 1, 2, 3, 0, 0, 5], players=[P1, P2, P1, PR, PR, PR, P2],
        transition_list=[[("a", 1), ("b", 2), ("c", 6)], [("a", 3), ("b", 4)], [("a", 3), ("b", 5)],
                         [(0.5, 4), (0.5, 5)], [(1, 4)], [(1, 5)], [("l", 4), ("r", 3)]],
        final_states=[4])
    g["initial_dead"] = dict(
        rewards=[1, 0, 0], players=[P1, PR, PR],
        transition_list=[[("a", 1)], [(1, 1)], [(1, 2)]], final_states=[2])
    g["final_in_middle"] = dict(
        rewards=[1, 2, 3, 0], players=[PR, P1, PR, PR],
        transition_list=[[(0.5, 1), (0.5, 3)], [("a", 2), ("b", 3)], [(1, 3)], [(1, 3)]],
        final_states=[1])
    g["float_rewards"] = dict(
        rewards=[0.5, 5 / 3, 11 / 6, 0, 0], players=[P2, P1, PR, PR, PR],
        transition_list=[[("a", 1), ("b", 2)], [("a", 3), ("b", 4), ("c", 2)],
                         [(1 / 3, 3), (2 / 3, 4)], [(1, 3)], [(1, 4)]],
        final_states=[3, 4])
    g["duplicate_finals"] = dict(
        rewards=[1, 0, 0], players=[PR, PR, PR],
        transition_list=[[(0.5, 1), (0.5, 2)], [(1, 1)], [(1, 2)]], final_states=[1, 1, 2])
    g["tuple_containers"] = dict(
        rewards=(1, 0, 0), players=(PR, PR, PR),
        transition_list=[[(0.5, 1), (0.5, 2)], [(1, 1)], [(1, 2)]], final_states=(1,))
    return g


def hand_malformed():
    base = dict(rewards=[1, 2, 0], players=[P1, PR, PR],
                transition_list=[[("a", 1), ("b", 2)], [(0.5, 1), (0.5, 2)], [(1, 2)]],
                final_states=[2])

    def mod(**kw):
        d = copy.deepcopy(base)
        d.update(kw)
        return d

    m = {}
    m["short_transitions"] = mod(transition_list=base["transition_list"][:2])
    m["long_transitions"] = mod(transition_list=base["transition_list"] + [[(1, 0)]])
    m["short_rewards"] = mod(rewards=[1, 2])
    m["long_rewards"] = mod(rewards=[1, 2, 0, 0])
    m["empty_everything"] = dict(rewards=[], players=[], transition_list=[], final_states=[])
    m["neg_reward_first"] = mod(rewards=[-1, 2, 0])
    m["neg_reward_last"] = mod(rewards=[1, 2, -0.5])
    m["unknown_player_first"] = mod(players=["Player 3", PR, PR])
    m["unknown_player_last"] = mod(players=[P1, PR, "probabilistic"])
    m["none_player"] = mod(players=[P1, None, PR])
    m["list_player"] = mod(players=[P1, [PR], PR])
    m["final_too_big"] = mod(final_states=[3])
    m["final_negative"] = mod(final_states=[-1])
    m["final_mixed"] = mod(final_states=[2, 7])
    m["final_mixed2"] = mod(final_states=[-3, 2])
    m["no_final"] = mod(final_states=[])
    m["empty_transitions_first"] = mod(transition_list=[[], [(0.5, 1), (0.5, 2)], [(1, 2)]])
    m["empty_transitions_last"] = mod(transition_list=[[("a", 1), ("b", 2)], [(0.5, 1), (0.5, 2)], []])
    m["transitions_tuple"] = mod(transition_list=[(("a", 1), ("b", 2)), [(0.5, 1), (0.5, 2)], [(1, 2)]])
    m["transitions_none"] = mod(transition_list=[[("a", 1), ("b", 2)], None, [(1, 2)]])
    m["transitions_dict"] = mod(transition_list=[[("a", 1), ("b", 2)], {0.5: 1}, [(1, 2)]])
    m["transitions_str"] = mod(transition_list=[[("a", 1), ("b", 2)], "ab", [(1, 2)]])
    m["entry_list"] = mod(transition_list=[[["a", 1], ("b", 2)], [(0.5, 1), (0.5, 2)], [(1, 2)]])
    m["entry_list_late"] = mod(transition_list=[[("a", 1), ("b", 2)], [(0.5, 1), [0.5, 2]], [(1, 2)]])
    m["entry_len1"] = mod(transition_list=[[("a",), ("b", 2)], [(0.5, 1), (0.5, 2)], [(1, 2)]])
    m["entry_len3"] = mod(transition_list=[[("a", 1), ("b", 2, 3)], [(0.5, 1), (0.5, 2)], [(1, 2)]])
    m["entry_len0"] = mod(transition_list=[[("a", 1), ("b", 2)], [(), (0.5, 2)], [(1, 2)]])
    m["action_int"] = mod(transition_list=[[(1, 1), ("b", 2)], [(0.5, 1), (0.5, 2)], [(1, 2)]])
    m["action_none_late"] = mod(transition_list=[[("a", 1), (None, 2)], [(0.5, 1), (0.5, 2)], [(1, 2)]])
    m["prob_str"] = mod(transition_list=[[("a", 1), ("b", 2)], [("0.5", 1), (0.5, 2)], [(1, 2)]])
    m["prob_none_late"] = mod(transition_list=[[("a", 1), ("b", 2)], [(0.5, 1), (None, 2)], [(1, 2)]])
    m["succ_float"] = mod(transition_list=[[("a", 1.0), ("b", 2)], [(0.5, 1), (0.5, 2)], [(1, 2)]])
    m["succ_str"] = mod(transition_list=[[("a", 1), ("b", "2")], [(0.5, 1), (0.5, 2)], [(1, 2)]])
    m["succ_none"] = mod(transition_list=[[("a", 1), ("b", 2)], [(0.5, None), (0.5, 2)], [(1, 2)]])
    m["succ_neg"] = mod(transition_list=[[("a", -1), ("b", 2)], [(0.5, 1), (0.5, 2)], [(1, 2)]])
    m["succ_n"] = mod(transition_list=[[("a", 1), ("b", 2)], [(0.5, 1), (0.5, 3)], [(1, 2)]])
    m["succ_huge"] = mod(transition_list=[[("a", 1), ("b", 2)], [(0.5, 1), (0.5, 2)], [(1, 10 ** 9)]])
    m["two_errors"] = mod(rewards=[1, -2, 0], players=[P1, "X", PR], final_states=[9])
    m["len_and_entry"] = mod(rewards=[1, 2], transition_list=[[("a",)], [(0.5, 1), (0.5, 2)], [(1, 2)]])
    m["first_error_wins"] = mod(
        transition_list=[[("a", 1), ("b", 2, 3), ["c", 1]], [(0.5, 1), (0.5, 2)], [(1, 2)]])
    m["type_before_range"] = mod(
        transition_list=[[("a", 7), (3, 1)], [(0.5, 1), (0.5, 2)], [(1, 2)]])
    return m


def random_game(rng):
    """A random well-formed stopping game (see notes in the generator)."""
    n = rng.randint(2, 12)
    n_sinks = rng.randint(1, min(3, n - 1)) if n > 2 else 1
    first_sink = n - n_sinks
    prob_pool = [(1,), (0.5, 0.5), (0.25, 0.75), (0.25, 0.25, 0.5), (0.1, 0.2, 0.7),
                 (1 / 3, 2 / 3), (0.2, 0.2, 0.2, 0.4), (0.125, 0.125, 0.25, 0.5)]
    reward_mode = rng.choice(["int", "float", "zero", "big"])
    rewards, players, transitions = [], [], []
    for i in range(n):
        if i >= first_sink:
            players.append(PR)
            rewards.append(0)
            transitions.append([(1, i)])
            continue
        player = rng.choice([P1, P2, PR, PR])
        players.append(player)
        if reward_mode == "int":
            rewards.append(rng.randint(0, 5))
        elif reward_mode == "float":
            rewards.append(rng.choice([0, 0.5, 1.25, 5 / 3, 2, 11 / 6]))
        elif reward_mode == "zero":
            rewards.append(0)
        else:
            rewards.append(rng.choice([0, 1, 1000, 10 ** 6]))
        forward = list(range(i + 1, n))
        if player == PR:
            probs = list(rng.choice(prob_pool))
            rng.shuffle(probs)
            succs = []
            back_budget = 0.5
            for p in probs:
                if p <= back_budget and rng.random() < 0.3:
                    succs.append(rng.randint(0, i))          # back edge / self loop
                    back_budget -= p
                else:
                    succs.append(rng.choice(forward))
            if all(s <= i for s in succs):
                succs[0] = rng.choice(forward)
            transitions.append(list(zip(probs, succs)))
        else:
            k = rng.randint(1, 4)
            names = rng.sample(["alfa", "beta", "gamma", "delta", "eps", " "], k)
            transitions.append([(a, rng.choice(forward)) for a in names])
    sinks = list(range(first_sink, n))
    finals = rng.sample(sinks, rng.randint(1, len(sinks)))
    if rng.random() < 0.15 and first_sink > 1:
        finals.append(rng.randint(1, first_sink - 1))       # a non-absorbing final state
    if rng.random() < 0.5:
        finals.sort()
    return dict(rewards=rewards, players=players, transition_list=transitions, final_states=finals)


def mutate(rng, game):
    """Break one (sometimes two) well-formedness rules at a random position."""
    g = copy.deepcopy(game)
    n = len(g["players"])
    tl = g["transition_list"]

    def pick_state(kind=None):
        idxs = [i for i in range(n) if kind is None or
                (kind == "player" and g["players"][i] in (P1, P2)) or
                (kind == "prob" and g["players"][i] == PR)]
        return rng.choice(idxs) if idxs else None

    def pick_entry(kind=None):
        i = pick_state(kind)
        if i is None:
            return None, None
        return i, rng.randrange(len(tl[i]))

    choices = ["len_tl", "len_rew", "neg_rew", "player", "final", "no_final", "empty_tr",
               "not_list", "entry_type", "entry_len", "action", "prob", "succ_type",
               "succ_range", "len_players"]
    for kind in rng.sample(choices, rng.choice([1, 1, 1, 2])):
        if kind == "len_tl":
            if rng.random() < 0.5:
                tl.pop(rng.randrange(len(tl)))
            else:
                tl.insert(rng.randrange(len(tl) + 1), [(1, 0)])
        elif kind == "len_rew":
            if rng.random() < 0.5:
                g["rewards"] = g["rewards"][:-1]
            else:
                g["rewards"] = g["rewards"] + [0]
        elif kind == "len_players":
            if rng.random() < 0.5:
                g["players"] = g["players"][:-1]
            else:
                g["players"] = g["players"] + [PR]
        elif kind == "neg_rew":
            g["rewards"] = list(g["rewards"])
            g["rewards"][rng.randrange(len(g["rewards"]))] = rng.choice([-1, -0.001, -10 ** 9])
        elif kind == "player":
            g["players"][rng.randrange(len(g["players"]))] = rng.choice(
                ["Player 3", "player 1", "", None, 1, PR + " "])
        elif kind == "final":
            bad = rng.choice([n, n + 3, -1, -n])
            g["final_states"] = list(g["final_states"])
            g["final_states"].insert(rng.randrange(len(g["final_states"]) + 1), bad)
        elif kind == "no_final":
            g["final_states"] = []
        elif kind == "empty_tr":
            i = rng.randrange(len(tl))
            tl[i] = []
        elif kind == "not_list":
            i = rng.randrange(len(tl))
            tl[i] = rng.choice([tuple(tl[i]), None, dict((b, a) for a, b in tl[i]), 7, "xy"])
        elif kind == "entry_type":
            i = rng.randrange(len(tl))
            j = rng.randrange(len(tl[i]))
            tl[i][j] = rng.choice([list(tl[i][j]), None, 3, "ab", {1: 2}])
        elif kind == "entry_len":
            i = rng.randrange(len(tl))
            j = rng.randrange(len(tl[i]))
            tl[i][j] = rng.choice([tl[i][j][:1], tl[i][j] + (0,), ()])
        elif kind == "action":
            i, j = pick_entry("player")
            if i is not None and i < len(tl) and isinstance(tl[i], list) and j < len(tl[i]) \
                    and isinstance(tl[i][j], tuple) and len(tl[i][j]) == 2:
                tl[i][j] = (rng.choice([1, None, 0.5, ("a",), b"a"]), tl[i][j][1])
        elif kind == "prob":
            i, j = pick_entry("prob")
            if i is not None and i < len(tl) and isinstance(tl[i], list) and j < len(tl[i]) \
                    and isinstance(tl[i][j], tuple) and len(tl[i][j]) == 2:
                tl[i][j] = (rng.choice(["0.5", None, (1,), [1], 1j]), tl[i][j][1])
        elif kind == "succ_type":
            i = rng.randrange(len(tl))
            if isinstance(tl[i], list) and tl[i]:
                j = rng.randrange(len(tl[i]))
                if isinstance(tl[i][j], tuple) and len(tl[i][j]) == 2:
                    tl[i][j] = (tl[i][j][0], rng.choice([1.0, "1", None, (1,), 2.5]))
        elif kind == "succ_range":
            i = rng.randrange(len(tl))
            if isinstance(tl[i], list) and tl[i]:
                j = rng.randrange(len(tl[i]))
                if isinstance(tl[i][j], tuple) and len(tl[i][j]) == 2:
                    tl[i][j] = (tl[i][j][0], rng.choice([-1, n, n + 5, -n - 1, 10 ** 12]))
    return g


def still_well_formed(g):
    """Conservative filter: only keep mutants that some rule certainly rejects.

    (A mutant that happened to stay well-formed might not be a stopping game,
    and solving it could run forever in BOTH versions.)"""
    try:
        n = len(g["players"])
        if len(g["transition_list"]) != n or len(g["rewards"]) != n:
            return False
        if any(r < 0 for r in g["rewards"]):
            return False
        if not g["final_states"]:
            return False
        if any(not isinstance(f, int) or f < 0 or f >= n for f in g["final_states"]):
            return False
        for p, trs in zip(g["players"], g["transition_list"]):
            if p not in (P1, P2, PR):
                return False
            if not isinstance(trs, list) or not trs:
                return False
            for t in trs:
                if not isinstance(t, tuple) or len(t) != 2:
                    return False
                if p == PR and (isinstance(t[0], bool) or not isinstance(t[0], (int, float))):
                    return False
                if p != PR and not isinstance(t[0], str):
                    return False
                if isinstance(t[1], bool) or not isinstance(t[1], int) or t[1] < 0 or t[1] >= n:
                    return False
        return True
    except Exception:
        return False


def node_probe_inputs():
    """(player, next_states, num_states) triples for direct Node construction."""
    probes = []
    shapes = [
        [("a", 1), ("b", 2)], [(0.5, 1), (0.5, 2)], [], (), None, "ab", {"a": 1}, 5,
        [("a", 1), ["b", 2]], [None], [3], ["ab"], [("a",)], [()], [("a", 1, 2)],
        [("a", 1), ("b",)], [(1, 1)], [(None, 1)], [("a", None)], [("a", 1.0)],
        [("a", "1")], [("a", -1)], [("a", 3)], [("a", 2)], [("a", 0)], [(0.5, -1)],
        [(0.5, 3)], [("0.5", 1)], [(True, 1)], [("a", True)], [(0.5, False)], [(1j, 1)],
        [(0.5, 1), (0.5, 2), (0.5, 99)], [("a", 1), (2, 1)], [("a", 7), (2, 1)],
        [(0.5, 7), ("x", 1)], [(b"a", 1)], [(float("inf"), 1)], [(-1, 1)], [("", 0)],
        [("a", 10 ** 20)], [("a", -10 ** 20)],
    ]
    for player in (P1, P2, PR, "Player 3", None, ""):
        for shape in shapes:
            for num_states in (3, 1, 0):
                probes.append((player, shape, num_states))
    return probes


# --------------------------------------------------------------------------- #
# child: run everything against one root, print a transcript
# --------------------------------------------------------------------------- #

def describe_exc(e):
    return f"EXC {type(e).__name__}: {e}"


def snapshot(state_list):
    return [(type(s).__name__, s.player, s.idx, s.reward, s.next_states, s.is_final_node,
             s.reach_probability, s.expected_rewards, s.expected_rewards_min_reach,
             s.expected_reach_min_rewards, s.num_states) for s in state_list]


class Timeout(BaseException):
    """Raised by SIGALRM: the probe did not finish (non-stopping game)."""


def _on_alarm(signum, frame):
    raise Timeout()


PROBE_SECONDS = 6


class ListHandler(logging.Handler):
    def __init__(self):
        super().__init__(level=logging.DEBUG)
        self.lines = []

    def emit(self, record):
        self.lines.append(f"{record.levelname}:{record.getMessage()}")


def child(root):
    root = os.path.abspath(root)
    workdir = tempfile.mkdtemp(prefix="equiv_child_")
    os.makedirs(os.path.join(workdir, "outputs"))
    os.chdir(workdir)
    sys.path.insert(0, root)
    sys.dont_write_bytecode = True
    import tad
    import conditionalrewards as cr
    assert os.path.dirname(os.path.abspath(tad.__file__)) == root, tad.__file__

    out = []

    trace = bool(os.environ.get("EQUIV_TRACE"))

    def emit(tag, value):
        out.append(f"{tag}\t{value!r}")
        if trace:
            sys.stderr.write(tag + "\n")
            sys.stderr.flush()

    modes = [True, False]          # pruning modes exercised by the probes below

    def guarded(tag, fn):
        try:
            emit(tag, fn())
        except RecursionError as e:                      # pragma: no cover
            emit(tag, "EXC RecursionError")
        except Exception as e:
            emit(tag, describe_exc(e))

    # ---- A. full solve, both pruning modes, input preservation, repeatability
    def solve_probe(tag, game):
        for prune in tuple(modes):
            desc = copy.deepcopy(game)
            before = copy.deepcopy(desc)
            try:
                sg = tad.StochasticGame(prune_states=prune, **desc)
            except Exception as e:
                emit(f"{tag}/solve/{prune}/ctor", describe_exc(e))
                continue
            guarded(f"{tag}/solve/{prune}/count", sg.count_transitions)
            guarded(f"{tag}/solve/{prune}/first", sg.solve)
            guarded(f"{tag}/solve/{prune}/again", sg.solve)
            emit(f"{tag}/solve/{prune}/intact", repr(desc) == repr(before))
            emit(f"{tag}/solve/{prune}/attrs",
                 (sg.rewards, sg.players, sg.transition_list, sg.final_states, sg.num_states,
                  sg.prune_states))

    # ---- B. staged run through the Solver API, snapshot after every stage
    def staged_probe(tag, game):
        for prune in tuple(modes):
            desc = copy.deepcopy(game)
            try:
                sg = tad.StochasticGame(prune_states=prune, **desc)
                sg.check_game()
                state_list = sg.init_states()
                emit(f"{tag}/staged/{prune}/init", snapshot(state_list))
                solver = tad.Solver(threshold=10 ** (-6), state_list=state_list)
                emit(f"{tag}/staged/{prune}/floor", (solver.floor, solver.threshold))
                res = solver.solve_reachability(sg.transition_list, sg.final_states, prune)
                emit(f"{tag}/staged/{prune}/reach", (res, snapshot(state_list)))
                emit(f"{tag}/staged/{prune}/reach_strats_again", solver._get_reachability_strategies())
                r = solver.prune_reachability(res[0])
                emit(f"{tag}/staged/{prune}/prune_reach", (r, snapshot(state_list)))
                if prune:
                    r = solver.prune_paths()
                    emit(f"{tag}/staged/{prune}/prune_paths", (r, snapshot(state_list)))
                    r = solver.prune_states()
                    emit(f"{tag}/staged/{prune}/prune_states", (r, snapshot(state_list)))
                    r = solver.prune_stochastich_game()      # idempotence of the combined step
                    emit(f"{tag}/staged/{prune}/prune_game_again", (r, snapshot(state_list)))
                n_it = solver.value_iteration_total_rewards()
                emit(f"{tag}/staged/{prune}/vi_rewards", (n_it, snapshot(state_list)))
                emit(f"{tag}/staged/{prune}/rew_strats", solver._get_total_rewards_strategies())
                emit(f"{tag}/staged/{prune}/solve_total_again",
                     (solver.solve_total_rewards(), snapshot(state_list)))
                emit(f"{tag}/staged/{prune}/desc_after", desc)
            except Exception as e:
                emit(f"{tag}/staged/{prune}/abort", describe_exc(e))

    # ---- C. alternative pruning order / prune_states on un-pruned paths
    def prune_probe(tag, game):
        desc = copy.deepcopy(game)
        try:
            sg = tad.StochasticGame(prune_states=False, **desc)
            sg.check_game()
            state_list = sg.init_states()
            solver = tad.Solver(state_list)
            strategies, _ = solver.solve_reachability(sg.transition_list, sg.final_states, False)
            solver.prune_states()
            emit(f"{tag}/prune/states_only", snapshot(state_list))
            solver.prune_paths()
            emit(f"{tag}/prune/then_paths", snapshot(state_list))
            solver.prune_states()
            emit(f"{tag}/prune/then_states", snapshot(state_list))
            solver.prune_reachability(strategies)
            solver.prune_stochastich_game()
            emit(f"{tag}/prune/then_all", snapshot(state_list))
        except Exception as e:
            emit(f"{tag}/prune/abort", describe_exc(e))

    # ---- D. validation entry points on their own
    def validation_probe(tag, game):
        for prune in tuple(modes):
            desc = copy.deepcopy(game)
            try:
                sg = tad.StochasticGame(prune_states=prune, **desc)
            except Exception as e:
                emit(f"{tag}/valid/{prune}/ctor", describe_exc(e))
                continue
            guarded(f"{tag}/valid/{prune}/count", sg.count_transitions)
            guarded(f"{tag}/valid/{prune}/check", sg.check_game)
            guarded(f"{tag}/valid/{prune}/init", lambda: snapshot(sg.init_states()))
            guarded(f"{tag}/valid/{prune}/solve", sg.solve)
            emit(f"{tag}/valid/{prune}/desc_after", desc)

    # ---- E. logging transcript at DEBUG level
    def logging_probe(tag, game):
        handler = ListHandler()
        root_logger = logging.getLogger()
        old_level = root_logger.level
        root_logger.addHandler(handler)
        root_logger.setLevel(logging.DEBUG)
        try:
            for prune in tuple(modes):
                desc = copy.deepcopy(game)
                try:
                    res = tad.StochasticGame(prune_states=prune, **desc).solve()
                except Exception as e:
                    res = describe_exc(e)
                emit(f"{tag}/log/{prune}/result", res)
            emit(f"{tag}/log/lines", handler.lines)
        finally:
            root_logger.removeHandler(handler)
            root_logger.setLevel(old_level)

    import signal
    signal.signal(signal.SIGALRM, _on_alarm)

    def bounded(probe):
        """Run a probe under a wall-clock bound.  Stopping games finish in
        milliseconds; a game that is not stopping never finishes in either
        version, and is recorded as a TIMEOUT at the same stage in both."""
        def wrapper(tag, game):
            signal.setitimer(signal.ITIMER_REAL, PROBE_SECONDS)
            try:
                probe(tag, game)
            except Timeout:
                emit(f"{tag}/{probe.__name__}/TIMEOUT", len(out))
            finally:
                signal.setitimer(signal.ITIMER_REAL, 0)
        return wrapper

    solve_probe = bounded(solve_probe)
    staged_probe = bounded(staged_probe)
    prune_probe = bounded(prune_probe)
    validation_probe = bounded(validation_probe)
    logging_probe = bounded(logging_probe)

    games = hand_games()
    for name, game in games.items():
        solve_probe(f"hand:{name}", game)
        staged_probe(f"hand:{name}", game)
        prune_probe(f"hand:{name}", game)
        validation_probe(f"hand:{name}", game)
        logging_probe(f"hand:{name}", game)

    malformed = hand_malformed()
    for name, game in malformed.items():
        validation_probe(f"bad:{name}", game)
        staged_probe(f"bad:{name}", game)

    # shipped example inputs (the small ones)
    file_games = {}
    for path in sorted(glob.glob(os.path.join(root, "inputs", "*.py"))):
        if os.path.getsize(path) > 35000:
            continue
        try:
            loaded = cr.read_dict_from_file(path)
        except Exception as e:
            emit(f"file:{os.path.basename(path)}", describe_exc(e))
            continue
        for name, game in loaded.items():
            game = {k: v for k, v in game.items() if k != "prune_states"}
            file_games[f"{os.path.basename(path)}:{name}"] = game
    for name, game in file_games.items():
        # The generated robot boards are only stopping games once conditioned
        # (un-pruned, their dead ends keep collecting reward for ever), so those
        # are solved with pruning on only.
        modes[:] = [True] if name.startswith(("robot", "manual")) else [True, False]
        solve_probe(f"file:{name}", game)
        staged_probe(f"file:{name}", game)
    modes[:] = [True, False]

    rng = random.Random(20240607)
    randoms = [random_game(rng) for _ in range(N_RANDOM)]
    for k, game in enumerate(randoms):
        solve_probe(f"rnd:{k}", game)
        staged_probe(f"rnd:{k}", game)
        if k % 2 == 0:
            prune_probe(f"rnd:{k}", game)
        if k % 16 == 0:
            logging_probe(f"rnd:{k}", game)

    rng = random.Random(977)
    made = 0
    while made < N_MALFORMED:
        try:
            game = mutate(rng, random_game(rng))
        except Exception:
            continue                      # two mutations clashed; draw again
        if still_well_formed(game):
            continue
        validation_probe(f"mut:{made}", game)
        if made % 4 == 0:
            staged_probe(f"mut:{made}", game)
        made += 1

    # ---- F. direct Node construction (constructor + check_next_states)
    for k, (player, shape, num_states) in enumerate(node_probe_inputs()):
        for cls_name in ("Node", "PlayerOne", "PlayerTwo", "ProbabilisticNode"):
            cls = getattr(tad, cls_name)
            arg = copy.deepcopy(shape)
            try:
                node = cls(player=player, idx=0, reward=2, next_states=arg,
                           num_states=num_states, is_final_node=(k % 2 == 0))
                emit(f"node:{k}:{cls_name}",
                     (snapshot([node]), node.next_states is arg, arg == shape))
                guarded(f"node:{k}:{cls_name}/recheck", node.check_next_states)
            except Exception as e:
                emit(f"node:{k}:{cls_name}", describe_exc(e))

    # ---- G. Solver construction / API with odd arguments
    for thr in (10 ** (-6), 1e-3, 1e-9, 0.5, 1e-12):
        guarded(f"solver:thr:{thr}", lambda: (tad.Solver([], threshold=thr).floor,
                                               tad.Solver([], thr).threshold))
    guarded("solver:empty/reach_strats", lambda: tad.Solver([])._get_reachability_strategies())
    guarded("solver:empty/rew_strats", lambda: tad.Solver([])._get_total_rewards_strategies())
    guarded("solver:empty/prune", lambda: tad.Solver([]).prune_stochastich_game())
    guarded("solver:empty/vi_rew", lambda: tad.Solver([]).value_iteration_total_rewards())
    guarded("solver:empty/vi_reach_np", lambda: tad.Solver([]).value_iteration_reachability([], False))
    guarded("solver:empty/vi_reach_p", lambda: tad.Solver([]).value_iteration_reachability([], True))
    guarded("solver:empty/solve_reach", lambda: tad.Solver([]).solve_reachability([], [], True))
    for thr in (1e-3, 1e-9, 0.5, 1, 2):        # >= 1: the loops must not iterate at all
        for name in ("p1_p2_mix", "prob_cycle", "float_rewards", "many_dead_successors"):
            game = games[name]

            def run(thr=thr, game=game):
                sg = tad.StochasticGame(**copy.deepcopy(game))
                sg.check_game()
                sl = sg.init_states()
                solver = tad.Solver(sl, threshold=thr)
                a = solver.solve_reachability(sg.transition_list, sg.final_states, True)
                solver.prune_reachability(a[0])
                solver.prune_stochastich_game()
                b = solver.solve_total_rewards()
                return a, b, snapshot(sl)
            guarded(f"solver:thr:{thr}:{name}", run)

    # ---- H. batch driver + report file
    batch = {}
    for name in ("p1_choice_dead", "initial_dead", "p1_p2_mix", "many_dead_successors"):
        batch[name] = copy.deepcopy(games[name])
    for name in ("neg_reward_first", "entry_len3", "no_final", "succ_n", "empty_transitions_last",
                 "unknown_player_last", "short_rewards"):
        batch["bad_" + name] = copy.deepcopy(malformed[name])
    for k in range(0, 40):
        batch[f"rnd_{k}"] = copy.deepcopy(randoms[k])
    rng = random.Random(5)
    for k in range(25):
        try:
            game = mutate(rng, random_game(rng))
        except Exception:
            continue
        if not still_well_formed(game):
            batch[f"mut_{k}"] = game
    try:
        results = cr.run_games(batch)
        for name, res in results.items():
            res = dict(res)
            res.pop("total_time")
            emit(f"batch:{name}", sorted(res.items(), key=lambda kv: kv[0]))
        for name, res in results.items():
            res["total_time"] = 0
        cr.save_results_to_file(results, "some/dir/report_name.py")
        emit("batch:files", sorted(os.listdir("outputs")))
        with open("outputs/report_name.txt") as fh:
            emit("batch:report", fh.read())
    except Exception as e:
        emit("batch:abort", describe_exc(e))

    sys.stdout.write("\n".join(out) + "\n")


# --------------------------------------------------------------------------- #
# parent
# --------------------------------------------------------------------------- #

def run_child(root):
    env = dict(os.environ, PYTHONDONTWRITEBYTECODE="1", PYTHONHASHSEED="0")
    proc = subprocess.run([sys.executable, os.path.abspath(__file__), "--child", root],
                          capture_output=True, text=True, timeout=CHILD_TIMEOUT, env=env)
    if proc.returncode != 0:
        print(f"child for {root} failed with code {proc.returncode}:\n{proc.stderr[-3000:]}")
        sys.exit(2)
    return proc.stdout.splitlines()


def main():
    if len(sys.argv) == 3 and sys.argv[1] == "--child":
        child(sys.argv[2])
        return
    if len(sys.argv) != 3:
        print(__doc__)
        sys.exit(2)
    a, b = run_child(sys.argv[1]), run_child(sys.argv[2])
    n_timeouts = sum(1 for line in a if "/TIMEOUT\t" in line)
    if n_timeouts:
        print(f"note: {n_timeouts} probes hit the wall-clock bound in A (compared as such)")
    for line_a, line_b in zip(a, b):
        if line_a != line_b:
            print("DIFFERENT")
            print(f"A: {line_a[:2000]}")
            print(f"B: {line_b[:2000]}")
            sys.exit(1)
    if len(a) != len(b):
        print(f"DIFFERENT: transcript lengths {len(a)} vs {len(b)}")
        sys.exit(1)
    print("SAME")
    print(f"({len(a)} observations compared, focus: {FOCUS})")
    sys.exit(0)


if __name__ == "__main__":
    main()
