#!/usr/bin/env python
"""Differential test for property C06 (every well-formed stopping game is solved
or declared unsolvable).

usage: python equiv.py <clean_repo_dir> <patched_repo_dir>

Both trees are loaded in their own subprocess (module names collide); each
subprocess replays the same seeded set of inputs and prints one line per case
(`label <TAB> repr-of-outcome`).  The parent compares the two transcripts.
Prints SAME / exit 0 when nothing differs, else the first difference / exit 1.

Non-terminating solves are cut off deterministically: every call of a node's
value_iteration_reach / value_iteration_rewards is counted and the solve is
aborted after CAP calls (both trees make these calls in the same order, so the
cut happens at the same place and the partial state is compared as well).
"""
import subprocess
import sys

CAP = 2500
CAP_LOGGED = 400
WORKER_TIMEOUT = 110


# --------------------------------------------------------------------------- #
# worker
# --------------------------------------------------------------------------- #
def worker(tree):
    import copy
    import logging
    import os
    import random
    import tempfile

    sys.path.insert(0, tree)
    import atexit
    import shutil
    scratch = tempfile.mkdtemp(prefix="equiv_F06_")
    atexit.register(shutil.rmtree, scratch, True)
    os.chdir(scratch)
    import tad
    import reverse_dfs as rdfs
    import conditionalrewards as cr

    out = []

    import time
    t0 = time.time()
    progress = os.environ.get("EQUIV_PROGRESS")

    def emit(label, value):
        out.append(f"{label}\t{value}")
        if progress and len(out) % 500 == 0:
            print(f"{time.time() - t0:7.1f}s {len(out)} {label[:60]}", file=sys.stderr, flush=True)

    # ---- deterministic cut-off ------------------------------------------- #
    class Cutoff(BaseException):
        pass

    calls = [0]
    cap = [CAP]
    last_state_list = [None]

    def wrap(cls, name):
        orig = cls.__dict__[name]

        def wrapper(self, state_list, *a, **k):
            calls[0] += 1
            last_state_list[0] = state_list
            if calls[0] > cap[0]:
                raise Cutoff()
            return orig(self, state_list, *a, **k)
        setattr(cls, name, wrapper)

    for cls in (tad.ProbabilisticNode, tad.PlayerOne, tad.PlayerTwo):
        for name in ("value_iteration_reach", "value_iteration_rewards"):
            wrap(cls, name)

    def snapshot(state_list):
        if state_list is None:
            return None
        return [(s.idx, s.reach_probability, s.expected_rewards, s.expected_rewards_min_reach,
                 s.expected_reach_min_rewards, s.next_states) for s in state_list]

    def guarded(fn, *args, **kwargs):
        """repr of the outcome of fn: value, exception type+message, or cut-off."""
        calls[0] = 0
        last_state_list[0] = None
        try:
            return "OK " + repr(fn(*args, **kwargs))
        except Cutoff:
            return "CUTOFF " + repr(snapshot(last_state_list[0]))
        except RecursionError:
            return "EXC RecursionError"
        except Exception as e:  # noqa
            return f"EXC {type(e).__name__}: {e}"

    # ---- log capture ------------------------------------------------------ #
    class ListHandler(logging.Handler):
        def __init__(self):
            super().__init__()
            self.messages = []

        def emit(self, record):
            self.messages.append(f"{record.levelname}:{record.getMessage()}")

    handler = ListHandler()
    root = logging.getLogger()
    root.addHandler(handler)
    root.setLevel(logging.WARNING)

    # ---- random games ----------------------------------------------------- #
    SPLITS = {
        1: [[1.0], [1]],
        2: [[0.5, 0.5], [0.25, 0.75], [0.1, 0.9], [0.9, 0.1], [1 / 3, 2 / 3]],
        3: [[0.25, 0.25, 0.5], [1 / 3, 1 / 3, 1 / 3], [0.2, 0.3, 0.5], [0.5, 0.25, 0.25]],
        4: [[0.25, 0.25, 0.25, 0.25], [0.1, 0.2, 0.3, 0.4]],
    }
    KINDS = [tad.PLAYER_1, tad.PLAYER_2, tad.PROBABILISTIC]

    def stopping_game(rng, n):
        """Terminal states (finals and dead sinks) are absorbing; player states only move
        to higher ranked states and every probabilistic state has a higher ranked successor,
        so a terminal state is reached with probability 1 whatever the players do."""
        order = list(range(n))
        if rng.random() < 0.3:
            rng.shuffle(order)
        rank = {s: r for r, s in enumerate(order)}
        n_term = rng.randint(1, max(1, min(4, n - 1)))
        terminal = order[n - n_term:]
        finals = [t for t in terminal if rng.random() < 0.6] or [terminal[-1]]
        if rng.random() < 0.2:
            finals += [s for s in order[:n - n_term] if rng.random() < 0.2]   # non absorbing finals
        rng.shuffle(finals)
        if rng.random() < 0.1:
            finals.append(finals[0])
        players = [rng.choice(KINDS) for _ in range(n)]
        small = rng.random() < 0.5
        rewards = [rng.choice([0, 1] if small else [0, 1, 1, 2, 3, 5]) for _ in range(n)]
        transitions = [None] * n
        for s in range(n):
            if s in terminal:
                targets = [s]
                if s in finals:
                    rewards[s] = 0 if rng.random() < 0.95 else 1
                else:
                    rewards[s] = rng.choice([0, 0, 0, 1])
                    if rng.random() < 0.3:
                        targets = [rng.choice([t for t in terminal if t not in finals])]
            else:
                higher = [t for t in range(n) if rank[t] > rank[s]]
                k = rng.choice([1, 2, 2, 3, 3, 4])
                targets = [rng.choice(higher) for _ in range(k)]       # parallel edges possible
                if players[s] == tad.PROBABILISTIC:
                    for j in range(1, k):
                        if rng.random() < 0.4:
                            targets[j] = rng.randrange(n)              # cycles, self loops
                    rng.shuffle(targets)
            if players[s] == tad.PROBABILISTIC:
                transitions[s] = list(zip(rng.choice(SPLITS[len(targets)]), targets))
            else:
                acts = "abcd"[:len(targets)]
                transitions[s] = list(zip(acts, targets))
        return dict(rewards=rewards, players=players, transition_list=transitions,
                    final_states=finals)

    def random_game(rng, n=None, shape=None):
        n = n or rng.randint(1, 8)
        if shape is None and rng.random() < 0.8:
            return stopping_game(rng, n)
        shape = shape or rng.choice(["any", "any", "any", "sinks", "ties", "chain"])
        players = [rng.choice(KINDS) for _ in range(n)]
        rewards = [rng.choice([0, 0, 1, 1, 2, 3, 5]) for _ in range(n)]
        if shape == "ties":
            rewards = [rng.choice([0, 1]) for _ in range(n)]
        n_final = rng.choice([1, 1, 1, 2, 3]) if n > 1 else 1
        finals = rng.sample(range(n), min(n_final, n))
        if rng.random() < 0.3:
            finals.sort()
        sinks = set()
        if shape == "sinks" and n > 2:
            candidates = [s for s in range(1, n) if s not in finals]
            sinks = set(rng.sample(candidates, min(len(candidates), rng.randint(1, 3))))
        transitions = []
        for s in range(n):
            if s in finals and rng.random() < 0.8:
                targets = [s]
                rewards[s] = 0
            elif s in sinks:
                others = sorted(sinks)
                targets = [rng.choice(others) for _ in range(rng.randint(1, 2))]
            elif shape == "chain":
                targets = [min(s + 1, n - 1)] + ([rng.randrange(n)] if rng.random() < 0.5 else [])
            else:
                k = rng.choice([1, 2, 2, 3, 3, 4])
                targets = [rng.randrange(n) for _ in range(k)]   # cycles, parallel edges
                if sinks and rng.random() < 0.6:
                    targets[rng.randrange(len(targets))] = rng.choice(sorted(sinks))
                if sinks and len(targets) > 2 and rng.random() < 0.5:
                    targets[0] = rng.choice(sorted(sinks))
                    targets[-1] = rng.choice(sorted(sinks))
            if players[s] == tad.PROBABILISTIC:
                probs = rng.choice(SPLITS[len(targets)])
                transitions.append(list(zip(probs, targets)))
            else:
                names = "abcd"
                acts = [names[i] for i in range(len(targets))]
                if rng.random() < 0.1:
                    acts = [rng.choice("ab") for _ in targets]   # duplicated action names
                transitions.append(list(zip(acts, targets)))
        if sinks:
            for s in sinks:
                rewards[s] = rng.choice([0, 0, 1])
        return dict(rewards=rewards, players=players, transition_list=transitions,
                    final_states=finals)

    def solve_case(label, game, prune, with_logs=False):
        game = copy.deepcopy(game)
        before = repr(game)
        if with_logs:
            handler.messages = []
            root.setLevel(logging.DEBUG)
            cap[0] = CAP_LOGGED
        try:
            res = guarded(lambda: tad.StochasticGame(prune_states=prune, **game).solve())
        finally:
            root.setLevel(logging.WARNING)
            cap[0] = CAP
        emit(label, res)
        emit(label + " input-unchanged", repr(game) == before)
        if with_logs:
            emit(label + " log", repr(handler.messages[:3000]))

    rng = random.Random(60606)
    for i in range(1300):
        game = random_game(rng)
        for prune in (True, False):
            solve_case(f"solve#{i} prune={prune}", game, prune, with_logs=(i % 60 == 0))

    # shapes named in the property: separated / adjacent dead successors, rewarded self loop
    P1, P2, PR = tad.PLAYER_1, tad.PLAYER_2, tad.PROBABILISTIC
    crafted = {
        "two separated dead successors": dict(
            rewards=[1, 1, 0, 1], players=[PR, PR, PR, PR],
            transition_list=[[(0.25, 1), (0.5, 2), (0.25, 3)], [(1.0, 1)], [(1.0, 2)], [(1.0, 3)]],
            final_states=[2]),
        "two adjacent dead successors on a rewarded self loop": dict(
            rewards=[1, 1, 1, 0], players=[PR, PR, PR, PR],
            transition_list=[[(0.25, 0), (0.25, 1), (0.25, 2), (0.25, 3)], [(1.0, 1)], [(1.0, 2)],
                             [(1.0, 3)]],
            final_states=[3]),
        "initial dead": dict(
            rewards=[1, 0], players=[P1, PR],
            transition_list=[[("a", 0)], [(1.0, 1)]], final_states=[1]),
        "forced away by player two": dict(
            rewards=[1, 0, 1], players=[P2, PR, P1],
            transition_list=[[("a", 1), ("b", 2)], [(1.0, 1)], [("a", 2)]], final_states=[1]),
        "player one all dead": dict(
            rewards=[1, 1, 1, 0], players=[PR, P1, PR, PR],
            transition_list=[[(0.5, 1), (0.5, 3)], [("a", 2), ("b", 2)], [(1, 2)], [(1, 3)]],
            final_states=[3]),
        "initial is final": dict(
            rewards=[0], players=[PR], transition_list=[[(1.0, 0)]], final_states=[0]),
        "exact tie p1": dict(
            rewards=[1, 2, 2, 0], players=[P1, PR, PR, PR],
            transition_list=[[("a", 1), ("b", 2), ("c", 1)], [(1.0, 3)], [(1.0, 3)], [(1.0, 3)]],
            final_states=[3]),
        "exact tie p2": dict(
            rewards=[1, 2, 2, 0], players=[P2, PR, PR, PR],
            transition_list=[[("a", 1), ("b", 2), ("c", 1)], [(0.5, 3), (0.5, 1)], [(0.5, 3), (0.5, 2)],
                             [(1.0, 3)]],
            final_states=[3, 3]),
    }
    for name, game in crafted.items():
        for prune in (True, False):
            solve_case(f"crafted {name} prune={prune}", game, prune, with_logs=True)

    # ---- malformed games -------------------------------------------------- #
    nan, inf = float("nan"), float("inf")

    def mutate(rng, game):
        g = copy.deepcopy(game)
        n = len(g["players"])
        kind = rng.randrange(24)
        s = rng.randrange(n)
        if kind == 0:
            g["players"][s] = rng.choice(["player 1", "", None, 3])
        elif kind == 1:
            g["rewards"].append(1)
        elif kind == 2:
            g["rewards"][s] = rng.choice([-1, -0.5, nan, inf, 0.5, True, None, "1"])
        elif kind == 3:
            g["final_states"] = rng.choice([[], [n], [-1], [0, n + 3], (0,), [0.0], [True], None, "0",
                                            [None], [[0]], {0}, [n - 1, n - 1]])
        elif kind == 4:
            g["transition_list"][s] = rng.choice([[], None, (), "ab", 5, {}])
        elif kind == 5:
            g["transition_list"].pop()
        elif kind == 6:
            g["transition_list"][s] = [rng.choice([[0.5, 0], (0.5, 0, 1), (0,), "x0", None, 7])]
        elif kind == 7:
            g["transition_list"][s] = [(rng.choice([None, b"a", 1, 0.5, "a", (1,)]), 0)]
        elif kind == 8:
            g["transition_list"][s] = [(rng.choice(["a", 0.5]), rng.choice([n, -1, 0.0, "0", None, True]))]
        elif kind == 9 and g["players"][s] == tad.PROBABILISTIC:
            g["transition_list"][s] = [(rng.choice([0, 0.0, 2, -1, nan, inf, True]), t)
                                       for _, t in g["transition_list"][s]]
        elif kind == 10 and g["players"][s] == tad.PROBABILISTIC:
            g["transition_list"][s] = [(0.3, t) for _, t in g["transition_list"][s]]
        elif kind == 11:
            g["players"] = tuple(g["players"])
            g["rewards"] = tuple(g["rewards"])
        elif kind == 12:
            g["players"].append(tad.PLAYER_1)
        elif kind == 13:
            g["transition_list"] = tuple(g["transition_list"])
        elif kind == 14:
            g["rewards"] = [float(r) for r in g["rewards"]]
        elif kind == 15:
            g["rewards"] = []
        elif kind == 16:
            g["players"], g["rewards"], g["transition_list"] = [], [], []
        elif kind == 17:
            g["rewards"][s] = 10 ** 400
        elif kind == 18:
            g["final_states"] = list(range(n))
        elif kind == 19:
            g["transition_list"][s] = g["transition_list"][s] * 3
        elif kind == 20:
            g["rewards"] = [r * 1e300 for r in g["rewards"]]
        elif kind == 21:
            g["rewards"] = None
        elif kind == 22:
            g["final_states"] = tuple(g["final_states"])
        return g

    rng = random.Random(7)
    for i in range(700):
        game = mutate(rng, random_game(rng, n=rng.randint(1, 5)))
        for prune in (True, False):
            solve_case(f"malformed#{i} prune={prune}", game, prune)

    # ---- run_games (msg etc.) -------------------------------------------- #
    rng = random.Random(99)
    for i in range(60):
        games = {}
        for j in range(4):
            g = random_game(rng, n=rng.randint(1, 6))
            if rng.random() < 0.25:
                g = mutate(rng, g)
            games[f"g{j}"] = g
        for name, g in crafted.items():
            if rng.random() < 0.2:
                games[name] = copy.deepcopy(g)

        def run():
            res = cr.run_games(games)
            for v in res.values():
                v["total_time"] = None
            return res
        emit(f"run_games#{i}", guarded(run))

    # ---- Solver loops called directly ------------------------------------- #
    def build_states(game):
        return tad.StochasticGame(**copy.deepcopy(game)).init_states()

    rng = random.Random(1234)
    thresholds = [10 ** (-6), 1e-3, 0.5, 0.999, 1, 1.0, 2, 1e-12, nan, inf]
    done = 0
    for i in range(2000):
        if done >= 500:
            break
        game = random_game(rng, n=rng.randint(1, 6))
        try:
            build_states(game)
        except Exception:
            continue
        done += 1
        threshold = rng.choice(thresholds)
        prune = rng.random() < 0.5
        n = len(game["players"])
        mode = rng.randrange(4)
        if mode == 0:
            order = rdfs.reverse_dfs(game["transition_list"], game["final_states"])
        elif mode == 1:
            order = list(range(n))           # finals included
        elif mode == 2:
            order = [rng.randrange(n) for _ in range(rng.randint(0, 2 * n))]   # duplicates / empty
        else:
            order = tuple(reversed(range(n)))
        preset = rng.random() < 0.3

        def reach():
            states = build_states(game)
            if preset:
                for s in states:
                    s.reach_probability = rng2.choice([0, 0.0, 1, 1.0, 0.5, 0.25, nan, -0.5, 2])
            solver = tad.Solver(states, threshold=threshold)
            it = solver.value_iteration_reachability(order, prune)
            return it, snapshot(states)
        rng2 = random.Random(i)
        emit(f"vi_reach#{i} thr={threshold!r} prune={prune} order={order!r}", guarded(reach))

        def total():
            states = build_states(game)
            if preset:
                for s in states:
                    s.reach_probability = rng2.choice([0, 0.0, 1, 1.0, 0.5, 0.25])
                    s.expected_rewards = rng2.choice([0, 0.0, 1, 2.5, nan, inf, 3])
                    s.expected_rewards_min_reach = rng2.choice([0, 1.0, 2, nan])
                    s.expected_reach_min_rewards = rng2.choice([0, 1.0, 0.5])
            solver = tad.Solver(states, threshold=threshold)
            it = solver.value_iteration_total_rewards()
            return it, snapshot(states)
        rng2 = random.Random(i + 1)
        emit(f"vi_rew#{i} thr={threshold!r}", guarded(total))

        def full():
            states = build_states(game)
            solver = tad.Solver(states, threshold=threshold)
            a = solver.solve_reachability(game["transition_list"], game["final_states"], prune)
            solver.prune_reachability(a[0])
            if prune:
                solver.prune_stochastich_game()
            b = solver.solve_total_rewards()
            return a, b, snapshot(states)
        emit(f"solver_full#{i} thr={threshold!r} prune={prune}", guarded(full))

    emit("solver bad threshold 0", guarded(lambda: tad.Solver([], threshold=0)))
    emit("solver empty states prune", guarded(
        lambda: tad.Solver([]).value_iteration_reachability([], True)))
    emit("solver empty states noprune", guarded(
        lambda: tad.Solver([]).value_iteration_reachability([], False)))
    emit("solver empty total", guarded(lambda: tad.Solver([]).value_iteration_total_rewards()))
    emit("solver no finals", guarded(lambda: tad.Solver([]).solve_reachability([], [], True)))
    emit("solver bad index", guarded(
        lambda: tad.Solver(build_states(crafted["initial dead"])).value_iteration_reachability([5], True)))
    emit("solver none order", guarded(
        lambda: tad.Solver(build_states(crafted["initial dead"])).value_iteration_reachability(None, True)))

    # ---- single value-iteration steps on arbitrary state values ---------- #
    rng = random.Random(4321)
    values = [0, 0.0, -0.0, 1, 1.0, True, 0.5, 0.25, 0.75, 1e-7, 0.9999999, nan, -1, 2, inf, 3, 2.5]
    for i in range(1500):
        n = rng.randint(1, 5)
        kinds = [rng.choice(KINDS) for _ in range(n)]
        states = []
        for s in range(n):
            k = rng.choice([0, 1, 1, 2, 2, 3, 4])
            targets = [rng.randrange(n) for _ in range(k)]
            if kinds[s] == tad.PROBABILISTIC:
                nxt = [(rng.choice([0.5, 0.25, 1, 1.0, 0, 1 / 3, 0.1]), t) for t in targets]
                cls = tad.ProbabilisticNode
            else:
                nxt = [(rng.choice("abc"), t) for t in targets]
                cls = tad.PlayerOne if kinds[s] == tad.PLAYER_1 else tad.PlayerTwo
            states.append(cls(player=kinds[s], idx=s, reward=rng.choice([0, 1, 2, 0.5]),
                              next_states=nxt, num_states=n, is_final_node=rng.random() < 0.2))
        for s in states:
            s.reach_probability = rng.choice(values + [None, "x"] if i % 7 == 0 else values)
            s.expected_rewards = rng.choice(values)
            s.expected_rewards_min_reach = rng.choice(values)
            s.expected_reach_min_rewards = rng.choice(values)
        for s in states:
            emit(f"step#{i} reach {s.player} {s.idx}", guarded(s.value_iteration_reach, states))
            emit(f"step#{i} rew {s.player} {s.idx}", guarded(s.value_iteration_rewards, states))
        short = states[:rng.randint(0, n)]
        emit(f"step#{i} short reach", guarded(states[0].value_iteration_reach, short))

    # ---- reverse_dfs and its helpers -------------------------------------- #
    rng = random.Random(2468)

    def gen(xs):
        return (x for x in xs)

    for i in range(1200):
        n = rng.randint(0, 8)
        big = n + rng.choice([0, 0, 0, 2])
        tl = []
        for s in range(n):
            tl.append([(rng.choice(["a", 0.5, 1]), rng.randrange(big) if big else 0)
                       for _ in range(rng.choice([0, 1, 2, 2, 3, 5]))])
        finals = [rng.randrange(n) for _ in range(rng.randint(0, 3))] if n else []
        kind = rng.randrange(16)
        if kind == 0:
            finals = tuple(finals)
        elif kind == 1:
            finals = set(finals)
        elif kind == 2:
            finals = gen(finals)
        elif kind == 3:
            finals = finals + [n + 5]
        elif kind == 4:
            finals = [float(f) for f in finals] + [True]
        elif kind == 5 and tl:
            tl[rng.randrange(n)] = rng.choice([[(1, 2, 3)], [5], None, [(1,)], "ab", ["ab", "c0"], [("a", [0])],
                                               [("a", "x")], [("a", None)], ((0.5, 0),), [[0.5, 0]]])
        elif kind == 6:
            finals = [-1]
        elif kind == 7:
            tl = tuple(tuple(t) for t in tl)
        elif kind == 8:
            finals = {f: "x" for f in finals}
        elif kind == 9:
            finals = None
        elif kind == 10:
            finals = [[0]]
        elif kind == 11 and tl:
            tl[0] = tl[0] + [("a", "x")]
            finals = rng.choice(["x", ["x"], ["x", 0]])
        emit(f"rdfs#{i} core", guarded(rdfs.reverse_transition_list_core, tl))
        emit(f"rdfs#{i} rev", guarded(rdfs.reverse_transition_list, tl))
        fin_repr = "gen" if kind == 2 else repr(finals)
        emit(f"rdfs#{i} dfs finals={fin_repr}", guarded(rdfs.reverse_dfs, tl, finals))
        emit(f"rdfs#{i} tl-unchanged", repr(tl))

        def from_each():
            rev = rdfs.reverse_transition_list(tl)
            res = []
            visited = set()
            for s in list(rev)[:4]:
                r = rdfs.reverse_dfs_from(s, rev, visited)
                res.append((r, sorted(visited, key=repr)))
            return res
        emit(f"rdfs#{i} from", guarded(from_each))

    lot_cases = [
        [], [(0, 1)], [(0, 1), (0, 1), (2, 0), (0, 3)], [(1, 2, 3)], [(1,)], [()], [5], ["ab", "ac", "b"],
        [[1, 2], [1, 3]], [([1], 2)], [(None, None)], [(1.0, "a"), (1, "b"), (True, "c")],
        [{0: "k", 1: "v"}], None, 5, "abba", ((3, 1), (2, 1), (3, 2)), [(nan, 1), (nan, 2)],
        [(0, 1), (5,)], [(0, 1), ([], 2)], gen([(4, 0), (4, 1)]),
    ]
    for j, lot in enumerate(lot_cases):
        emit(f"lot#{j}", guarded(rdfs.list_of_tuples_to_dict_of_lists, lot))
    rng = random.Random(13579)
    for j in range(300):
        lot = [(rng.randrange(6), rng.randrange(6)) for _ in range(rng.randint(0, 12))]
        emit(f"lot-rand#{j}", guarded(rdfs.list_of_tuples_to_dict_of_lists, lot))

        def ams():
            d = rdfs.list_of_tuples_to_dict_of_lists(lot)
            n_states = rng.choice([0, 1, 3, 6, 9, -2, True])
            r = rdfs.add_missing_states(d, n_states)
            lists = list(r.values())
            distinct = len({id(x) for x in lists}) == len(lists)
            return n_states, r, r is d, distinct
        emit(f"ams-rand#{j}", guarded(ams))
    for j, (d, k) in enumerate([({}, 0), ({}, 3), ({2: [1]}, 2), ({5: [0], 0: [5]}, 4), ({1.0: [0]}, 3),
                                ({True: [0]}, 2), ({"a": [1]}, 2), ({}, 2.0), ({}, None), ({}, "3"),
                                (None, 2), ([], 2), ([[], []], 2), ({0: None}, 1)]):
        emit(f"ams#{j}", guarded(rdfs.add_missing_states, d, k))

    sys.stdout.write("\n".join(out) + "\n")


# --------------------------------------------------------------------------- #
# parent
# --------------------------------------------------------------------------- #
def run_worker(tree):
    import os
    env = dict(os.environ, PYTHONHASHSEED="0")
    proc = subprocess.run([sys.executable, os.path.abspath(__file__), "--worker", tree],
                          capture_output=True, text=True, timeout=WORKER_TIMEOUT, env=env)
    if proc.returncode != 0:
        print(f"worker for {tree} failed (exit {proc.returncode}):\n{proc.stderr[-3000:]}")
        sys.exit(1)
    return proc.stdout.splitlines()


def main():
    if len(sys.argv) == 3 and sys.argv[1] == "--worker":
        worker(sys.argv[2])
        return
    if len(sys.argv) != 3:
        print(__doc__)
        sys.exit(2)
    import os
    from concurrent.futures import ThreadPoolExecutor
    trees = [os.path.abspath(p) for p in sys.argv[1:3]]
    with ThreadPoolExecutor(2) as pool:
        clean, patched = pool.map(run_worker, trees)
    for idx, (a, b) in enumerate(zip(clean, patched)):
        if a != b:
            print(f"DIFFERENT at case {idx}:\n  clean  : {a[:1500]}\n  patched: {b[:1500]}")
            sys.exit(1)
    if len(clean) != len(patched):
        print(f"DIFFERENT number of cases: {len(clean)} vs {len(patched)}")
        sys.exit(1)
    print(f"{len(clean)} comparisons", file=sys.stderr)
    print("SAME")
    sys.exit(0)


if __name__ == "__main__":
    main()
