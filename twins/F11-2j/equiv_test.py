#!/usr/bin/env python
"""Behavioural equivalence test for property C11 (generator -> three-game file -> reader -> solver).

usage: python equiv_test.py <path-to-patched-root> <path-to-clean-root>

Each tree is loaded in its own subprocess (worker mode) that runs inside a private scratch
directory containing an empty inputs/ and outputs/ folder.  The worker records an ordered list
of (label, observation) pairs; the parent compares the two lists and prints PASS / FAIL.

What is observed
 * the command line generator (roberta_generator.main) for many parameter sets including the
   boundaries (width 1, length 1, max reward 1 and huge, tiny / near-1 / denormal probabilities,
   force_down on and off): the set of files written and their bytes;
 * every written file read back through conditionalrewards.read_dict_from_file: key order, repr,
   structural well-formedness facts, and for small boards the outcome of the driver's run_games
   (time-boxed; total_time removed);
 * rejected parameter sets: exception type + message, both through main() and check_input(),
   including several violations at once (which message wins), NaN, infinities, wrong types;
 * the public building blocks called directly (gen_rnd_board, get_random_moves, write_preamble,
   write_robot_A/B/C on a StringIO, write_robots, the transition helpers, prob_to_str);
 * the manual entry point create_sg_from_board with hand-made boards (well-formed ones, the
   single-tile board, force-down boards) and malformed ones (ragged rows, bad move / tile codes,
   empty board): exception type + message and whatever was written to disk up to that point;
 * the reader on non-dict / empty / syntactically broken / missing files and on files whose
   expression looks at the reader's local names.
"""
import hashlib
import io
import json
import os
import subprocess
import sys
import tempfile
import time

SOLVE_BUDGET = 10  # seconds per run_games call

KNOWN_FUNCTIONS = {
    "roberta_generator": [
        "gen_rnd_board", "get_random_moves", "player_two_transitions",
        "player_one_down_transitions", "player_one_left_right_transitions",
        "prob_tile_break_transitions", "write_preamble", "write_robot_A",
        "prob_robot_down_break_transitions", "prob_robot_left_break_transitions",
        "prob_robot_right_break_transitions", "write_robot_B",
        "player_one_down_left_right_transitions", "prob_light_break_transitions",
        "write_robot_C", "write_robots", "init_parser", "check_input", "prob_to_str", "main"],
    "conditionalrewards": [
        "save_results_to_file", "read_dict_from_file", "run_games", "set_logger", "init_parser",
        "main"],
    "stochastic_game_from_roborta_board": [
        "get_max_from_matrix", "create_sg_from_board", "write_robots", "prob_to_str"],
}


# --------------------------------------------------------------------------------------------
# worker
# --------------------------------------------------------------------------------------------

def _exc(e):
    return "EXC %s: %s" % (type(e).__name__, e)


def _snapshot_dir(path):
    out = []
    for name in sorted(os.listdir(path)):
        with open(os.path.join(path, name), "rb") as fh:
            data = fh.read()
        out.append((name, len(data), hashlib.sha256(data).hexdigest()))
    return out


def _clear_dir(path):
    for name in os.listdir(path):
        os.remove(os.path.join(path, name))


def worker(root, out_path):
    import gc
    import signal
    import contextlib

    sys.path.insert(0, root)
    sys.dont_write_bytecode = True
    scratch = tempfile.mkdtemp(prefix="c11_equiv_")
    os.chdir(scratch)
    os.mkdir("inputs")
    os.mkdir("outputs")

    import roberta_generator as rg
    import conditionalrewards as cr
    import stochastic_game_from_roborta_board as manual
    from tad import StochasticGame

    assert os.path.dirname(os.path.abspath(rg.__file__)) == os.path.abspath(root)
    assert os.path.dirname(os.path.abspath(cr.__file__)) == os.path.abspath(root)

    obs = []

    def rec(label, value):
        obs.append([label, value if isinstance(value, str) else repr(value)])

    class Timeout(Exception):
        pass

    def on_alarm(*_a):
        raise Timeout()

    signal.signal(signal.SIGALRM, on_alarm)

    def call(label, fn, *a, **k):
        try:
            rec(label, repr(fn(*a, **k)))
        except SystemExit as e:
            rec(label, "SystemExit %r" % (e.code,))
        except Exception as e:  # noqa
            rec(label, _exc(e))

    def run_main(argv):
        old = sys.argv
        sys.argv = ["roberta_generator.py"] + [str(x) for x in argv]
        err = io.StringIO()
        try:
            with contextlib.redirect_stderr(err):
                rg.main()
            res = "ok"
        except SystemExit as e:
            res = "SystemExit %r | %s" % (e.code, err.getvalue())
        except Exception as e:  # noqa
            res = _exc(e)
        finally:
            sys.argv = old
        gc.collect()
        return res

    def wellformed_facts(d):
        facts = [list(d.keys())]
        for name, g in d.items():
            n = len(g["players"])
            sg = StochasticGame(**g)
            try:
                sg.check_game()
                chk = "valid"
            except Exception as e:  # noqa
                chk = _exc(e)
            empties = [i for i, t in enumerate(g["transition_list"]) if not t]
            badprob = []
            for i, (p, t) in enumerate(zip(g["players"], g["transition_list"])):
                if p == "Probabilistic":
                    if any(not (q > 0) for q, _ in t) or sum(q for q, _ in t) != 1:
                        badprob.append(i)
            targets_ok = all(0 <= s < n for t in g["transition_list"] for _, s in t)
            facts.append((name, n, len(g["rewards"]), len(g["transition_list"]), chk, empties,
                          badprob, targets_ok, g["final_states"],
                          g["transition_list"][-1], g["transition_list"][-2],
                          sg.count_transitions(), sorted(g.keys())))
        return facts

    def solve_via_driver(d):
        signal.alarm(SOLVE_BUDGET)
        try:
            res = cr.run_games(d)
            signal.alarm(0)
            for v in res.values():
                v.pop("total_time", None)
            return repr(res)
        except Timeout:
            return "TIMEOUT"
        except Exception as e:  # noqa
            signal.alarm(0)
            return _exc(e)
        finally:
            signal.alarm(0)

    def read_back(label, solve):
        for name in sorted(os.listdir("inputs")):
            path = "inputs/" + name
            try:
                d = cr.read_dict_from_file(path)
            except Exception as e:  # noqa
                rec(label + " read " + name, _exc(e))
                continue
            rec(label + " read " + name, hashlib.sha256(repr(d).encode()).hexdigest())
            try:
                rec(label + " facts " + name, repr(wellformed_facts(d)))
            except Exception as e:  # noqa
                rec(label + " facts " + name, _exc(e))
            if solve:
                rec(label + " solve " + name, solve_via_driver(d))
        return None

    # ---------------------------------------------------------------- 1. accepted CLI runs
    tiny = 1e-12
    near1 = 1 - 1e-12
    denorm = 5e-324
    cli_sets = []
    for seed in (0, 1, 7):
        for w, l in ((1, 1), (1, 2), (2, 1), (2, 2), (3, 3), (1, 5), (5, 1), (4, 2)):
            for fd in (False, True):
                cli_sets.append(dict(s=seed, w=w, l=l, f=fd, solve=(w * l <= 9)))
    for fd in (False, True):
        cli_sets.append(dict(s=12345, w=8, l=6, f=fd))
        cli_sets.append(dict(s=40, w=20, l=10, f=fd))
        cli_sets.append(dict(s=2, w=3, l=4, m=1, f=fd, solve=True))
        cli_sets.append(dict(s=2, w=3, l=2, m=2, f=fd, solve=True))
        cli_sets.append(dict(s=2, w=4, l=4, m=30, f=fd))
        cli_sets.append(dict(s=2, w=4, l=4, m=2000, f=fd))
        cli_sets.append(dict(s=3, w=3, l=3, p=tiny, q=tiny, r=tiny, t=tiny, f=fd))
        cli_sets.append(dict(s=3, w=3, l=3, p=near1, q=near1, r=near1, t=near1, f=fd))
        cli_sets.append(dict(s=3, w=2, l=3, p=denorm, q=denorm, r=denorm, t=denorm, f=fd))
        cli_sets.append(dict(s=4, w=3, l=3, p=0.5, q=0.25, r=0.75, t=0.5, f=fd, solve=True))
        cli_sets.append(dict(s=5, w=3, l=2, p=0.3, q=0.7, r=0.2, t=0.9, f=fd, solve=True))
        cli_sets.append(dict(s=5, w=2, l=3, p=0.999999, q=0.000001, r=0.1234567, t=0.05, f=fd))
        cli_sets.append(dict(s=6, w=1, l=1, p=0.005, q=0.004, r=0.015, t=0.995, f=fd, solve=True))
        cli_sets.append(dict(s=6, w=1, l=3, p=0.1, q=0.1, r=0.1, t=0.99, f=fd, solve=True))
        cli_sets.append(dict(s=2 ** 70, w=2, l=2, f=fd, solve=True))
    for seed in range(20, 50):
        w = 1 + seed % 4
        l = 1 + (seed // 4) % 3
        cli_sets.append(dict(s=seed, w=w, l=l, f=bool(seed % 2), t=0.1 + 0.02 * (seed - 20),
                             r=0.05 * (1 + seed % 7), solve=(seed % 3 == 0)))

    flag = {"s": "-s", "w": "-w", "l": "-l", "m": "-m", "p": "-p", "q": "-q", "r": "-r", "t": "-t"}
    for n, ps in enumerate(cli_sets):
        argv = []
        for k, v in ps.items():
            if k in flag:
                argv += [flag[k], repr(v)]
        if ps.get("f"):
            argv.append("-f")
        label = "cli#%d %s" % (n, " ".join(argv))
        _clear_dir("inputs")
        rec(label, run_main(argv))
        rec(label + " files", repr(_snapshot_dir("inputs")))
        read_back(label, bool(ps.get("solve")))
    # long option names + defaults
    _clear_dir("inputs")
    rec("cli defaults", run_main([]))
    rec("cli defaults files", repr(_snapshot_dir("inputs")))
    read_back("cli defaults", True)
    _clear_dir("inputs")
    rec("cli long", run_main(["--seed", 9, "--width", 2, "--length", 2, "--prob_robot_break", 0.2,
                              "--prob_light_break", 0.3, "--prob_tile_break", 0.4,
                              "--prob_loose_tile", 0.6, "--max_reward", 3, "--force_down"]))
    rec("cli long files", repr(_snapshot_dir("inputs")))
    read_back("cli long", True)

    # ---------------------------------------------------------------- 2. rejected parameter sets
    _clear_dir("inputs")
    bad_cli = [
        ["-s", -1], ["-w", 0], ["-w", -3], ["-l", 0], ["-l", -1], ["-m", 0], ["-m", -5],
        ["-p", 0], ["-p", 1], ["-p", -0.1], ["-p", 1.5], ["-q", 0], ["-q", 1], ["-q", 2],
        ["-r", 0], ["-r", 1], ["-r", "-0.0"], ["-t", 0], ["-t", 1], ["-t", "1e0"],
        ["-p", "nan"], ["-q", "nan"], ["-r", "nan"], ["-t", "nan"],
        ["-p", "inf"], ["-t", "-inf"],
        ["-s", -1, "-w", 0], ["-w", 0, "-l", 0], ["-l", 0, "-p", 0], ["-p", 0, "-q", 0],
        ["-q", 1, "-t", 1], ["-t", 1, "-r", 1], ["-r", 1, "-m", 0], ["-m", 0, "-s", -1],
        ["-t", 0, "-r", 0, "-q", 0, "-p", 0, "-l", 0],
        ["-w", "x"], ["-s", "1.5"], ["-p", "abc"], ["--bogus"], ["-h"],
    ]
    for argv in bad_cli:
        rec("badcli %r" % (argv,), run_main(argv))
    rec("badcli files", repr(_snapshot_dir("inputs")))

    nan = float("nan")
    inf = float("inf")
    good = dict(seed=0, width=3, length=3, prob_robot_break=0.1, prob_light_break=0.1,
                prob_loose_tile=0.3, prob_tile_break=0.1, max_reward=6)
    order = ["seed", "width", "length", "prob_robot_break", "prob_light_break",
             "prob_loose_tile", "prob_tile_break", "max_reward"]
    call("check good", rg.check_input, **good)
    call("check good positional", rg.check_input, *[good[k] for k in order])
    values = [-1, 0, 1, -0.0, 0.0, 1.0, 0.5, 1 - 1e-16, 1e-320, 5e-324, -5e-324, 1.0000000000000002,
              nan, inf, -inf, True, False, 10 ** 30, -10 ** 30, "a", None, [1], 2.5, 1 + 0j]
    for key in order:
        for v in values:
            ps = dict(good)
            ps[key] = v
            call("check %s=%r" % (key, v), rg.check_input, **ps)
    # pairs of violations / type errors: which one is reported first
    bads = {"seed": [-1, "a"], "width": [0, "a"], "length": [-2, None],
            "prob_robot_break": [0, 1, "a"], "prob_light_break": [1.5, None],
            "prob_loose_tile": [-1, "a"], "prob_tile_break": [1, [1]], "max_reward": [0, "a"]}
    for i, k1 in enumerate(order):
        for k2 in order[i + 1:]:
            for v1 in bads[k1]:
                for v2 in bads[k2]:
                    ps = dict(good)
                    ps[k1] = v1
                    ps[k2] = v2
                    call("check2 %s=%r %s=%r" % (k1, v1, k2, v2), rg.check_input, **ps)
    call("check all bad", rg.check_input, -1, 0, 0, 0, 0, 0, 0, 0)
    call("check too few", rg.check_input, 1, 2, 3)
    call("check kw unknown", rg.check_input, bogus=1, **good)

    # ---------------------------------------------------------------- 3. building blocks
    for x in (0, 0.001, 0.004, 0.005, 0.0051, 0.015, 0.025, 0.1, 0.125, 0.5, 0.995, 0.999999,
              1, 5e-324, nan, "a"):
        call("prob_to_str %r" % (x,), rg.prob_to_str, x)

    boards = {}
    for seed, l, w, plt, mr, fd in [
        (0, 1, 1, 0.3, 6, False), (0, 1, 1, 0.3, 6, True), (1, 1, 4, 0.5, 1, True),
        (2, 4, 1, 0.5, 2, False), (3, 3, 3, 0.3, 6, True), (4, 2, 5, 0.9, 10, False),
        (5, 5, 2, 0.1, 3, True), (6, 6, 6, 0.99, 60, False), (7, 3, 4, 1e-9, 1, False),
        (8, 2, 2, 0.5, 1100, True), (9, 0, 3, 0.5, 6, False), (10, 3, 0, 0.5, 6, False),
        (11, 3, 0, 0.5, 6, True), (12, 2, 2, 0.5, 0, False), (13, 2, 2, 0.5, -1, False),
        (14, 2, 2, 0.5, -3, True), ("text", 2, 3, 0.4, 4, True), (2.5, 2, 2, 0.4, 4, False),
    ]:
        key = "board(%r,l=%r,w=%r,%r,%r,%r)" % (seed, l, w, plt, mr, fd)
        try:
            b = rg.gen_rnd_board(seed, l, w, plt, mr, fd)
            rec("gen " + key, repr(b))
            if l and w and isinstance(b, tuple):
                boards[key] = (l, w) + tuple(b)
        except Exception as e:  # noqa
            rec("gen " + key, _exc(e))
    call("gen defaults", rg.gen_rnd_board, 3, 2, 2, 0.3)
    import random
    for l, w, fd in [(1, 1, True), (1, 1, False), (3, 4, True), (3, 4, False), (0, 2, True)]:
        random.seed(99)
        call("moves %r" % ((l, w, fd),), rg.get_random_moves, l, w, fd)
        rec("moves state after %r" % ((l, w, fd),), repr(random.random()))

    # hand made boards
    hand = {
        "single": (1, 1, [[1]], [[0]], [[0]]),
        "single loose": (1, 1, [[1]], [[4]], [[1]]),
        "single down": (1, 1, [[3]], [[2]], [[1]]),
        "single left": (1, 1, [[0]], [[2]], [[0]]),
        "single right": (1, 1, [[2]], [[2]], [[1]]),
        "row": (1, 4, [[0, 1, 2, 3]], [[0, 1, 2, 3]], [[1, 0, 1, 0]]),
        "col": (4, 1, [[0], [1], [2], [3]], [[5], [0], [0], [1]], [[0], [1], [1], [0]]),
        "2x2 all down": (2, 2, [[3, 3], [3, 3]], [[1, 1], [1, 1]], [[0, 0], [0, 0]]),
        "2x2 all loose": (2, 2, [[1, 1], [1, 1]], [[0, 0], [0, 0]], [[1, 1], [1, 1]]),
        "3x3 mix": (3, 3, [[0, 1, 3], [2, 3, 1], [1, 1, 0]], [[1, 0, 2], [0, 5, 0], [3, 0, 1]],
                    [[0, 1, 0], [1, 0, 0], [0, 0, 1]]),
        "4x4 README-like": (4, 4, [[1, 1, 2, 0], [1, 3, 1, 1], [2, 1, 1, 0], [1, 1, 3, 1]],
                            [[0, 1, 0, 2], [1, 0, 0, 0], [0, 3, 0, 1], [5, 0, 0, 0]],
                            [[0, 0, 1, 0], [1, 0, 0, 0], [0, 0, 0, 1], [0, 1, 0, 0]]),
        "tuples": (2, 2, ((1, 0), (2, 1)), ((1, 2), (3, 4)), ((0, 1), (1, 0))),
        "bool tiles float rewards": (2, 2, [[1, 0], [2, 1]], [[1.0, 2.9], [0.5, 4]],
                                     [[False, True], [True, False]]),
    }
    boards.update(hand)
    malformed = {
        "move code 4": (2, 2, [[1, 4], [1, 1]], [[1, 1], [1, 1]], [[0, 0], [0, 0]]),
        "move code -1": (2, 2, [[1, 1], [-1, 1]], [[1, 1], [1, 1]], [[0, 0], [0, 0]]),
        "tile code 2": (2, 2, [[1, 1], [1, 1]], [[1, 1], [1, 1]], [[0, 0], [0, 2]]),
        "tile code -1": (2, 2, [[1, 1], [1, 1]], [[1, 1], [1, 1]], [[0, -1], [0, 0]]),
        "ragged moves": (2, 2, [[1, 1], [1]], [[1, 1], [1, 1]], [[0, 0], [0, 0]]),
        "ragged rewards": (2, 2, [[1, 1], [1, 1]], [[1], [1, 1]], [[0, 0], [0, 0]]),
        "ragged tiles": (2, 2, [[1, 1], [1, 1]], [[1, 1], [1, 1]], [[0, 0], [0]]),
        "short rewards": (2, 2, [[1, 1], [1, 1]], [[1, 1]], [[0, 0], [0, 0]]),
        "long rows": (2, 2, [[1, 1, 1], [1, 1, 1]], [[1, 1, 7], [1, 1, 7]], [[0, 0, 1], [0, 0, 1]]),
        "reward str": (1, 2, [[1, 1]], [["x", 1]], [[0, 0]]),
        "reward none": (1, 2, [[1, 1]], [[1, None]], [[0, 0]]),
        "move str": (1, 2, [[1, "1"]], [[1, 1]], [[0, 0]]),
        "zero length": (0, 2, [], [], []),
        "zero width": (2, 0, [[], []], [[], []], [[], []]),
        "negative dims": (-1, -1, [[1]], [[1]], [[0]]),
    }

    probs_list = [(0.1, 0.1, 0.1), (0.5, 0.25, 0.75), (1e-12, 1 - 1e-12, 5e-324),
                  (0.3, 0.2, 0.7)]

    def sio_call(label, fn, *a):
        buf = io.StringIO()
        try:
            r = fn(buf, *a)
            rec(label, "ret=%r\n%s" % (r, buf.getvalue()))
        except Exception as e:  # noqa
            rec(label, "%s\npartial=%s" % (_exc(e), buf.getvalue()))

    helper_names = ["player_two_transitions", "player_one_down_transitions",
                    "player_one_left_right_transitions", "prob_tile_break_transitions",
                    "prob_robot_down_break_transitions", "prob_robot_left_break_transitions",
                    "prob_robot_right_break_transitions",
                    "player_one_down_left_right_transitions", "prob_light_break_transitions"]
    rec("helpers present", repr([h for h in helper_names if callable(getattr(rg, h, None))]))

    for bname, (l, w, moves, rewards, tiles) in list(boards.items()) + list(malformed.items()):
        for pi, (ptb, prb, plb) in enumerate(probs_list):
            if pi and bname not in hand:
                continue
            lab = "blk[%s|p%d] " % (bname, pi)
            sio_call(lab + "preamble", rg.write_preamble, l, w, moves, rewards, tiles)
            sio_call(lab + "A", rg.write_robot_A, l, w, moves, rewards, tiles, ptb)
            sio_call(lab + "B", rg.write_robot_B, l, w, moves, rewards, tiles, ptb, prb)
            sio_call(lab + "C", rg.write_robot_C, l, w, moves, rewards, tiles, ptb, prb, plb)
            _clear_dir("inputs")
            call(lab + "write_robots", rg.write_robots, "inputs/direct.py", l, w, moves, rewards,
                 tiles, ptb, prb, plb)
            gc.collect()
            rec(lab + "write_robots files", repr(_snapshot_dir("inputs")))
            read_back(lab + "write_robots", bname in hand and pi in (0, 1) and l * w <= 9)
        n = (l * w) if isinstance(l, int) and isinstance(w, int) else 0
        lab = "hlp[%s] " % bname
        call(lab + "p2", rg.player_two_transitions, l, w, moves, n, 2 * n)
        call(lab + "p1down win", rg.player_one_down_transitions, l, w, 3 * n, 4 * n + 1)
        call(lab + "p1down nowin", rg.player_one_down_transitions, l, w, 4 * n)
        call(lab + "p1down win0", rg.player_one_down_transitions, l, w, 4 * n, 0)
        call(lab + "p1lr same", rg.player_one_left_right_transitions, l, w, moves, 3 * n, 3 * n)
        call(lab + "p1lr diff", rg.player_one_left_right_transitions, l, w, moves, 5 * n, 6 * n)
        call(lab + "tile", rg.prob_tile_break_transitions, l, w, 0.1, tiles, 0, 4 * n)
        call(lab + "rdown", rg.prob_robot_down_break_transitions, l, w, 0.1, 3 * n, 7 * n + 1)
        call(lab + "rleft", rg.prob_robot_left_break_transitions, l, w, 0.1, 3 * n)
        call(lab + "rright", rg.prob_robot_right_break_transitions, l, w, 0.1, 3 * n)
        call(lab + "p1dlr", rg.player_one_down_left_right_transitions, l, w, moves, 5 * n, 6 * n,
             7 * n)
        call(lab + "light", rg.prob_light_break_transitions, l, w, 0.1, n, 3 * n)

    # write_robots into a directory that does not exist / closed handle semantics
    call("write_robots missing dir", rg.write_robots, "nowhere/x.py", 1, 1, [[1]], [[1]], [[0]],
         0.1, 0.1, 0.1)
    rec("cwd listing", repr(sorted(os.listdir("."))))

    # ---------------------------------------------------------------- 4. manual entry point
    for bname, (l, w, moves, rewards, tiles) in list(hand.items()) + list(malformed.items()):
        for pi, (ptb, prb, plb) in enumerate(probs_list[:2]):
            lab = "manual[%s|p%d] " % (bname, pi)
            _clear_dir("inputs")
            call(lab + "create", manual.create_sg_from_board, moves, rewards, tiles, prb, plb, ptb)
            gc.collect()
            rec(lab + "files", repr(_snapshot_dir("inputs")))
            read_back(lab, bname in hand and l * w <= 9)
    call("manual max", manual.get_max_from_matrix, [[1, 2], [7, 3]])
    call("manual max empty", manual.get_max_from_matrix, [])

    # ---------------------------------------------------------------- 5. reader
    _clear_dir("inputs")
    reader_files = {
        "empty.py": "",
        "comment_only.py": "# nothing\n",
        "list.py": "[1, 2, 3]\n",
        "none.py": "None\n",
        "int.py": "42",
        "syntax.py": "{'a': [1, 2\n",
        "stmt.py": "x = {'a': 1}\n",
        "name.py": "{'a': undefined_name}\n",
        "dict.py": "# c\n{'g': {'rewards': [0], 'players': ['Probabilistic'], "
                   "'transition_list': [[(1, 0)]], 'final_states': [0]}}\n",
        "emptydict.py": "{}",
        "dictsub.py": "__import__('collections').OrderedDict(a=1)",
        "locals_names.py": "{'names': sorted(locals().keys())}",
        "uses_file_name.py": "{'fn': file_name, 'n': len(contents), 'closed': file.closed, "
                             "'rest': file.read()}",
        "uses_dictionary.py": "{'d': dictionary}",
        "raises.py": "{'a': 1/0}",
        "str_subclass.py": "'{}'",
        "latin.py": "{'k': 'café'}",
    }
    for name, text in reader_files.items():
        with open("inputs/" + name, "w", encoding="utf-8") as fh:
            fh.write(text)
        call("reader " + name, cr.read_dict_from_file, "inputs/" + name)
    call("reader missing", cr.read_dict_from_file, "inputs/does_not_exist.py")
    call("reader dir", cr.read_dict_from_file, "inputs")
    call("reader none", cr.read_dict_from_file, None)
    call("reader bytes path", cr.read_dict_from_file, b"inputs/dict.py")
    import pathlib
    call("reader pathlib", cr.read_dict_from_file, pathlib.Path("inputs") / "dict.py")

    # the repository's own shipped generator outputs still load the same way
    shipped = os.path.join(root, "inputs")
    for name in sorted(os.listdir(shipped)):
        if name.startswith(("robot_1_", "robot_999", "manual_robot", "robot_manual_0")):
            try:
                d = cr.read_dict_from_file(os.path.join(shipped, name))
                rec("shipped " + name, hashlib.sha256(repr(d).encode()).hexdigest())
            except Exception as e:  # noqa
                rec("shipped " + name, _exc(e))

    # ---------------------------------------------------------------- 6. public surface
    import inspect
    for mod in (rg, cr, manual):
        # only the functions that exist at HEAD: a refactoring may add helpers but must keep these
        names = [n for n in KNOWN_FUNCTIONS[mod.__name__]]
        sigs = []
        for n in names:
            o = getattr(mod, n, None)
            if inspect.isfunction(o):
                sigs.append((n, str(inspect.signature(o))))
            else:
                sigs.append((n, "MISSING"))
        rec("surface " + mod.__name__, repr(sigs))

    with open(out_path, "w") as fh:
        json.dump(obs, fh)
    os.chdir("/")
    import shutil
    shutil.rmtree(scratch, ignore_errors=True)


# --------------------------------------------------------------------------------------------
# parent
# --------------------------------------------------------------------------------------------

def main():
    if len(sys.argv) == 4 and sys.argv[1] == "--worker":
        worker(os.path.abspath(sys.argv[2]), sys.argv[3])
        return 0
    if len(sys.argv) != 3:
        print(__doc__)
        return 2
    patched, clean = (os.path.abspath(p) for p in sys.argv[1:3])
    t0 = time.time()
    tmp = tempfile.mkdtemp(prefix="c11_equiv_parent_")
    outs = []
    procs = []
    env = dict(os.environ, PYTHONDONTWRITEBYTECODE="1", PYTHONHASHSEED="0")
    for tag, root in (("patched", patched), ("clean", clean)):
        out = os.path.join(tmp, tag + ".json")
        outs.append(out)
        procs.append(subprocess.Popen(
            [sys.executable, os.path.abspath(__file__), "--worker", root, out],
            env=env, stdout=subprocess.PIPE, stderr=subprocess.PIPE, text=True))
    failed = False
    for tag, p in zip(("patched", "clean"), procs):
        so, se = p.communicate()
        if p.returncode != 0:
            print("worker for %s tree crashed (rc=%s):\n%s\n%s" % (tag, p.returncode, so[-2000:],
                                                                  se[-4000:]))
            failed = True
    if failed:
        print("FAIL")
        return 1
    with open(outs[0]) as fh:
        a = json.load(fh)
    with open(outs[1]) as fh:
        b = json.load(fh)
    import shutil
    shutil.rmtree(tmp, ignore_errors=True)
    ndiff = 0
    if len(a) != len(b):
        print("different number of observations: patched %d, clean %d" % (len(a), len(b)))
        ndiff += 1
    for (la, va), (lb, vb) in zip(a, b):
        if la != lb or va != vb:
            ndiff += 1
            if ndiff <= 15:
                print("DIFF at %r / %r\n  patched: %s\n  clean  : %s" % (la, lb, va[:600], vb[:600]))
    timeouts = sum(1 for _l, v in b if v == "TIMEOUT")
    if os.environ.get("C11_SHOW_TIMEOUTS"):
        print([l for l, v in b if v == "TIMEOUT"])
    print("%d observations compared, %d solver time-outs (clean tree), %d differences, %.1fs"
          % (len(b), timeouts, ndiff, time.time() - t0))
    if ndiff:
        print("FAIL")
        return 1
    print("PASS")
    return 0


if __name__ == "__main__":
    sys.exit(main())
