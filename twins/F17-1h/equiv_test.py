#!/usr/bin/env python
"""
Equivalence test for property C17 (generated file names identify the parameters).

usage: python equiv_test.py <path-to-patched-root> <path-to-clean-root>

The two trees are loaded in separate subprocesses (same module names).  Every job
is a list of calls executed in a fresh scratch directory that contains an empty
inputs/ folder; what is compared is the outcome of every call (ok / exception type
and message / exit code) and the complete content of the scratch directory
afterwards (relative path -> sha256), i.e. the NAMES of the written files and
their bytes.

On top of the patched-vs-clean comparison the names written by the patched tree
are checked against an independent statement of the property: a probability given
as k/100 appears as k, and the name carries seed, width, length, maximum reward
and the force-down flag.

Prints PASS and exits 0 when nothing differs, FAIL (exit 1) otherwise.
"""
import json
import os
import random
import subprocess
import sys
import tempfile

VARIANT = 1          # 1: --count feature is exercised as well

RUNNER = r'''
import contextlib, hashlib, io, json, os, shutil, sys, tempfile
root, side, jobs_path, out_path = sys.argv[1:5]
sys.path.insert(0, root)
import roberta_generator as rg
import stochastic_game_from_roborta_board as manual
for mod in (rg, manual):
    assert os.path.dirname(os.path.abspath(mod.__file__)) == os.path.abspath(root), mod.__file__

def snapshot():
    found = {}
    for folder, _, names in os.walk("."):
        for name in names:
            path = os.path.join(folder, name)
            with open(path, "rb") as handle:
                found[os.path.relpath(path, ".").replace(os.sep, "/")] = \
                    hashlib.sha256(handle.read()).hexdigest()
    return found

def run_call(call):
    if call["kind"] == "cli":
        saved = sys.argv
        sys.argv = ["roberta_generator.py"] + call["argv"]
        try:
            with contextlib.redirect_stderr(io.StringIO()), \
                    contextlib.redirect_stdout(io.StringIO()):
                rg.main()
            return ["ok"]
        except SystemExit as stop:
            return ["exit", stop.code]
        except Exception as error:
            return [type(error).__name__, str(error)]
        finally:
            sys.argv = saved
    if call["kind"] == "manual":
        try:
            manual.create_sg_from_board(call["moves"], call["rewards"], call["loose_tiles"],
                                        *call["probs"])
            return ["ok"]
        except Exception as error:
            return [type(error).__name__, str(error)]
    if call["kind"] == "prob_to_str":
        try:
            return ["value", rg.prob_to_str(call["prob"])]
        except Exception as error:
            return [type(error).__name__, str(error)]
    raise AssertionError(call)

with open(jobs_path) as handle:
    jobs = json.load(handle)
results = []
home = os.getcwd()
for job in jobs:
    scratch = tempfile.mkdtemp(prefix="c17_")
    os.chdir(scratch)
    os.mkdir("inputs")
    outcomes = [run_call(call) for call in job[side + "_calls"]]
    results.append({"outcomes": outcomes, "files": snapshot()})
    os.chdir(home)
    shutil.rmtree(scratch)
with open(out_path, "w") as handle:
    json.dump(results, handle)
'''


def expected_name(seed, width, length, max_reward, k_robot, k_light, k_tile, k_loose, force_down):
    # independent statement of the property (not taken from either tree)
    return ("inputs/robot_%d_w%d_l%d_r%d_rb%d_lb%d_tb%d_lt%d%s.py"
            % (seed, width, length, max_reward, k_robot, k_light, k_tile, k_loose,
               "_force_down" if force_down else ""))


def cli_argv(seed, width, length, max_reward, p_robot, p_light, p_tile, p_loose, force_down,
             short=False):
    names = ["-s", "-w", "-l", "-m", "-p", "-q", "-r", "-t"] if short else \
            ["--seed", "--width", "--length", "--max_reward", "--prob_robot_break",
             "--prob_light_break", "--prob_tile_break", "--prob_loose_tile"]
    values = [seed, width, length, max_reward, p_robot, p_light, p_tile, p_loose]
    argv = []
    for name, value in zip(names, values):
        argv += [name, value if isinstance(value, str) else repr(value)]
    if force_down:
        argv.append("-f" if short else "--force_down")
    return argv


def same_job(calls, expect=None, label=""):
    return {"patched_calls": calls, "clean_calls": calls, "compare_outcomes": True,
            "expect_files": expect, "label": label}


def build_jobs():
    rnd = random.Random(20260417)
    jobs = []

    # 1. every probability k/100, k = 1..99, for each of the four probabilities
    for position in range(4):
        for k in range(1, 100):
            ks = [10, 10, 10, 30]
            ks[position] = k
            force_down = (k % 2 == 0)
            argv = cli_argv(k, 3, 3, 6, ks[0] / 100, ks[1] / 100, ks[2] / 100, ks[3] / 100,
                            force_down, short=(k % 3 == 0))
            jobs.append(same_job([{"kind": "cli", "argv": argv}],
                                 [expected_name(k, 3, 3, 6, ks[0], ks[1], ks[2], ks[3],
                                                force_down)],
                                 "sweep %d k=%d" % (position, k)))

    # 2. the same probability written in other ways on the command line
    for k in (1, 7, 14, 28, 29, 55, 56, 57, 58, 99):
        for text in ("%.2f" % (k / 100), "%.4f" % (k / 100), "%de-2" % k,
                     ("%.2f" % (k / 100)).lstrip("0")):
            argv = cli_argv(5, 2, 2, 6, text, text, text, text, False)
            jobs.append(same_job([{"kind": "cli", "argv": argv}],
                                 [expected_name(5, 2, 2, 6, k, k, k, k, False)],
                                 "spelling %s" % text))

    # 3. random whole-percent parameter sets of varied shape
    for _ in range(300):
        seed = rnd.choice([0, 1, rnd.randrange(10 ** 6), rnd.randrange(10 ** 12)])
        width, length = rnd.randint(1, 6), rnd.randint(1, 6)
        max_reward = rnd.choice([1, 2, 6, rnd.randint(1, 15)])
        ks = [rnd.randint(1, 99) for _ in range(4)]
        force_down = rnd.random() < 0.5
        argv = cli_argv(seed, width, length, max_reward, *[k / 100 for k in ks],
                        force_down, short=rnd.random() < 0.5)
        jobs.append(same_job([{"kind": "cli", "argv": argv}],
                             [expected_name(seed, width, length, max_reward, *ks, force_down)],
                             "random"))

    # 4. two different parameter sets written into the same folder never share a file
    for _ in range(40):
        ks = [rnd.randint(1, 98) for _ in range(4)]
        position = rnd.randrange(4)
        other = list(ks)
        other[position] += 1
        calls, names = [], []
        for variant in (ks, other):
            calls.append({"kind": "cli",
                          "argv": cli_argv(3, 2, 3, 6, *[k / 100 for k in variant], False)})
            names.append(expected_name(3, 2, 3, 6, *variant, False))
        jobs.append(same_job(calls, names, "neighbours"))
    for a, b in ((0.28, 0.29), (0.56, 0.57), (0.57, 0.58), (0.13, 0.14), (0.06, 0.07)):
        calls = [{"kind": "cli", "argv": cli_argv(9, 3, 3, 6, p, p, p, p, True)} for p in (a, b)]
        names = [expected_name(9, 3, 3, 6, *([round(p * 100)] * 4), True) for p in (a, b)]
        jobs.append(same_job(calls, names, "classic neighbours"))
    # force_down on/off, seeds, shapes differ -> different files
    calls = [{"kind": "cli", "argv": cli_argv(4, 3, 3, 6, .1, .1, .1, .3, fd)} for fd in (0, 1)]
    calls += [{"kind": "cli", "argv": cli_argv(s, w, l, m, .1, .1, .1, .3, False)}
              for s, w, l, m in ((5, 3, 3, 6), (4, 1, 3, 6), (4, 3, 1, 6), (4, 3, 3, 7),
                                 (41, 3, 3, 6), (4, 13, 3, 6), (4, 1, 33, 6))]
    jobs.append(same_job(calls, None, "distinct sets"))

    # 5. boundary and not-whole-percent values: only patched == clean is asked
    odd_probs = [1e-9, 1e-3, 0.004, 0.005, 0.0050001, 0.0149999, 0.015, 0.025, 0.125, 0.285,
                 0.295, 0.575, 0.995, 0.9949, 0.99999, 1 - 1e-12, 0.5, 1 / 3, 2 / 3,
                 0.29000000000000004, 0.28999999999999998, 0.1 + 0.2, 5e-324]
    for prob in odd_probs:
        for position in range(4):
            probs = [0.1, 0.1, 0.1, 0.3]
            probs[position] = prob
            jobs.append(same_job([{"kind": "cli", "argv": cli_argv(2, 2, 2, 6, *probs,
                                                                  position % 2 == 0)}],
                                 None, "odd prob %r" % prob))
        jobs.append(same_job([{"kind": "prob_to_str", "prob": prob}], None, "prob_to_str"))
    for k in range(0, 101):
        jobs.append(same_job([{"kind": "prob_to_str", "prob": k / 100}], None, "prob_to_str"))
    for seed, width, length, max_reward, force_down in (
            (0, 1, 1, 1, False), (0, 1, 1, 1, True), (0, 1, 7, 6, True), (0, 7, 1, 6, True),
            (2 ** 64, 2, 2, 6, False), (7, 2, 2, 60, False), (7, 2, 2, 1100, True),
            (123456789, 12, 9, 6, True), (1, 25, 1, 3, False)):
        argv = cli_argv(seed, width, length, max_reward, 0.01, 0.99, 0.5, 0.07, force_down)
        jobs.append(same_job([{"kind": "cli", "argv": argv}],
                             [expected_name(seed, width, length, max_reward, 1, 99, 50, 7,
                                            force_down)], "shape boundary"))
    jobs.append(same_job([{"kind": "cli", "argv": []}],
                         [expected_name(0, 3, 3, 6, 10, 10, 10, 30, False)], "defaults"))
    jobs.append(same_job([{"kind": "cli", "argv": ["-f"]}],
                         [expected_name(0, 3, 3, 6, 10, 10, 10, 30, True)], "defaults -f"))

    # 6. rejected parameter sets: same refusal, nothing written
    good = dict(seed=1, width=2, length=2, max_reward=6, p_robot=.1, p_light=.1, p_tile=.1,
                p_loose=.3, force_down=False)
    for key, values in (("seed", [-1, -10]), ("width", [0, -1]), ("length", [0, -3]),
                        ("max_reward", [0, -2]),
                        ("p_robot", [0.0, 1.0, -0.1, 1.5, "nan", "inf", "abc"]),
                        ("p_light", [0.0, 1.0, -0.1, 1.5, "nan", "-inf"]),
                        ("p_tile", [0.0, 1.0, 2.0, "nan"]),
                        ("p_loose", [0.0, 1.0, -1e-9, "nan"]),
                        ("seed", ["1.5", "x"]), ("width", ["2.0"])):
        for value in values:
            params = dict(good)
            params[key] = value
            jobs.append(same_job([{"kind": "cli", "argv": cli_argv(**params)}], [],
                                 "rejected %s=%r" % (key, value)))
    jobs.append(same_job([{"kind": "cli", "argv": ["--no_such_option"]}], [], "unknown option"))
    jobs.append(same_job([{"kind": "cli", "argv": ["--seed"]}], [], "missing value"))

    # 7. the manual entry point
    boards = [
        ([[1, 0, 2], [1, 1, 1]], [[0, 3, 1], [2, 0, 5]], [[0, 1, 0], [1, 0, 0]]),
        ([[3, 1], [1, 3], [0, 2]], [[1, 1], [0, 2], [4, 0]], [[0, 0], [1, 1], [0, 1]]),
        ([[1]], [[0]], [[0]]),
        ([[3]], [[2]], [[1]]),
        ([[0, 1, 2, 1]], [[0, 0, 0, 0]], [[1, 1, 1, 1]]),
    ]
    for index, (moves, rewards, loose) in enumerate(boards):
        ks_list = [[k, 10, 10] for k in range(1, 100)] if index == 0 else \
                  [[10, k, 10] for k in range(1, 100)] if index == 1 else \
                  [[10, 10, k] for k in range(1, 100)] if index == 2 else \
                  [[rnd.randint(1, 99) for _ in range(3)] for _ in range(30)]
        force_down = max(max(row) for row in moves) == 3
        for ks in ks_list:
            name = "inputs/manual_robot_w%d_l%d_r%d_rb%d_lb%d_tb%d_%s.py" % (
                len(moves[0]), len(moves), max(max(row) for row in rewards), ks[0], ks[1], ks[2],
                "force_down" if force_down else "")
            jobs.append(same_job([{"kind": "manual", "moves": moves, "rewards": rewards,
                                   "loose_tiles": loose, "probs": [k / 100 for k in ks]}],
                                 [name], "manual"))
    for probs in ([0.285, 0.575, 0.005], [0.999, 0.001, 0.5]):
        jobs.append(same_job([{"kind": "manual", "moves": boards[0][0], "rewards": boards[0][1],
                               "loose_tiles": boards[0][2], "probs": probs}], None, "manual odd"))

    if VARIANT == 1:
        jobs += count_jobs(rnd)
    return jobs


def count_jobs(rnd):
    """--count N must write exactly the files of N single runs with consecutive seeds."""
    jobs = []
    cases = [(0, 1, False), (0, 2, False), (5, 3, True), (99, 4, False), (10 ** 9, 2, True),
             (9, 2, False), (99, 2, False), (999, 3, True)]      # 9->10, 99->100: longer seeds
    for _ in range(40):
        cases.append((rnd.randrange(10 ** 5), rnd.randint(1, 6), rnd.random() < 0.5))
    for seed, count, force_down in cases:
        width, length = rnd.randint(1, 4), rnd.randint(1, 4)
        max_reward = rnd.randint(1, 8)
        ks = [rnd.randint(1, 99) for _ in range(4)]
        probs = [k / 100 for k in ks]
        flag = rnd.choice(["--count", "-n"])
        patched = [{"kind": "cli", "argv": cli_argv(seed, width, length, max_reward, *probs,
                                                    force_down) + [flag, str(count)]}]
        clean = [{"kind": "cli", "argv": cli_argv(seed + offset, width, length, max_reward,
                                                  *probs, force_down)}
                 for offset in range(count)]
        names = [expected_name(seed + offset, width, length, max_reward, *ks, force_down)
                 for offset in range(count)]
        jobs.append({"patched_calls": patched, "clean_calls": clean, "compare_outcomes": False,
                     "expect_files": names, "label": "count %d from %d" % (count, seed),
                     "patched_outcomes": [["ok"]]})
    # a batch refused as a whole: nothing is written, whatever the reason
    for extra, outcome in ((["--count", "0"], ["ValueError", "The count must be a positive integer"]),
                           (["--count", "-3"], ["ValueError", "The count must be a positive integer"]),
                           (["-n", "two"], ["exit", 2]),
                           (["--count", "3", "--prob_tile_break", "0"], None),
                           (["--count", "3", "--width", "0"], None),
                           (["--count", "3", "--seed", "-1"], None)):
        patched = [{"kind": "cli", "argv": ["-s", "2"] + extra}]
        clean_extra = [item for item in extra]
        if "--count" in clean_extra or "-n" in clean_extra:
            cut = clean_extra.index("--count" if "--count" in clean_extra else "-n")
            del clean_extra[cut:cut + 2]
        clean = [{"kind": "cli", "argv": ["-s", "2"] + clean_extra}]
        job = {"patched_calls": patched, "clean_calls": clean, "expect_files": [],
               "compare_outcomes": outcome is None, "label": "refused batch %r" % extra}
        if outcome is not None:
            job["patched_outcomes"] = [outcome]
            job["clean_files_ignored"] = True     # clean would accept the run without --count
        jobs.append(job)
    return jobs


def run_side(root, side, jobs_path, workdir):
    runner_path = os.path.join(workdir, "runner.py")
    with open(runner_path, "w") as handle:
        handle.write(RUNNER)
    out_path = os.path.join(workdir, side + ".json")
    subprocess.run([sys.executable, runner_path, os.path.abspath(root), side, jobs_path, out_path],
                   check=True, cwd=workdir)
    with open(out_path) as handle:
        return json.load(handle)


def real_command_line(root, argv):
    """python <root>/roberta_generator.py ... in a scratch folder; returns (exit code, files)."""
    with tempfile.TemporaryDirectory(prefix="c17_cli_") as scratch:
        os.mkdir(os.path.join(scratch, "inputs"))
        done = subprocess.run([sys.executable, os.path.join(os.path.abspath(root),
                                                            "roberta_generator.py")] + argv,
                              cwd=scratch, capture_output=True)
        files = {}
        for folder, _, names in os.walk(scratch):
            for name in names:
                path = os.path.join(folder, name)
                with open(path, "rb") as handle:
                    files[os.path.relpath(path, scratch)] = handle.read()
        return done.returncode, files


def main():
    patched_root, clean_root = sys.argv[1], sys.argv[2]
    failures = []
    jobs = build_jobs()
    with tempfile.TemporaryDirectory(prefix="c17_equiv_") as workdir:
        jobs_path = os.path.join(workdir, "jobs.json")
        with open(jobs_path, "w") as handle:
            json.dump(jobs, handle)
        patched = run_side(patched_root, "patched", jobs_path, workdir)
        clean = run_side(clean_root, "clean", jobs_path, workdir)

    written = 0
    for job, got, ref in zip(jobs, patched, clean):
        label = job["label"]
        if not job.get("clean_files_ignored") and got["files"] != ref["files"]:
            failures.append("%s: files differ\n   patched %r\n   clean   %r"
                            % (label, sorted(got["files"].items()), sorted(ref["files"].items())))
        if job["compare_outcomes"] and got["outcomes"] != ref["outcomes"]:
            failures.append("%s: outcomes differ: patched %r clean %r"
                            % (label, got["outcomes"], ref["outcomes"]))
        if "patched_outcomes" in job and got["outcomes"] != job["patched_outcomes"]:
            failures.append("%s: patched outcome %r, expected %r"
                            % (label, got["outcomes"], job["patched_outcomes"]))
        if job["expect_files"] is not None:
            if sorted(got["files"]) != sorted(set(job["expect_files"])):
                failures.append("%s: patched wrote %r, the property asks for %r"
                                % (label, sorted(got["files"]), sorted(set(job["expect_files"]))))
            if job["expect_files"] and any(out != ["ok"] for out in got["outcomes"]):
                failures.append("%s: patched outcome %r" % (label, got["outcomes"]))
        written += len(got["files"])

    # the real command line, as a user types it
    rnd = random.Random(7)
    cli_cases = []
    for k in (1, 28, 29, 57, 58, 99):
        cli_cases.append((cli_argv(k, 2, 3, 6, k / 100, k / 100, k / 100, k / 100, k % 2 == 1),
                          [expected_name(k, 2, 3, 6, k, k, k, k, k % 2 == 1)]))
    for _ in range(10):
        ks = [rnd.randint(1, 99) for _ in range(4)]
        seed, width, length = rnd.randrange(1000), rnd.randint(1, 4), rnd.randint(1, 4)
        cli_cases.append((cli_argv(seed, width, length, 6, *[k / 100 for k in ks], False, True),
                          [expected_name(seed, width, length, 6, *ks, False)]))
    cli_cases.append((["-p", "0"], []))
    cli_cases.append((["-w", "0"], []))
    for argv, names in cli_cases:
        code_p, files_p = real_command_line(patched_root, argv)
        code_c, files_c = real_command_line(clean_root, argv)
        if (code_p, files_p) != (code_c, files_c):
            failures.append("command line %r: exit %r/%r files %r/%r"
                            % (argv, code_p, code_c, sorted(files_p), sorted(files_c)))
        if sorted(files_p) != sorted(names):
            failures.append("command line %r: wrote %r expected %r" % (argv, sorted(files_p), names))
    if VARIANT == 1:
        code_p, files_p = real_command_line(patched_root, ["-s", "8", "-n", "4", "-p", "0.29"])
        union = {}
        for seed in (8, 9, 10, 11):
            code_c, files_c = real_command_line(clean_root, ["-s", str(seed), "-p", "0.29"])
            union.update(files_c)
        if code_p != 0 or files_p != union or sorted(union) != sorted(
                expected_name(seed, 3, 3, 6, 29, 10, 10, 30, False) for seed in (8, 9, 10, 11)):
            failures.append("command line --count: %r vs %r" % (sorted(files_p), sorted(union)))

    print("%d jobs, %d files compared, %d command lines" % (len(jobs), written, len(cli_cases)))
    if failures:
        for failure in failures[:40]:
            print("DIFF", failure)
        print("FAIL (%d differences)" % len(failures))
        return 1
    print("PASS")
    return 0


if __name__ == "__main__":
    sys.exit(main())
