#!/usr/bin/env python
"""Equivalence test for property C08 (Roborta generator).

usage: python equiv_test.py <path-to-patched-root> <path-to-clean-root>

Both trees are loaded in separate subprocesses (each in its own temporary
working directory with an inputs/ folder).  Every probe records either the
repr()/sha256 of what was produced (written files are compared byte for byte
through their digest) or the exception type and message.  The parent compares
the two probe tables, prints PASS and exits 0 when nothing differs, FAIL (with
the first differing probes) otherwise.
"""
import hashlib
import io
import itertools
import json
import os
import random
import subprocess
import sys
import tempfile


# --------------------------------------------------------------------------- #
# child side
# --------------------------------------------------------------------------- #

def _digest(text):
    if isinstance(text, str):
        text = text.encode("utf-8", "surrogatepass")
    return hashlib.sha256(text).hexdigest()[:20]


def _read(path):
    with open(path, "rb") as handle:
        return handle.read()


class Recorder:
    def __init__(self):
        self.table = {}

    def run(self, key, thunk, keep=False):
        """keep=True stores the repr itself (short values), else its digest."""
        assert key not in self.table, key
        try:
            value = thunk()
            text = value if isinstance(value, str) else repr(value)
            self.table[key] = ["ok", text if keep and len(text) < 400 else _digest(text)]
        except BaseException as exc:  # SystemExit from argparse included
            self.table[key] = ["exc", type(exc).__name__, str(exc)[:300]]


def child(root, out_json):
    root = os.path.abspath(root)
    sys.path.insert(0, root)
    workdir = tempfile.mkdtemp(prefix="c08_child_")
    os.chdir(workdir)
    os.mkdir("inputs")

    import roberta_generator as rg
    import stochastic_game_from_roborta_board as sg
    import conditionalrewards as cr

    assert os.path.abspath(rg.__file__).startswith(root), rg.__file__
    assert os.path.abspath(sg.__file__).startswith(root), sg.__file__

    rec = Recorder()
    scratch = os.path.join(workdir, "scratch.py")

    def written(*args, **kwargs):
        """write_robots into a scratch file; content (also partial content
        after an exception) is what is compared."""
        if os.path.exists(scratch):
            os.remove(scratch)
        try:
            rg.write_robots(scratch, *args, **kwargs)
        except Exception as exc:
            del exc
            raise
        return _read(scratch)

    def written_or_partial(*args, **kwargs):
        try:
            return ("ok", _digest(written(*args, **kwargs)))
        except Exception as exc:
            info = (type(exc).__name__, str(exc))
            del exc
            import gc
            gc.collect()
            partial = _read(scratch) if os.path.exists(scratch) else None
            return ("exc",) + info + (None if partial is None else _digest(partial),)

    # ---- 1. exhaustive boards with up to 4 tiles ------------------------- #
    shapes = [(l, w) for l in range(1, 5) for w in range(1, 5) if l * w <= 4]
    prob_triples = [(0.1, 0.1, 0.1), (0.25, 0.5, 0.75), (1e-9, 0.999999, 1.0 / 3.0),
                    (0.3, 0.07, 0.9)]
    counter = 0
    for length, width in shapes:
        n = length * width
        for flat_moves in itertools.product(range(4), repeat=n):
            moves = [list(flat_moves[r * width:(r + 1) * width]) for r in range(length)]
            for flat_loose in itertools.product((0, 1), repeat=n):
                loose = [list(flat_loose[r * width:(r + 1) * width]) for r in range(length)]
                counter += 1
                rewards = [[(counter * 7 + r * width + c * 3) % 7 for c in range(width)]
                           for r in range(length)]
                tile_p, robot_p, light_p = prob_triples[counter % len(prob_triples)]
                key = "exh|%d|%d|%s|%s" % (length, width, "".join(map(str, flat_moves)),
                                           "".join(map(str, flat_loose)))
                rec.run(key, lambda: _digest(written(length, width, moves, rewards, loose,
                                                     tile_p, robot_p, light_p)), keep=True)
                if counter % 257 == 0:
                    # the documented observation point: read the file back
                    rec.run("readback|" + key, lambda: repr(cr.read_dict_from_file(scratch)))

    # ---- 2. sampled larger boards through gen_rnd_board ------------------- #
    rnd = random.Random(20261004)
    loose_probs = [1e-9, 0.01, 0.3, 0.5, 0.99, 1 - 1e-9]
    break_probs = [1e-12, 1e-3, 0.1, 0.25, 1.0 / 3.0, 0.5, 0.9, 0.999999, 1 - 1e-12]
    param_sets = []
    for length in (1, 2, 3, 5):
        for width in (1, 2, 3, 6):
            for force_down in (False, True):
                param_sets.append((rnd.randrange(0, 10 ** 6), length, width,
                                   rnd.choice(loose_probs), rnd.randrange(1, 9), force_down))
    for _ in range(160):
        param_sets.append((rnd.randrange(0, 10 ** 9), rnd.randrange(1, 9), rnd.randrange(1, 9),
                           rnd.choice(loose_probs), rnd.choice([1, 2, 6, 10, 40, 2000]),
                           rnd.random() < 0.5))
    param_sets.append((47, 10, 20, 0.3, 6, True))
    param_sets.append((47, 12, 1, 0.3, 6, True))
    param_sets.append((47, 1, 12, 0.3, 6, False))
    for num, (seed, length, width, p_loose, max_reward, force_down) in enumerate(param_sets):
        key = "rnd|%d|%r" % (num, (seed, length, width, p_loose, max_reward, force_down))
        board = []

        def make():
            board[:] = rg.gen_rnd_board(seed, length, width, p_loose, max_reward, force_down)
            return repr(tuple(board))
        rec.run("board|" + key, make)
        if len(board) == 3:
            moves, rewards, loose = board
            tile_p, robot_p, light_p = (rnd.choice(break_probs) for _ in range(3))
            rec.run("file|" + key, lambda: _digest(written(
                length, width, moves, rewards, loose, tile_p, robot_p, light_p)), keep=True)
            if num % 9 == 0:
                rec.run("readback|" + key, lambda: repr(cr.read_dict_from_file(scratch)))
        # default arguments of gen_rnd_board
        if num % 20 == 0:
            rec.run("board-defaults|" + key,
                    lambda: repr(rg.gen_rnd_board(seed, length, width, p_loose)))

    # ---- 3. main() with command lines ------------------------------------- #
    command_lines = [
        [],
        ["-s", "1", "-w", "1", "-l", "1"],
        ["-s", "1", "-w", "1", "-l", "4", "-f"],
        ["-s", "2", "-w", "4", "-l", "1", "-f"],
        ["--seed", "47", "--width", "5", "--length", "5", "--force_down"],
        ["-s", "3", "-w", "2", "-l", "2", "-p", "0.005", "-q", "0.995", "-r", "0.5", "-t", "0.004"],
        ["-s", "4", "-w", "3", "-l", "2", "-p", "0.999999", "-q", "1e-9", "-r", "0.125",
         "-t", "0.999", "-m", "1"],
        ["-s", "5", "-m", "40", "-t", "0.015", "-r", "0.025", "-p", "0.035", "-q", "0.045"],
        ["-s", "999132423", "-p", "0.01", "-q", "0.02"],
        ["-s", "6", "-w", "7", "-l", "3", "-m", "2000"],
        # rejected by check_input / argparse
        ["-s", "-1"], ["-w", "0"], ["-l", "0"], ["-l", "-3"], ["-p", "0"], ["-p", "1"],
        ["-q", "0.0"], ["-q", "1.5"], ["-r", "1"], ["-r", "-0.1"], ["-t", "0"], ["-t", "1"],
        ["-m", "0"], ["-w", "abc"], ["--nonsense"], ["-p", "nan"],
    ]
    for num, argv in enumerate(command_lines):
        for name in os.listdir("inputs"):
            os.remove(os.path.join("inputs", name))

        def run_main():
            saved = sys.argv, sys.stderr, sys.stdout
            sys.argv = ["roberta_generator.py"] + argv
            sys.stderr = io.StringIO()
            sys.stdout = io.StringIO()
            try:
                rg.main()
            finally:
                sys.argv, sys.stderr, sys.stdout = saved
            return "returned"
        rec.run("main|%d|%s" % (num, " ".join(argv)), run_main, keep=True)
        rec.run("main-files|%d" % num, lambda: repr(sorted(
            (name, _digest(_read(os.path.join("inputs", name))))
            for name in os.listdir("inputs"))), keep=True)

    # ---- 4. manual entry point -------------------------------------------- #
    manual_boards = [
        ([[1]], [[2]], [[0]]),
        ([[3]], [[0]], [[1]]),
        ([[0], [2], [1]], [[1], [0], [5]], [[1], [0], [1]]),
        ([[0, 1, 2, 1]], [[1, 0, 5, 2]], [[1, 0, 1, 0]]),
        ([[1, 3], [3, 0]], [[4, 4], [0, 1]], [[0, 0], [1, 1]]),
        ([[1, 1, 0, 2], [0, 1, 1, 2], [1, 2, 0, 1], [2, 0, 1, 1]],
         [[0, 1, 0, 5], [2, 0, 0, 1], [0, 3, 0, 0], [1, 0, 2, 0]],
         [[0, 1, 0, 0], [0, 0, 1, 0], [1, 0, 0, 0], [0, 0, 0, 1]]),
        ([[1, 3, 0, 2], [0, 1, 3, 2]], [[0, 1, 0, 5], [2, 0, 0, 1]], [[0, 1, 0, 0], [0, 0, 1, 0]]),
        # malformed
        ([], [], []),
        ([[]], [[]], [[]]),
        ([[1, 2], [1]], [[1, 2], [1]], [[0, 0], [0]]),
        ([[1, 2]], [[1]], [[0, 0]]),
        ([[1, 4]], [[1, 1]], [[0, 0]]),
        ([[1, -1]], [[1, 1]], [[0, 0]]),
        ([[1, 2]], [[1, 1]], [[0, 2]]),
        ([[1, 2]], [[1.5, 1]], [[True, False]]),
    ]
    for num, (moves, rewards, loose) in enumerate(manual_boards):
        for pnum, (robot_p, light_p, tile_p) in enumerate([(0.1, 0.1, 0.1), (0.004, 0.996, 0.5)]):
            for name in os.listdir("inputs"):
                os.remove(os.path.join("inputs", name))
            rec.run("manual|%d|%d" % (num, pnum), lambda: repr(sg.create_sg_from_board(
                moves, rewards, loose, robot_p, light_p, tile_p)), keep=True)
            rec.run("manual-files|%d|%d" % (num, pnum), lambda: repr(sorted(
                (name, _digest(_read(os.path.join("inputs", name))))
                for name in os.listdir("inputs"))), keep=True)
    rec.run("get_max|1", lambda: repr(sg.get_max_from_matrix([[1, 5], [7, 2]])), keep=True)
    rec.run("get_max|2", lambda: repr(sg.get_max_from_matrix([[1, 5], []])), keep=True)
    rec.run("get_max|3", lambda: repr(sg.get_max_from_matrix([])), keep=True)

    # ---- 5. malformed boards straight into write_robots ------------------- #
    malformed = [
        (2, 2, [[1, 4], [0, 0]], [[1, 1], [1, 1]], [[0, 0], [0, 0]]),      # move out of range
        (2, 2, [[1, -1], [0, -4]], [[1, 1], [1, 1]], [[0, 0], [0, 0]]),    # negative moves
        (2, 2, [[1, 2], [0, 1]], [[1, 1], [1, 1]], [[0, 2], [0, 0]]),      # loose out of range
        (2, 2, [[1, 2], [0, 1]], [[1, 1], [1, 1]], [[0, -1], [True, False]]),
        (2, 2, [[True, 2.0], [0, 1]], [[1, 1], [1, 1]], [[0, 1], [1, 0]]),
        (3, 2, [[1, 2], [0, 1]], [[1, 1], [1, 1]], [[0, 0], [0, 0]]),      # length too large
        (2, 3, [[1, 2], [0, 1]], [[1, 1], [1, 1]], [[0, 0], [0, 0]]),      # width too large
        (1, 2, [[1, 2], [0, 1]], [[1, 1], [1, 1]], [[0, 0], [0, 0]]),      # length too small
        (2, 1, [[1, 2], [0, 1]], [[1, 1], [1, 1]], [[0, 0], [0, 0]]),      # width too small
        (0, 2, [], [], []), (2, 0, [[], []], [[], []], [[], []]), (0, 0, [], [], []),
        (-1, 2, [], [], []), (2, -2, [[], []], [[], []], [[], []]),
        (2, 2, [[1, 2], [0, 1]], [[1.5, "x"], [None, -2]], [[0, 0], [0, 0]]),  # odd rewards
        (2, 2, [[1, 2], [0, 1]], [[1], [1, 1]], [[0, 0], [0, 0]]),          # ragged rewards
        (2, 2, [[1, 2], [0]], [[1, 1], [1, 1]], [[0, 0], [0, 0]]),          # ragged moves
        (2, 2, [[1, 2], [0, 1]], [[1, 1], [1, 1]], [[0, 0], [0]]),          # ragged loose
        (2.0, 2, [[1, 2], [0, 1]], [[1, 1], [1, 1]], [[0, 0], [0, 0]]),     # float length
        (2, "2", [[1, 2], [0, 1]], [[1, 1], [1, 1]], [[0, 0], [0, 0]]),     # str width
        (2, 2, None, [[1, 1], [1, 1]], [[0, 0], [0, 0]]),
        (2, 2, [[1, 2], [3, 1]], ((1, 1), (1, 1)), ((0, 1), (1, 0))),       # tuples
        (2, 2, [[1, "v"], [3, 1]], [[1, 1], [1, 1]], [[0, 0], [0, 0]]),
    ]
    for num, (length, width, moves, rewards, loose) in enumerate(malformed):
        rec.run("malformed|%d" % num, lambda: repr(written_or_partial(
            length, width, moves, rewards, loose, 0.1, 0.2, 0.3)), keep=True)
    for num, probs in enumerate([(0, 0, 0), (1, 1, 1), (0.5, None, 0.5), ("a", 0.5, 0.5),
                                 (0.5, 0.5, "a"), (2, -1, 7), (True, False, 0.5)]):
        rec.run("odd-probs|%d" % num, lambda: repr(written_or_partial(
            2, 2, [[1, 3], [0, 2]], [[1, 2], [3, 4]], [[1, 0], [1, 1]], *probs)), keep=True)
    rec.run("bad-path", lambda: repr(rg.write_robots(
        os.path.join("no_such_dir", "x.py"), 1, 1, [[1]], [[1]], [[0]], 0.1, 0.1, 0.1)),
        keep=True)
    rec.run("kwargs", lambda: _digest(written(
        length=2, width=2, moves=[[1, 3], [0, 2]], rewards=[[1, 2], [3, 4]],
        loose_tiles=[[1, 0], [1, 1]], prob_tile_break=0.1, prob_robot_break=0.2,
        prob_light_break=0.3)), keep=True)

    # ---- 6. the transition builders called directly ----------------------- #
    def builder(name):
        return getattr(rg, name)   # AttributeError is recorded when a name vanished

    move_tables = {
        (1, 1): [[[0]], [[1]], [[2]], [[3]], [[-1]], [[4]], [[True]], [[1.0]]],
        (1, 3): [[[0, 1, 2]], [[3, 3, 1]], [[2, 2, 2]], [[1, 5, -2]]],
        (3, 1): [[[0], [1], [2]], [[3], [1], [3]]],
        (2, 2): [[[0, 1], [2, 3]], [[1, 1], [1, 1]], [[3, 0], [2, 3]], [[1]], [[1, 2]]],
        (2, 3): [[[0, 1, 2], [3, 2, 1]]],
        (0, 2): [[]], (2, 0): [[[], []]], (0, 0): [[]],
    }
    loose_tables = {
        (1, 1): [[[0]], [[1]], [[True]], [[2]], [[-1]]],
        (1, 3): [[[0, 1, 0]], [[1, 1, 1]]],
        (3, 1): [[[0], [1], [1]]],
        (2, 2): [[[0, 1], [1, 0]], [[0, 0], [0, 0]], [[1]]],
        (2, 3): [[[1, 0, 1], [0, 0, 1]]],
        (0, 2): [[]], (2, 0): [[[], []]], (0, 0): [[]],
    }
    offsets = [0, 3, 40]
    for (length, width), tables in sorted(move_tables.items()):
        tag = "%d|%d" % (length, width)
        for t_num, moves in enumerate(tables):
            for o1, o2 in itertools.product(offsets, repeat=2):
                rec.run("p2|%s|%d|%d|%d" % (tag, t_num, o1, o2), lambda: repr(
                    builder("player_two_transitions")(length, width, moves, o1, o2)))
                rec.run("p2kw|%s|%d|%d|%d" % (tag, t_num, o1, o2), lambda: repr(
                    builder("player_two_transitions")(length, width, moves,
                                                      offset_r=o1, offset_y=o2)))
                rec.run("p1lr|%s|%d|%d|%d" % (tag, t_num, o1, o2), lambda: repr(
                    builder("player_one_left_right_transitions")(length, width, moves, o1, o2)))
                rec.run("p1lrkw|%s|%d|%d|%d" % (tag, t_num, o1, o2), lambda: repr(
                    builder("player_one_left_right_transitions")(
                        length, width, moves, offset_l=o1, offset_r=o2)))
                for o3 in offsets:
                    rec.run("p1dlr|%s|%d|%d|%d|%d" % (tag, t_num, o1, o2, o3), lambda: repr(
                        builder("player_one_down_left_right_transitions")(
                            length, width, moves, offset_d=o1, offset_l=o2, offset_r=o3)))
        for off in offsets:
            for win in (None, 0, 5, 99):
                rec.run("p1d|%s|%d|%r" % (tag, off, win), lambda: repr(
                    builder("player_one_down_transitions")(length, width, off, win)))
                rec.run("p1dkw|%s|%d|%r" % (tag, off, win), lambda: repr(
                    builder("player_one_down_transitions")(
                        length, width, offset=off, winning_state=win)))
                rec.run("pdown|%s|%d|%r" % (tag, off, win), lambda: repr(
                    builder("prob_robot_down_break_transitions")(
                        length, width, 0.125, offset=off, winning_state=win)))
            rec.run("p1d-default|%s|%d" % (tag, off), lambda: repr(
                builder("player_one_down_transitions")(length, width, off)))
            for prob in (0.1, 1e-9, 0.999999, 1.0 / 3.0):
                rec.run("pleft|%s|%d|%r" % (tag, off, prob), lambda: repr(
                    builder("prob_robot_left_break_transitions")(length, width, prob, offset=off)))
                rec.run("pright|%s|%d|%r" % (tag, off, prob), lambda: repr(
                    builder("prob_robot_right_break_transitions")(length, width, prob, off)))
                rec.run("plight|%s|%d|%r" % (tag, off, prob), lambda: repr(
                    builder("prob_light_break_transitions")(
                        length, width, prob, offset_ok=off, offset_break=off + 7)))
                rec.run("plight-pos|%s|%d|%r" % (tag, off, prob), lambda: repr(
                    builder("prob_light_break_transitions")(length, width, prob, off + 2, off)))
                for l_num, loose in enumerate(loose_tables[(length, width)]):
                    rec.run("ptile|%s|%d|%r|%d" % (tag, off, prob, l_num), lambda: repr(
                        builder("prob_tile_break_transitions")(
                            length, width, prob, loose, offset=off, loosing_state=77)))
    for length, width in [(4, 5), (1, 9), (9, 1), (6, 6)]:
        moves = [[(r * 5 + c * 3) % 4 for c in range(width)] for r in range(length)]
        loose = [[(r + c * c) % 2 for c in range(width)] for r in range(length)]
        n = length * width
        tag = "big|%d|%d" % (length, width)
        rec.run("p2|" + tag, lambda: repr(rg.player_two_transitions(length, width, moves, n, 2 * n)))
        rec.run("p1d|" + tag, lambda: repr(rg.player_one_down_transitions(length, width, 3 * n, 4 * n + 1)))
        rec.run("p1d0|" + tag, lambda: repr(rg.player_one_down_transitions(length, width, 3 * n)))
        rec.run("p1lrA|" + tag, lambda: repr(rg.player_one_left_right_transitions(length, width, moves, 3 * n, 3 * n)))
        rec.run("p1lrB|" + tag, lambda: repr(rg.player_one_left_right_transitions(length, width, moves, 5 * n, 6 * n)))
        rec.run("p1dlr|" + tag, lambda: repr(rg.player_one_down_left_right_transitions(length, width, moves, 5 * n, 6 * n, 7 * n)))
        rec.run("ptile|" + tag, lambda: repr(rg.prob_tile_break_transitions(length, width, 0.3, loose, 0, 10 * n)))
        rec.run("pdown|" + tag, lambda: repr(rg.prob_robot_down_break_transitions(length, width, 0.3, 4 * n, 10 * n + 1)))
        rec.run("pleft|" + tag, lambda: repr(rg.prob_robot_left_break_transitions(length, width, 0.3, 4 * n)))
        rec.run("pright|" + tag, lambda: repr(rg.prob_robot_right_break_transitions(length, width, 0.3, 4 * n)))
        rec.run("plight|" + tag, lambda: repr(rg.prob_light_break_transitions(length, width, 0.3, n, 3 * n)))

    # odd argument types straight into the builders (evaluation order matters here)
    odd_calls = [
        ("player_two_transitions", (0, None, [], 1, 2)),
        ("player_two_transitions", (None, 0, [], 1, 2)),
        ("player_two_transitions", (1, 1, [[1]], None, 2)),
        ("player_two_transitions", (1, 1, [[3]], 1, None)),
        ("player_two_transitions", (1, 1, [[1]], 1, None)),
        ("player_two_transitions", (1, 2, [[1]], None, None)),
        ("player_two_transitions", (True, True, [[1]], 1, 2)),
        ("player_one_down_transitions", (0, None, 3, 9)),
        ("player_one_down_transitions", (0, "2", 3, 9)),
        ("player_one_down_transitions", ("2", 0, 3, 9)),
        ("player_one_down_transitions", (2.0, 2, 3, 9)),
        ("player_one_down_transitions", (2, 2, None, 9)),
        ("player_one_down_transitions", (2, 2, 3, "win")),
        ("player_one_down_transitions", (2, 2, 3, [])),
        ("player_one_down_transitions", (-1, -1, 3, 9)),
        ("player_one_left_right_transitions", (0, None, [], 1, 1)),
        ("player_one_left_right_transitions", (1, 1, [[1]], None, None)),
        ("player_one_left_right_transitions", (1, 1, [[0]], 1, None)),
        ("player_one_left_right_transitions", (1, 1, [[[]]], 1, 2)),
        ("player_one_left_right_transitions", (1, 1, [["v"]], 1, 1)),
        ("player_one_left_right_transitions", (1, 2, [[1]], 1, 1)),
        ("player_one_down_left_right_transitions", (1, 1, [[[]]], 1, 2, 3)),
        ("player_one_down_left_right_transitions", (1, 1, [[2]], 1, None, 3)),
        ("player_one_down_left_right_transitions", (1, 1, [[3]], 1, None, None)),
        ("player_one_down_left_right_transitions", (0, None, [], 1, 2, 3)),
        ("prob_tile_break_transitions", (0, 0, "a", [], 0, 7)),
        ("prob_tile_break_transitions", (1, 2, "a", [[0, 0]], 0, 7)),
        ("prob_tile_break_transitions", (1, 2, "a", [[0, 1]], 0, 7)),
        ("prob_tile_break_transitions", (1, 2, None, [[0, 0]], 0, 7)),
        ("prob_tile_break_transitions", (1, 2, 0.5, [[0, 0]], None, 7)),
        ("prob_tile_break_transitions", (0, None, 0.5, [], 0, 7)),
        ("prob_light_break_transitions", (0, 3, "a", 0, 7)),
        ("prob_light_break_transitions", (3, 0, None, 0, 7)),
        ("prob_light_break_transitions", (1, 1, "a", 0, 7)),
        ("prob_light_break_transitions", (1, 1, 0.5, None, 7)),
        ("prob_light_break_transitions", (1, 1, 0.5, 0, None)),
        ("prob_robot_down_break_transitions", (0, 2, "a", 0, 7)),
        ("prob_robot_down_break_transitions", (1, 1, "a", 0, 7)),
        ("prob_robot_down_break_transitions", (2, 1, 0.5, None, 7)),
        ("prob_robot_down_break_transitions", (0, None, 0.5, 0, 7)),
        ("prob_robot_left_break_transitions", (0, 2, "a", 0)),
        ("prob_robot_left_break_transitions", (2, 0, None, 0)),
        ("prob_robot_left_break_transitions", (1, 1, "a", 0)),
        ("prob_robot_left_break_transitions", (1, 2, 0.5, None)),
        ("prob_robot_left_break_transitions", (0, None, 0.5, 0)),
        ("prob_robot_left_break_transitions", (1, True, 0.5, 0)),
        ("prob_robot_right_break_transitions", (0, 2, "a", 0)),
        ("prob_robot_right_break_transitions", (2, 0, None, 0)),
        ("prob_robot_right_break_transitions", (1, 1, "a", 0)),
        ("prob_robot_right_break_transitions", (1, 2, 0.5, None)),
        ("prob_robot_right_break_transitions", (0, None, 0.5, 0)),
        ("prob_robot_right_break_transitions", (1, 2.0, 0.5, 0)),
    ]
    for num, (name, args) in enumerate(odd_calls):
        rec.run("odd|%d|%s" % (num, name), lambda: repr(builder(name)(*args)), keep=True)

    # ---- 7. the three writers and the preamble on a text buffer ------------ #
    def buffered(name, *args):
        buf = io.StringIO()
        result = getattr(rg, name)(buf, *args)
        return repr(result) + buf.getvalue()
    sample_boards = [
        (1, 1, [[1]], [[3]], [[1]]),
        (1, 1, [[3]], [[0]], [[0]]),
        (3, 1, [[0], [3], [2]], [[1], [2], [0]], [[1], [1], [0]]),
        (1, 3, [[0, 3, 2]], [[1, 2, 0]], [[1, 1, 0]]),
        (2, 3, [[0, 1, 2], [3, 1, 1]], [[5, 0, 1], [0, 0, 2]], [[0, 1, 0], [1, 1, 0]]),
        (0, 0, [], [], []),
        (2, 2, [[0, 1], [2, 7]], [[5, 0], [0, 2]], [[0, 1], [1, 0]]),
    ]
    for num, (length, width, moves, rewards, loose) in enumerate(sample_boards):
        rec.run("preamble|%d" % num, lambda: buffered(
            "write_preamble", length, width, moves, rewards, loose))
        rec.run("writeA|%d" % num, lambda: buffered(
            "write_robot_A", length, width, moves, rewards, loose, 0.2))
        rec.run("writeB|%d" % num, lambda: buffered(
            "write_robot_B", length, width, moves, rewards, loose, 0.2, 0.35))
        rec.run("writeC|%d" % num, lambda: buffered(
            "write_robot_C", length, width, moves, rewards, loose, 0.2, 0.35, 0.45))

    # ---- 8. small helpers --------------------------------------------------- #
    for num, args in enumerate(itertools.product(
            (-1, 0, 5), (0, 1), (-2, 3), (0, 0.5, 1), (0.0, 0.25, 1.5), (1e-9, 1), (0.5, -0.5),
            (0, 6))):
        rec.run("check_input|%d" % num, lambda: repr(rg.check_input(*args)), keep=True)
    for prob in (0.0, 0.004, 0.005, 0.015, 0.025, 0.1, 0.125, 0.5, 0.995, 0.999999, 1.0, 1e-9):
        rec.run("prob_to_str|%r" % prob, lambda: repr(rg.prob_to_str(prob)), keep=True)
    rec.run("parser-help", lambda: rg.init_parser().format_help())
    rec.run("constants", lambda: repr((rg.MOVE_SINTAX, rg.TILE_SYNTAX, rg.FOUR_SPACES,
                                       rg.EIGHT_SPACES, rg.TWELVE_SPACES, rg.SIXTEEN_SPACES)),
            keep=True)

    with open(out_json, "w") as handle:
        json.dump(rec.table, handle)
    os.chdir(tempfile.gettempdir())
    import shutil
    shutil.rmtree(workdir, ignore_errors=True)


# --------------------------------------------------------------------------- #
# parent side
# --------------------------------------------------------------------------- #

def parent(patched_root, clean_root):
    outputs = []
    procs = []
    for root in (patched_root, clean_root):
        fd, out_json = tempfile.mkstemp(prefix="c08_equiv_", suffix=".json")
        os.close(fd)
        outputs.append(out_json)
        env = dict(os.environ, PYTHONDONTWRITEBYTECODE="1", PYTHONHASHSEED="0")
        procs.append(subprocess.Popen(
            [sys.executable, os.path.abspath(__file__), "--child", root, out_json], env=env))
    codes = [proc.wait(timeout=600) for proc in procs]
    if any(codes):
        print("FAIL: child exit codes", codes)
        return 1
    tables = []
    for out_json in outputs:
        with open(out_json) as handle:
            tables.append(json.load(handle))
        os.remove(out_json)
    patched, clean = tables
    differing = [key for key in clean if patched.get(key) != clean[key]]
    differing += [key for key in patched if key not in clean]
    n_exc = sum(1 for value in clean.values() if value[0] == "exc")
    print("probes: %d (of which %d raise in the clean tree)" % (len(clean), n_exc))
    if differing:
        print("FAIL: %d probes differ" % len(differing))
        for key in differing[:15]:
            print("  %s\n     patched: %r\n     clean  : %r" % (key, patched.get(key), clean.get(key)))
        return 1
    print("PASS")
    return 0


if __name__ == "__main__":
    if len(sys.argv) == 4 and sys.argv[1] == "--child":
        child(sys.argv[2], sys.argv[3])
    elif len(sys.argv) == 3:
        sys.exit(parent(sys.argv[1], sys.argv[2]))
    else:
        print(__doc__)
        sys.exit(2)
