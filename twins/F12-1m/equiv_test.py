#!/usr/bin/env python
"""Behavioural equivalence test for property C12 (batch driver / report writer).

usage: python equiv_test.py <path-to-patched-root> <path-to-clean-root>

The two trees are loaded in separate subprocesses (this same file, --worker).
Both workers get the same pickled scenario list and dump what they observed;
the parent compares the two dumps item by item and, on the patched tree's
dump, re-checks the property itself (batch entries == entries of the game
solved alone).  Prints PASS / exits 0 when nothing differs, FAIL / 1 otherwise.

What is compared
  * run_games(): every candidate game alone, ~220 batches (random subsets and
    orders, failing games first / between / last, aliasing between games,
    colliding names, the same dict run twice, pre-set prune_states, games that
    blow up with a non-ValueError): normalised result dict (repr, key order
    included, total_time checked to be a float >= 0 and masked), or exception
    type + message; the input dictionary after the call; the INFO/ERROR log
    records emitted (Total time masked).
  * save_results_to_file(): many result dicts x awkward file names, the bytes
    written (also the partial file left behind by a malformed result dict).
  * the command line: python conditionalrewards.py -f FILE [-s] [-l ..] in a
    scratch cwd: return code, stdout, stderr (last line only for tracebacks),
    report file (Total time masked).
  * set_logger / read_dict_from_file / init_parser, StochasticGame
    count_transitions / solve directly (the code the driver calls).
Every solve has a time budget: candidates are first screened on the clean tree
(0.15 s per game alone, and per direct solve); only games that finish there are used, and then get 8 s.
"""
import copy
import os
import pickle
import random
import re
import shutil
import subprocess
import sys
import tempfile

P1, P2, PR = "Player 1", "Player 2", "Probabilistic"
ACTIONS = ["a", "b", "c", "alfa", "beta", " "]
SCREEN_BUDGET = 0.15
RUN_BUDGET = 8.0
N_RANDOM = 340
TOTAL_TIME_RE = re.compile(r"^(Total time\s*: ).*$", re.M)


# --------------------------------------------------------------------------- scenarios

def split_probs(rng, k):
    if k == 1:
        return rng.choice([[1], [1.0], [1], [0.5]])
    if k == 2:
        return list(rng.choice([(0.5, 0.5), (0.25, 0.75), (1 / 3, 2 / 3), (0.1, 0.9),
                                (1e-9, 1 - 1e-9), (0.0, 1.0), (0, 1), (0.999999, 0.000001)]))
    if k == 3:
        return list(rng.choice([(0.5, 0.25, 0.25), (1 / 3, 1 / 3, 1 / 3), (0.2, 0.3, 0.5),
                                (0.0, 0.5, 0.5), (0.01, 0.01, 0.98)]))
    return [1 / k] * k


def gen_game(rng):
    """Three styles: layered (always stops), layered + probabilistic back edges (cycles through
    probabilistic states), fully random (often does not stop: screened by the time budget)."""
    style = rng.choice("AAAAABBBCC")
    n = rng.choice([1, 2, 2, 3, 3, 4, 4, 5, 5, 6, 6, 7, 8, 9, 11])
    players = [rng.choice([P1, P2, PR, PR]) for _ in range(n)]
    finals = rng.sample(range(n), min(n, rng.choice([1, 1, 1, 2, 2, 3])))
    if style != "C" and rng.random() < 0.7:
        finals[0] = n - 1
        finals = sorted(set(finals), reverse=rng.random() < 0.3)
    if rng.random() < 0.1:
        finals = finals + [finals[0]]
    absorbing = set(finals)
    for i in range(n):
        if rng.random() < 0.15 or (style != "C" and i == n - 1):
            absorbing.add(i)
    transitions = []
    for i in range(n):
        if i in absorbing and (style != "C" or rng.random() < 0.85):
            if players[i] == PR:
                transitions.append([(rng.choice([1, 1.0]), i)])
            else:
                transitions.append([(rng.choice(ACTIONS), i)])
            continue
        k = rng.choice([1, 2, 2, 2, 3, 3, 4])
        if style == "C":
            if rng.random() < 0.6:
                targets = [rng.randrange(i, n) if rng.random() < 0.7 else rng.randrange(n) for _ in range(k)]
            else:
                targets = [rng.randrange(n) for _ in range(k)]
        else:
            targets = [rng.randrange(i + 1, n) for _ in range(k)]
            if style == "B" and players[i] == PR and k > 1 and rng.random() < 0.6:
                targets[rng.randrange(1, k)] = rng.randrange(0, i + 1)      # back edge or self loop
        if players[i] == PR:
            probs = split_probs(rng, k)
            if style == "B" and k == 2 and probs[1] > 0.99:
                probs = [0.5, 0.5]
            transitions.append(list(zip(probs, targets)))
        else:
            if rng.random() < 0.15:
                acts = [rng.choice(ACTIONS) for _ in range(k)]
            else:
                acts = rng.sample(ACTIONS, k)
            transitions.append(list(zip(acts, targets)))
    rewards = []
    for i in range(n):
        if i in absorbing:
            rewards.append(0 if style != "C" else rng.choice([0, 0, 0, 0, 1]))
        else:
            rewards.append(rng.choice([0, 0, 0, 1, 1, 2, 5, 0.5, 1 / 3, 10 ** 6, 2.5]))
    game = {"rewards": rewards, "players": players,
            "transition_list": transitions, "final_states": finals}
    if rng.random() < 0.05:
        game["prune_states"] = rng.choice([True, False])
    return game


def base_game():
    return {"rewards": [0, 1, 0, 0], "players": [P1, PR, PR, P2],
            "transition_list": [[("a", 1), ("b", 3)], [(0.5, 2), (0.5, 0)], [(1, 2)], [("c", 2), ("d", 3)]],
            "final_states": [2]}


def malformed_games():
    out = []

    def variant(**changes):
        g = base_game()
        for k, v in changes.items():
            if v is KeyError:
                del g[k]
            else:
                g[k] = v
        out.append(g)

    variant()                                                       # fine
    variant(rewards=[0, 1, 0])                                      # reward length
    variant(transition_list=[[("a", 1)], [(1, 2)], [(1, 2)]])       # transition length
    variant(rewards=[0, -1, 0, 0])                                  # negative
    variant(final_states=[4])                                       # out of range
    variant(final_states=[-1])
    variant(final_states=[])                                        # max() of empty: ValueError
    variant(final_states=[0])                                       # start is final
    variant(final_states=[3])                                       # start cannot reach surely
    variant(players=[P1, PR, PR, "Player 3"])
    variant(players=[P1, PR, PR])                                   # shorter players
    variant(players=[])                                             # no states
    variant(players=[], rewards=[], transition_list=[], final_states=[])
    variant(players=None)                                           # TypeError in constructor
    variant(transition_list=None)                                   # TypeError in count_transitions
    variant(transition_list=[[("a", 1), ("b", 3)], [(0.5, 2), (0.5, 0)], [], [("c", 2)]])   # missing transitions
    variant(transition_list=[[("a", 1), ("b", 3)], ((0.5, 2), (0.5, 0)), [(1, 2)], [("c", 2)]])  # tuple of transitions
    variant(transition_list=[[("a", 1), ("b", 3)], "xy", [(1, 2)], [("c", 2)]])
    variant(transition_list=[[("a", 1), ["b", 3]], [(0.5, 2), (0.5, 0)], [(1, 2)], [("c", 2)]])  # not tuples
    variant(transition_list=[[("a", 1, 2)], [(0.5, 2), (0.5, 0)], [(1, 2)], [("c", 2)]])    # length 3
    variant(transition_list=[[(1, 1)], [(0.5, 2), (0.5, 0)], [(1, 2)], [("c", 2)]])          # action not str
    variant(transition_list=[[("a", 1)], [("x", 2), (0.5, 0)], [(1, 2)], [("c", 2)]])        # prob not number
    variant(transition_list=[[("a", 1.0)], [(0.5, 2), (0.5, 0)], [(1, 2)], [("c", 2)]])      # next not int
    variant(transition_list=[[("a", 4)], [(0.5, 2), (0.5, 0)], [(1, 2)], [("c", 2)]])        # next out of range
    variant(transition_list=[[("a", -1)], [(0.5, 2), (0.5, 0)], [(1, 2)], [("c", 2)]])
    variant(transition_list=[[("a", 3)], [(0.5, 2), (0.5, 0)], [(1, 2)], [("c", 3)]])        # no solution
    variant(transition_list=[[("a", 1)], [(0.0, 2), (1.0, 1)], [(1, 2)], [("c", 3)]])        # zero prob edge
    variant(transition_list=[[("a", 1)], [(0, 1), (0, 1)], [(1, 2)], [("c", 3)]])
    variant(rewards=KeyError)                                       # missing key: TypeError
    variant(final_states=KeyError)
    variant(bogus=1)                                                # unexpected key: TypeError
    variant(prune_states=False)
    variant(prune_states="yes")
    variant(rewards=[0, "x", 0, 0])                                 # TypeError from min()
    variant(rewards=(0, 1, 0, 0), players=(P1, PR, PR, P2), final_states=(2,))  # tuples are accepted
    variant(final_states=[2.0])
    variant(final_states=[[2]])                                     # TypeError in check
    variant(final_states=None)                                      # TypeError
    variant(final_states={2})
    out.append("not a dict")
    out.append(None)
    out.append([1, 2])
    out.append({})
    return out


def make_scenarios(ok_flags, candidates, rng):
    """Batches over the candidates that passed the screening (aliasing is kept by pickle)."""
    pool = [i for i, ok in enumerate(ok_flags) if ok]
    kinds = {}        # filled by the parent from the clean 'alone' dump; here only structure
    batches = []

    def named(idx_list, prefix="g"):
        return [(f"{prefix}{i}", i) for i in idx_list]

    for _ in range(150):
        k = rng.choice([0, 1, 2, 2, 3, 3, 4, 5, 6])
        batches.append({"kind": "plain", "items": named([rng.choice(pool) for _ in range(k)]) if k else []})
    # the same multiset in several orders
    for _ in range(20):
        idxs = rng.sample(pool, min(len(pool), rng.choice([2, 3, 4])))
        for _ in range(2):
            rng.shuffle(idxs)
            batches.append({"kind": "plain", "items": named(list(idxs))})
    # aliasing: the same game object under two names (names must differ)
    for _ in range(15):
        i = rng.choice(pool)
        j = rng.choice(pool)
        batches.append({"kind": "alias", "items": [(f"x{i}", i), (f"y{j}", j), (f"z{i}", i)]})
    # colliding names:  "n" and "n_no_prune"
    for _ in range(10):
        i, j = rng.choice(pool), rng.choice(pool)
        order = [("n", i), ("n_no_prune", j)]
        if rng.random() < 0.5:
            order.reverse()
        batches.append({"kind": "collide", "items": order})
    # the same dictionary run twice (history)
    for _ in range(15):
        idxs = [rng.choice(pool) for _ in range(rng.choice([1, 2, 3]))]
        batches.append({"kind": "twice", "items": named(idxs)})
    # odd names
    batches.append({"kind": "plain", "items": [("", pool[0]), (" ", pool[1]), ("with space.py", pool[2])]})
    batches.append({"kind": "rawnames", "items": [("ok", pool[0]), (7, pool[1]), ("later", pool[2])]})
    batches.append({"kind": "rawnames", "items": [(("t", 1), pool[0])]})
    batches.append({"kind": "rawnames", "items": [(None, pool[3])]})
    return batches


# --------------------------------------------------------------------------- worker

class Budget(BaseException):
    pass


def worker(root, in_path, out_path, mode):
    import signal
    import logging
    sys.path.insert(0, root)
    scratch = tempfile.mkdtemp(prefix="c12_eq_")
    os.makedirs(os.path.join(scratch, "outputs"))
    os.chdir(scratch)
    import conditionalrewards as cr
    import tad
    assert os.path.dirname(os.path.abspath(cr.__file__)) == os.path.abspath(root)
    assert os.path.dirname(os.path.abspath(tad.__file__)) == os.path.abspath(root)

    records = []

    class Capture(logging.Handler):
        def emit(self, record):
            msg = record.getMessage()
            records.append((record.levelname, TOTAL_TIME_RE.sub(r"\1T", msg)))

    capture = Capture()
    root_logger = logging.getLogger()

    def install_capture():
        root_logger.handlers[:] = [capture]
        root_logger.setLevel(logging.INFO)

    install_capture()

    def on_alarm(signum, frame):
        raise Budget()

    signal.signal(signal.SIGALRM, on_alarm)

    def guarded(budget, fn, *args):
        signal.setitimer(signal.ITIMER_REAL, budget)
        try:
            return ("ok", fn(*args))
        except Budget:
            return ("timeout", None)
        except Exception as e:                       # noqa: BLE001 - we compare them
            return ("exc", (type(e).__name__, str(e)))
        finally:
            signal.setitimer(signal.ITIMER_REAL, 0)

    def normalise(results):
        if not isinstance(results, dict):
            return repr(results)
        clone = {}
        for name, entry in results.items():
            if isinstance(entry, dict) and "total_time" in entry:
                entry = dict(entry)
                t = entry["total_time"]
                entry["total_time"] = "T" if (isinstance(t, float) and 0 <= t < 60) else ("BAD", t)
            clone[name] = entry
        return repr(clone)

    def observe_run(games, budget):
        del records[:]
        status, value = guarded(budget, cr.run_games, games)
        obs = {"status": status,
               "value": normalise(value) if status == "ok" else value,
               "after": repr(games),
               "logs": list(records)}
        return obs, (value if status == "ok" else None)

    with open(in_path, "rb") as f:
        job = pickle.load(f)
    out = {}

    if mode == "screen":
        flags = []
        direct_flags = {}
        for i, game in enumerate(job["candidates"]):
            obs, _ = observe_run({"g": copy.deepcopy(game)}, SCREEN_BUDGET)
            flags.append(obs["status"] != "timeout")
            if not isinstance(game, dict):
                continue
            for prune in (True, False):
                def solve_it(game=game, prune=prune):
                    g = copy.deepcopy(game)
                    g["prune_states"] = prune
                    return tad.StochasticGame(**g).solve()
                direct_flags[(i, prune)] = guarded(SCREEN_BUDGET, solve_it)[0] != "timeout"
        out["flags"] = flags
        out["direct_flags"] = direct_flags
    else:
        candidates = job["candidates"]
        # ---- every screened game alone
        alone = {}
        kept_results = []
        for i, ok in enumerate(job["flags"]):
            if not ok:
                continue
            obs, res = observe_run({f"g{i}": copy.deepcopy(candidates[i])}, RUN_BUDGET)
            alone[i] = obs
            if res and len(kept_results) < 60:
                kept_results.append(res)
        out["alone"] = alone
        # ---- batches
        batch_obs = []
        for batch in job["batches"]:
            local = {}
            games = {}
            for name, i in batch["items"]:
                if batch["kind"] in ("alias", "twice", "plain", "collide", "rawnames"):
                    if batch["kind"] == "alias":
                        local.setdefault(i, copy.deepcopy(candidates[i]))
                        games[name] = local[i]
                    else:
                        games[name] = copy.deepcopy(candidates[i])
            obs, _ = observe_run(games, RUN_BUDGET)
            entry = {"first": obs}
            if batch["kind"] == "twice":
                entry["second"], _ = observe_run(games, RUN_BUDGET)
            batch_obs.append(entry)
        out["batches"] = batch_obs
        # a games "dict" that is not a dict
        out["nondict"] = [observe_run(x, RUN_BUDGET)[0] for x in ([], None, [("a", base_game())], "ab")]

        # ---- report writer
        def fixed_times(res):
            res = copy.deepcopy(res)
            for k, entry in enumerate(res.values()):
                entry["total_time"] = 0.125 * (k + 1)
            return res

        reports = []
        file_names = ["x.py", "inputs/x.py", "a/b.c/d.e.f", "noext", ".hidden", "dir/", "", "a//b.txt",
                      "../up.py", "/abs/path/file.name.py", "sp ace.py", "inputs\\win.py"]
        handmade = [
            {},
            {"only": {"reachability_strategies": [["a"]], "final_strategies": [["a"]], "total_time": 1,
                      "msg": "m\nn", "n_states": (1, 2), "n_transitions": None, "n_iterations_reach": "s",
                      "n_iterations_rew": 0.1, "probabilities": {1: 2}, "prob_min_rew": [1e-7],
                      "rewards": [10 ** 25], "rew_min_reach": [float("inf")], "extra": 1}},
            {"good": {"reachability_strategies": None, "final_strategies": None, "total_time": 0.5,
                      "msg": "Game not solved", "n_states": 1, "n_transitions": 1, "n_iterations_reach": 0,
                      "n_iterations_rew": 0, "probabilities": None, "prob_min_rew": 0, "rewards": None,
                      "rew_min_reach": 0},
             "no_msg": {"reachability_strategies": None, "final_strategies": None, "total_time": 0.5}},
            {"no_time": {"reachability_strategies": None, "final_strategies": None}},
            {"half": {"reachability_strategies": 1, "final_strategies": 1.0, "total_time": 2, "msg": "x",
                      "n_states": 1, "n_transitions": 1, "n_iterations_reach": 0, "n_iterations_rew": 0}},
            {1: {"reachability_strategies": None}},
            {"notdict": 5},
        ]
        all_results = [fixed_times(r) for r in kept_results] + handmade
        for k, res in enumerate(all_results):
            names = file_names if k < 6 or k >= len(kept_results) else [file_names[k % len(file_names)]]
            for fname in names:
                status, value = guarded(RUN_BUDGET, cr.save_results_to_file, res, fname)
                written = {}
                for dirpath, _, files in os.walk(scratch):
                    for fn in files:
                        p = os.path.join(dirpath, fn)
                        with open(p, "rb") as fh:
                            written[os.path.relpath(p, scratch)] = fh.read()
                        os.remove(p)
                reports.append((k, fname, status, value, sorted(written.items())))
        # no outputs directory
        os.rename("outputs", "outputs_away")
        reports.append(("nodir", guarded(RUN_BUDGET, cr.save_results_to_file, all_results[0], "x.py")))
        os.rename("outputs_away", "outputs")
        out["reports"] = reports

        # ---- small helpers on the command-line path
        misc = []
        for level in (None, "", 0, "INFO", "i", "DEBUG", "d", "FULL_DEBUG", "dd", "x", "info", 20, 10,
                      ["i"], ("i",), "NODEFAULT"):
            root_logger.handlers[:] = []
            root_logger.setLevel(logging.WARNING)
            if level == "NODEFAULT":
                status, value = guarded(RUN_BUDGET, cr.set_logger)
            else:
                status, value = guarded(RUN_BUDGET, cr.set_logger, level)
            handlers = [(type(h).__name__, getattr(h.formatter, "_fmt", None)) for h in root_logger.handlers]
            for h in list(root_logger.handlers):
                root_logger.removeHandler(h)
            misc.append(("set_logger", repr(level), status, repr(value), root_logger.level, handlers))
        install_capture()
        texts = {"d.py": "{'a': 1}", "l.py": "[1, 2]", "e.py": "", "s.py": "{'a': ", "n.py": "{'a': nope}",
                 "t.py": "{1/4: (2, 3)}\n\n", "set.py": "{1, 2}", "none.py": "None"}
        for fn, text in texts.items():
            with open(fn, "w") as fh:
                fh.write(text)
        for fn in list(texts) + ["missing.py", "outputs"]:
            status, value = guarded(RUN_BUDGET, cr.read_dict_from_file, fn)
            misc.append(("read", fn, status, repr(value)))
        for fn in texts:
            os.remove(fn)
        parser = cr.init_parser()
        misc.append(("help", parser.format_help()))
        for argv in (["-f", "a"], ["--file", "a", "-s"], ["-f", "a", "-l", "d", "--save_results"],
                     ["-f", "a", "--log_level", "zz"]):
            misc.append(("parse", argv, repr(sorted(vars(parser.parse_args(argv)).items()))))
        out["misc"] = misc

        # ---- the solver object the driver uses
        direct = []
        odd_lists = [[[("a", 0)], "ab", ("x", 1), None, 5, [(1, 1), (1, 2)]], None, {"a": [1]}, [], [[]],
                     [[1, 2, 3]], ([1], [2, 3])]
        for tl in odd_lists:
            def count(tl=tl):
                return tad.StochasticGame([0], [P1], tl, [0]).count_transitions()
            direct.append(("count", repr(tl), guarded(RUN_BUDGET, count)))
        for (i, prune), ok in sorted(job["direct_flags"].items()):
            if ok:
                def solve_it(i=i, prune=prune):
                    g = copy.deepcopy(candidates[i])
                    g["prune_states"] = prune
                    sg = tad.StochasticGame(**g)
                    return repr((sg.num_states, sg.count_transitions(), sg.solve(), g))
                direct.append(("solve", i, prune, guarded(RUN_BUDGET, solve_it)))
        out["direct"] = direct

    os.chdir("/")
    shutil.rmtree(scratch, ignore_errors=True)
    with open(out_path, "wb") as f:
        pickle.dump(out, f)


# --------------------------------------------------------------------------- command line runs

def cli_observations(root, clean_root, workdir, generated):
    """Run the script of `root` in a scratch cwd; the input files always come from the same place."""
    cwd = tempfile.mkdtemp(prefix="cli_", dir=workdir)
    os.makedirs(os.path.join(cwd, "outputs"))
    script = os.path.join(root, "conditionalrewards.py")
    inputs = os.path.join(clean_root, "inputs")
    runs = [
        ["-f", os.path.join(inputs, "paper_games.py"), "-s"],
        ["-f", os.path.join(inputs, "example_games.py"), "-s", "-l", "i"],
        ["-f", os.path.join(inputs, "manual_1_game_a.py"), "-s"],
        ["-f", os.path.join(inputs, "example_17_08.py")],
        ["-f", os.path.join(inputs, "robot_1_w2_l1_r6_rb10_lb5_tb10_lt0.py"), "--save_results", "-l", "INFO"],
        ["-f", generated["mixed"], "-s"],
        ["-f", generated["mixed"], "-s", "-l", "d"],
        ["-f", generated["tiny"], "-l", "d", "-s"],
        ["-f", generated["typeerror"], "-s"],
        ["-f", generated["notdict"], "-s"],
        ["-f", generated["empty"], "-s"],
        ["-f", os.path.join(workdir, "does_not_exist.py"), "-s"],
        ["-f", generated["tiny"], "-l", "zz", "-s"],
        ["-s"],
        ["-h"],
    ]
    procs = []
    for args in runs:
        procs.append(subprocess.Popen([sys.executable, script] + args, cwd=cwd, stdout=subprocess.PIPE,
                                      stderr=subprocess.PIPE, text=True))
    observed = []
    for args, p in zip(runs, procs):
        try:
            so, se = p.communicate(timeout=60)
        except subprocess.TimeoutExpired:
            p.kill()
            so, se = p.communicate()
            se += "\nTIMEOUT"
        so = TOTAL_TIME_RE.sub(r"\1T", so)
        se = TOTAL_TIME_RE.sub(r"\1T", se)
        if "Traceback (most recent call last)" in se:
            head, _, _ = se.partition("Traceback (most recent call last)")
            se = head + "TRACEBACK ... " + se.strip().splitlines()[-1]
        observed.append((args, p.returncode, so, se))
    files = {}
    for fn in sorted(os.listdir(os.path.join(cwd, "outputs"))):
        with open(os.path.join(cwd, "outputs", fn)) as fh:
            files[fn] = TOTAL_TIME_RE.sub(r"\1T", fh.read())
    return observed, files


# --------------------------------------------------------------------------- parent

def diff_items(label, a, b, problems, limit=6):
    if a == b:
        return
    if len(problems) < limit:
        problems.append(f"{label}:\n   patched: {str(a)[:1500]}\n   clean  : {str(b)[:1500]}")
    else:
        problems.append(f"{label}: differs")


def check_property(dump, job, problems):
    """On one tree's dump: batch entries must equal the entries of the game run alone."""
    alone = dump["alone"]
    import ast  # results were normalised to repr of plain python data (inf/nan aside)

    def load(text):
        try:
            return ast.literal_eval(text)
        except Exception:            # inf / nan in the repr: compare as text instead
            return None

    checked = 0
    for batch, obs in zip(job["batches"], dump["batches"]):
        if batch["kind"] not in ("plain", "alias", "twice"):
            continue
        first = obs["first"]
        names = [n for n, _ in batch["items"]]
        if len(set(names)) != len(names) or first["status"] != "ok":
            continue
        got = load(first["value"])
        if got is None:
            continue
        expected_keys = []
        for name, i in batch["items"]:
            solo = alone[i]
            if solo["status"] != "ok":
                break
            solo_res = load(solo["value"])
            if solo_res is None:
                break
            for suffix in ("", "_no_prune"):
                expected_keys.append(name + suffix)
                if got.get(name + suffix) != solo_res[f"g{i}" + suffix]:
                    problems.append(f"PROPERTY: batch {names} entry {name + suffix} differs from solving alone")
            if solo_res[f"g{i}"]["msg"].startswith("Error while solving the game") and \
                    solo_res[f"g{i}_no_prune"]["msg"] != "Game not solved":
                problems.append(f"PROPERTY: failing game g{i} unpruned entry not marked")
            checked += 1
        else:
            if list(got) != expected_keys:
                problems.append(f"PROPERTY: batch {names} keys {list(got)}")
    return checked


def main():
    if len(sys.argv) >= 2 and sys.argv[1] == "--worker":
        worker(*sys.argv[2:6])
        return 0
    if len(sys.argv) != 3:
        print(__doc__)
        return 2
    patched, clean = (os.path.abspath(p) for p in sys.argv[1:3])
    workdir = tempfile.mkdtemp(prefix="c12_equiv_")
    problems = []
    try:
        rng = random.Random(20261004)
        candidates = [gen_game(rng) for _ in range(N_RANDOM)] + malformed_games()
        job = {"candidates": candidates}
        job_path = os.path.join(workdir, "job.pkl")
        with open(job_path, "wb") as f:
            pickle.dump(job, f)
        env = dict(os.environ, PYTHONDONTWRITEBYTECODE="1", PYTHONHASHSEED="0")

        def spawn(root, mode, out_name):
            out_path = os.path.join(workdir, out_name)
            p = subprocess.Popen([sys.executable, os.path.abspath(__file__), "--worker", root, job_path,
                                  out_path, mode], env=env)
            return p, out_path

        p, screen_path = spawn(clean, "screen", "screen.pkl")
        if p.wait() != 0:
            print("FAIL (screening worker crashed)")
            return 1
        with open(screen_path, "rb") as f:
            screened = pickle.load(f)
        flags = job["flags"] = screened["flags"]
        job["direct_flags"] = screened["direct_flags"]
        job["batches"] = make_scenarios(flags, candidates, random.Random(7))
        with open(job_path, "wb") as f:
            pickle.dump(job, f)

        # input files for the command line
        generated = {}
        ok_idx = [i for i, ok in enumerate(flags) if ok and isinstance(candidates[i], dict)]
        n_rand = N_RANDOM
        mixed = {}
        for i in ok_idx[:12] + [n_rand + 0, n_rand + 3, n_rand + 25, n_rand + 1, n_rand + 15] + ok_idx[12:16]:
            if "players" in candidates[i] and candidates[i]["players"] is not None:
                mixed[f"game_{i}"] = candidates[i]
        texts = {"mixed": repr(mixed), "tiny": repr({"t": base_game()}),
                 "typeerror": repr({"ok": base_game(), "bad": {"rewards": [0]}, "after": base_game()}),
                 "notdict": "[1, 2, 3]", "empty": "{}"}
        for key, text in texts.items():
            path = os.path.join(workdir, f"gen_{key}.v1.py")
            with open(path, "w") as f:
                f.write(text)
            generated[key] = path

        pa, out_a = spawn(patched, "run", "patched.pkl")
        pb, out_b = spawn(clean, "run", "clean.pkl")
        cli_a = cli_observations(patched, clean, workdir, generated)
        cli_b = cli_observations(clean, clean, workdir, generated)
        if pa.wait() != 0 or pb.wait() != 0:
            print("FAIL (worker crashed)")
            return 1
        with open(out_a, "rb") as f:
            A = pickle.load(f)
        with open(out_b, "rb") as f:
            B = pickle.load(f)

        n_timeouts = 0
        for i in B["alone"]:
            diff_items(f"alone game {i} {candidates[i]!r}", A["alone"][i], B["alone"][i], problems)
            n_timeouts += B["alone"][i]["status"] == "timeout"
        for k, batch in enumerate(job["batches"]):
            diff_items(f"batch {k} {batch}", A["batches"][k], B["batches"][k], problems)
            n_timeouts += B["batches"][k]["first"]["status"] == "timeout"
        diff_items("non-dict inputs", A["nondict"], B["nondict"], problems)
        for ra, rb in zip(A["reports"], B["reports"]):
            diff_items(f"report {ra[:2]}", ra, rb, problems)
        diff_items("report count", len(A["reports"]), len(B["reports"]), problems)
        for ma, mb in zip(A["misc"], B["misc"]):
            diff_items(f"misc {ma[:2]}", ma, mb, problems)
        diff_items("misc count", len(A["misc"]), len(B["misc"]), problems)
        for da, db in zip(A["direct"], B["direct"]):
            diff_items(f"direct {da[:3]}", da, db, problems)
            n_timeouts += db[-1][0] == "timeout"
        diff_items("direct count", len(A["direct"]), len(B["direct"]), problems)
        for (args, *ra), (_, *rb) in zip(cli_a[0], cli_b[0]):
            diff_items(f"cli {args}", ra, rb, problems)
        diff_items("cli files", cli_a[1], cli_b[1], problems)
        if n_timeouts:
            problems.append(f"{n_timeouts} scenarios ran out of budget on the clean tree (machine too slow?)")
        checked = check_property(A, job, problems)

        statuses = [B["alone"][i]["status"] for i in B["alone"]]
        n_err = sum(1 for i in B["alone"] if B["alone"][i]["status"] == "ok"
                    and "Error while solving" in B["alone"][i]["value"])
        print(f"candidates {len(candidates)}, screened out {flags.count(False)}, alone ok {statuses.count('ok')}"
              f" (of which failing with a message {n_err}), alone raising {statuses.count('exc')},"
              f" batches {len(job['batches'])}, reports {len(B['reports'])}, cli runs {len(cli_b[0])},"
              f" cli files {len(cli_b[1])}, direct {len(B['direct'])}, property-checked games {checked}")
    finally:
        shutil.rmtree(workdir, ignore_errors=True)
    if problems:
        print("\n".join(problems[:12]))
        print(f"FAIL ({len(problems)} differences)")
        return 1
    print("PASS")
    return 0


if __name__ == "__main__":
    sys.exit(main())
