#!/usr/bin/env python
"""Equivalence test for property C07 (backward search / reversed transitions).

usage: python equiv_test.py <path-to-patched-root> <path-to-clean-root>

Both trees are loaded in separate subprocesses (this same file, --worker mode).
Each worker produces one line per observation: "<case id>\t<repr of result or
exception type+message>".  The driver compares the two transcripts line by line,
prints PASS and exits 0 when nothing differs, FAIL (with the first differences)
and exits 1 otherwise.
"""
import os
import subprocess
import sys
import tempfile

SOLVE_BUDGET = 0.5      # seconds per StochasticGame.solve()
TIMEOUT_MARK = "<<TIMEOUT>>"


# --------------------------------------------------------------------------
# worker
# --------------------------------------------------------------------------
def outcome(fn, *args):
    try:
        return "OK " + repr(fn(*args))
    except RecursionError as e:           # must never be hidden
        return "EXC RecursionError " + str(e)[:60]
    except Exception as e:                # noqa: BLE001 - we compare type + message
        return "EXC %s %s" % (type(e).__name__, e)


def oracle(transition_list, final_states):
    """independent forward fixed point: non-final states that can reach a final one"""
    n = len(transition_list)
    finals = set(final_states)
    good = set(finals)
    changed = True
    while changed:
        changed = False
        for u in range(n):
            if u in good:
                continue
            for _, v in transition_list[u]:
                if v in good:
                    good.add(u)
                    changed = True
                    break
    return sorted(s for s in good if s not in finals)


def random_graph(rnd):
    shape = rnd.choice(["sparse", "dense", "dag", "layers", "islands", "tiny", "multi"])
    if shape == "tiny":
        n = rnd.randint(1, 3)
    else:
        n = rnd.randint(2, 45)
    tl = []
    for u in range(n):
        if shape == "sparse":
            k = rnd.choice([0, 1, 1, 2])
            targets = [rnd.randrange(n) for _ in range(k)]
        elif shape == "dense":
            k = rnd.randint(0, min(n, 8))
            targets = [rnd.randrange(n) for _ in range(k)]
        elif shape == "dag":
            k = rnd.randint(0, 3)
            targets = [rnd.randrange(u + 1, n) for _ in range(k)] if u + 1 < n else []
        elif shape == "layers":
            width = rnd.randint(1, 4)
            lo = min(n - 1, (u // width + 1) * width)
            hi = min(n - 1, lo + width - 1)
            targets = [rnd.randint(lo, hi) for _ in range(rnd.randint(1, 3))]
            if rnd.random() < 0.15:
                targets.append(rnd.randrange(0, u + 1))     # back edge
        elif shape == "islands":
            half = n // 2
            if u < half:
                targets = [rnd.randrange(max(1, half)) for _ in range(rnd.randint(0, 2))]
            else:
                targets = [rnd.randrange(half, n) for _ in range(rnd.randint(0, 2))]
        elif shape == "multi":                                 # parallel edges + self loops
            t = rnd.randrange(n)
            targets = [t] * rnd.randint(1, 4) + [u] * rnd.randint(0, 2)
            if rnd.random() < 0.5:
                targets.append(rnd.randrange(n))
            rnd.shuffle(targets)
        else:
            targets = [rnd.randrange(n) for _ in range(rnd.randint(0, 3))]
        labels = [rnd.choice(["a", "b", 0.5, 1, 0.25, "Down"]) for _ in targets]
        tl.append(list(zip(labels, targets)))
    k = rnd.choice([1, 1, 1, 2, 3, n])
    finals = [rnd.randrange(n) for _ in range(k)]
    if rnd.random() < 0.3:                                     # repetitions, any order
        finals = finals + [rnd.choice(finals) for _ in range(rnd.randint(1, 3))]
        rnd.shuffle(finals)
    container = rnd.choice(["list", "list", "list", "tuple", "set"])
    if container == "tuple":
        finals = tuple(finals)
    elif container == "set":
        finals = set(finals)
    return tl, finals


def chain(n, direction):
    if direction == "fwd":      # 0 -> 1 -> ... -> n-1
        return [[(1, i + 1)] for i in range(n - 1)] + [[(1, n - 1)]], [n - 1]
    # n-1 -> ... -> 0
    return [[(1, 0)]] + [[(1, i - 1)] for i in range(1, n)], [0]


def worker(root):
    sys.dont_write_bytecode = True
    sys.path.insert(0, root)
    import copy
    import random
    import signal

    scratch = tempfile.mkdtemp(prefix="c07w_")
    os.chdir(scratch)
    os.mkdir("inputs")
    os.mkdir("outputs")

    import logging
    logging.disable(logging.CRITICAL)

    import reverse_dfs as R
    import tad
    import roberta_generator as G
    import conditionalrewards as C

    assert os.path.dirname(os.path.abspath(R.__file__)) == os.path.abspath(root), R.__file__

    out = []

    def emit(cid, text):
        out.append("%s\t%s" % (cid, text.replace("\n", "\\n")))

    def observe(cid, tl, finals, with_oracle=False, big=False):
        tl_before = repr(tl) if not big else None
        fin_before = repr(finals)
        res = outcome(R.reverse_dfs, tl, finals)
        if big:
            import hashlib
            emit(cid + "/dfs", "%d %s" % (len(res), hashlib.sha256(res.encode()).hexdigest()))
            rt = outcome(R.reverse_transition_list, tl)
            emit(cid + "/rev", "%d %s" % (len(rt), hashlib.sha256(rt.encode()).hexdigest()))
        else:
            emit(cid + "/dfs", res)
            emit(cid + "/rev", outcome(R.reverse_transition_list, tl))
            emit(cid + "/tad", outcome(tad.reverse_dfs, tl, finals))
            # inputs must not be mutated
            emit(cid + "/unmutated", repr(repr(tl) == tl_before and repr(finals) == fin_before))
        if with_oracle:
            emit(cid + "/oracle", repr(res == "OK " + repr(oracle(tl, finals))))

    # ---- 1. random well formed graphs ---------------------------------
    rnd = random.Random(7007)
    for i in range(700):
        tl, finals = random_graph(rnd)
        observe("rand%03d" % i, tl, finals, with_oracle=True)

    # ---- 2. the helper functions on their own --------------------------
    for i in range(120):
        tl, finals = random_graph(rnd)
        core = outcome(R.reverse_transition_list_core, tl)
        emit("core%03d" % i, core)
        pairs = [(rnd.randrange(-3, 12), rnd.randrange(50)) for _ in range(rnd.randint(0, 25))]
        emit("l2d%03d" % i, outcome(R.list_of_tuples_to_dict_of_lists, pairs))
        d = {rnd.randrange(15): [rnd.randrange(9)] for _ in range(rnd.randint(0, 8))}
        n = rnd.randint(0, 18)
        d_in = copy.deepcopy(d)
        res = R.add_missing_states(d_in, n)
        emit("ams%03d" % i, "%r same_object=%r" % (res, res is d_in))
        # reverse_dfs_from with a partially filled visited set
        rev = R.reverse_transition_list(tl)
        visited = set(rnd.sample(range(len(tl)), rnd.randint(0, min(3, len(tl)))))
        start = rnd.randrange(len(tl))
        r = outcome(R.reverse_dfs_from, start, rev, visited)
        emit("from%03d" % i, "%s visited=%r" % (r, sorted(visited)))

    # ---- 3. boundary cases ------------------------------------------------
    fig = [[("beta", 1), ("alfa", 2)], [(3 / 4, 3), (1 / 4, 4)], [(1 / 2, 5), (1 / 2, 6)],
           [("delta", 4), ("gamma", 5)], [(1, 4)], [(1, 5)], [(1, 6)]]
    boundary = {
        "empty_graph_no_finals": ([], []),
        "empty_graph_final0": ([], [0]),
        "one_state_selfloop": ([[(1, 0)]], [0]),
        "one_state_no_edges": ([[]], [0]),
        "no_finals": (fig, []),
        "no_finals_tuple": (fig, ()),
        "all_final": (fig, list(range(7))),
        "all_final_reversed": (fig, list(range(6, -1, -1))),
        "finals_repeated": (fig, [5, 5, 4, 5, 4]),
        "finals_unsorted": (fig, [6, 4]),
        "final_out_of_range": (fig, [7]),
        "final_out_of_range_after_valid": (fig, [5, 99]),
        "final_negative": (fig, [-1]),
        "final_float": (fig, [5.0]),
        "final_float_and_int": (fig, [5.0, 5, 4]),
        "final_bool": (fig, [True]),
        "final_bool_false": (fig, [False, 0]),
        "final_str": (fig, ["5"]),
        "final_none": (fig, [None]),
        "final_unhashable": (fig, [[5]]),
        "final_unhashable_after_missing": (fig, [42, [5]]),
        "final_unhashable_before_missing": (fig, [[5], 42]),
        "finals_none_obj": (fig, None),
        "finals_int_obj": (fig, 5),
        "finals_str_obj": (fig, "5"),
        "finals_dict": (fig, {5: "x", 4: "y"}),
        "finals_frozenset": (fig, frozenset([5, 6])),
        "finals_range": (fig, range(4, 6)),
        "target_out_of_range": ([[(1, 5)], [(1, 0)]], [0]),
        "target_out_of_range_final": ([[(1, 5)], [(1, 0)]], [5]),
        "target_negative": ([[(1, -1)], [(1, 0)]], [-1]),
        "target_str": ([[("a", "x")], [("a", 0)]], ["x"]),
        "target_str_nonfinal": ([[("a", "x")], [("a", 0)], [("b", 1)]], [0]),
        "target_float": ([[("a", 1.0)], [("a", 1)]], [1]),
        "target_float_final_float": ([[("a", 1.0)], [("a", 0)]], [1.0]),
        "target_bool": ([[("a", True)], [("a", False)]], [1]),
        "target_none": ([[("a", None)], [("a", 0)]], [0]),
        "target_unhashable": ([[("a", [1])], [("a", 0)]], [0]),
        "triple_transition": ([[("a", 1, 2)], [("a", 0)]], [0]),
        "single_transition": ([[(1,)], [("a", 0)]], [0]),
        "transition_is_int": ([[3], [("a", 0)]], [0]),
        "transition_is_str2": ([["ab"], [("a", 0)]], [0]),
        "transition_is_list": ([[["a", 1]], [["a", 0]]], [0]),
        "state_is_none": ([None, [("a", 0)]], [0]),
        "state_is_int": ([3, [("a", 0)]], [0]),
        "state_is_tuple": ([(("a", 1),), (("a", 0),)], [0]),
        "state_is_dict": ([{"a": 1}, [("a", 0)]], [0]),
        "transition_list_none": (None, [0]),
        "transition_list_int": (3, [0]),
        "transition_list_tuple": (tuple(fig), [5]),
        "transition_list_dict": ({0: [("a", 1)], 1: [("a", 0)]}, [0]),
        "parallel_edges": ([[(0.5, 1), (0.5, 1)], [(1, 1)], [("a", 0), ("b", 0), ("c", 0)]], [1]),
        "diamond": ([[("a", 1), ("b", 2)], [(1, 3)], [(1, 3)], [(1, 3)]], [3]),
        "two_finals_shared_pred": ([[("a", 1), ("b", 2)], [(1, 1)], [(1, 2)]], [2, 1]),
        "final_reaches_final": ([[(1, 1)], [(1, 2)], [(1, 2)], [(1, 0)]], [2, 0]),
        "cycle_into_final": ([[(1, 1)], [(1, 2)], [(1, 0), (1, 3)], [(1, 3)]], [3]),
        "cycle_without_final": ([[(1, 1)], [(1, 0)], [(1, 2)]], [2]),
        "dead_state": ([[("a", 1), ("b", 2)], [(1, 1)], [(1, 2)]], [1]),
    }
    for name, (tl, finals) in boundary.items():
        observe("bnd/" + name, tl, finals)

    class Weird(int):
        def __repr__(self):
            return "W%d" % int(self)
    observe("bnd/int_subclass_final", fig, [Weird(5)])
    observe("bnd/int_subclass_target", [[("a", Weird(1))], [("a", Weird(1))], [("a", 0)]], [1])
    # one-shot iterators as final_states
    emit("bnd/finals_generator", outcome(R.reverse_dfs, fig, (s for s in [5, 4])))
    emit("bnd/finals_iter", outcome(R.reverse_dfs, fig, iter([5])))

    # ---- 4. deep and large graphs ---------------------------------------------
    for n in (999, 1000, 1001, 3000, 20000):
        for direction in ("fwd", "bwd"):
            tl, finals = chain(n, direction)
            observe("chain%d%s" % (n, direction), tl, finals, big=True)
    # binary tree towards the root + wide star
    n = 4095
    tree = [[(1, 0)]] + [[(1, (i - 1) // 2)] for i in range(1, n)]
    observe("tree", tree, [0], big=True)
    star = [[(1, 0)]] + [[(1, 0), (1, i)] for i in range(1, 5000)]
    observe("star", star, [0], big=True)
    # long cycle with a tail to the final state
    n = 5000
    cyc = [[(1, (i + 1) % n)] for i in range(n)] + [[(1, n)]]
    cyc[n // 2] = [("a", n // 2 + 1), ("b", n)]
    observe("bigcycle", cyc, [n], big=True)

    # ---- 5. the generator's boards (tall ones included) ---------------
    boards = [(1, 1, 1), (2, 1, 5), (3, 5, 1), (4, 2, 2), (5, 4, 4), (6, 60, 3), (7, 200, 3),
              (8, 400, 2), (9, 3, 30)]
    for seed, length, width in boards:
        for force_down in (False, True):
            moves, rewards, loose = G.gen_rnd_board(seed, length, width, 0.3, 6, force_down)
            fname = os.path.join("inputs", "b_%d_%d_%d_%d.py" % (seed, length, width, force_down))
            G.write_robots(fname, length, width, moves, rewards, loose, 0.1, 0.1, 0.05)
            games = C.read_dict_from_file(fname)
            for gname in sorted(games):
                g = games[gname]
                cid = "board_s%d_l%d_w%d_f%d/%s" % (seed, length, width, force_down, gname)
                observe(cid, g["transition_list"], g["final_states"], big=True)
                # a second final set: the initial states region, unsorted with repeats
                alt = [len(g["players"]) - 1, 0, 0, len(g["players"]) // 2]
                observe(cid + "/alt", g["transition_list"], alt, big=True)

    # ---- 6. through the solver (time budgeted) ---------------------------------
    class Budget(Exception):
        pass

    def on_alarm(*_):
        raise Budget()
    signal.signal(signal.SIGALRM, on_alarm)

    def solve(game, prune):
        g = copy.deepcopy(game)
        g["prune_states"] = prune
        signal.setitimer(signal.ITIMER_REAL, SOLVE_BUDGET)
        try:
            return "OK " + repr(tad.StochasticGame(**g).solve())
        except Budget:
            return TIMEOUT_MARK
        except Exception as e:  # noqa: BLE001
            return "EXC %s %s" % (type(e).__name__, e)
        finally:
            signal.setitimer(signal.ITIMER_REAL, 0)

    src_inputs = os.path.join(root, "inputs")
    for fname in ("paper_games.py", "example_games.py", "manual_1_game_a.py",
                  "robot_1_w2_l2_r6_rb10_lb5_tb10_lt0.py"):
        path = os.path.join(src_inputs, fname)
        if not os.path.exists(path):
            emit("solve/" + fname, "missing")
            continue
        games = C.read_dict_from_file(path)
        for gname in sorted(games):
            for prune in (True, False):
                emit("solve/%s/%s/%s" % (fname, gname, prune), solve(games[gname], prune))
    srnd = random.Random(4242)
    for i in range(120):
        n = srnd.randint(3, 10)
        dead = n - 2 if srnd.random() < 0.4 else None       # absorbing non-final state
        players, tl = [], []
        for u in range(n):
            p = srnd.choice([tad.PLAYER_1, tad.PLAYER_2, tad.PROBABILISTIC])
            k = srnd.randint(1, 3)
            if u == n - 1 or u == dead:
                p, targets = tad.PROBABILISTIC, [u]
            else:
                targets = [srnd.randrange(u + 1, n) for _ in range(k)]
                if p == tad.PROBABILISTIC and srnd.random() < 0.4:
                    targets[0] = srnd.randrange(0, u + 1)      # cycle through a probabilistic state
            players.append(p)
            if p == tad.PROBABILISTIC:
                tl.append([(1.0 / len(targets), t) for t in targets])
            else:
                tl.append([("act%d" % j, t) for j, t in enumerate(targets)])
        finals = [n - 1]
        rewards = [0 if u in (n - 1, dead) else srnd.randint(0, 4) for u in range(n)]
        game = {"rewards": rewards, "players": players,
                "transition_list": tl, "final_states": finals}
        for prune in (True, False):
            emit("solve/rnd%03d/%s" % (i, prune), solve(game, prune))

    sys.stdout.write("\n".join(out) + "\n")
    os.chdir(tempfile.gettempdir())
    import shutil
    shutil.rmtree(scratch, ignore_errors=True)


# --------------------------------------------------------------------------
# driver
# --------------------------------------------------------------------------
def run_worker(root):
    env = dict(os.environ, PYTHONDONTWRITEBYTECODE="1", PYTHONHASHSEED="0")
    env.pop("PYTHONPATH", None)
    return subprocess.Popen([sys.executable, os.path.abspath(__file__), "--worker",
                             os.path.abspath(root)],
                            stdout=subprocess.PIPE, stderr=subprocess.PIPE, env=env, text=True)


def main():
    if len(sys.argv) == 3 and sys.argv[1] == "--worker":
        worker(sys.argv[2])
        return 0
    if len(sys.argv) != 3:
        print(__doc__)
        return 2
    patched, clean = sys.argv[1], sys.argv[2]
    procs = [run_worker(patched), run_worker(clean)]
    results = [p.communicate(timeout=600) for p in procs]
    for p, (so, se), name in zip(procs, results, ("patched", "clean")):
        if p.returncode != 0:
            print("FAIL: %s worker crashed (rc=%s)\n%s" % (name, p.returncode, se[-3000:]))
            return 1
    a = results[0][0].splitlines()
    b = results[1][0].splitlines()
    diffs = []
    skipped = 0
    if len(a) != len(b):
        diffs.append("different number of observations: %d vs %d" % (len(a), len(b)))
    for la, lb in zip(a, b):
        if la == lb:
            continue
        ida, _, ra = la.partition("\t")
        idb, _, rb = lb.partition("\t")
        if ida == idb and TIMEOUT_MARK in (ra, rb):
            skipped += 1          # budget hit on one side only: not comparable
            continue
        diffs.append("patched: %s\nclean  : %s" % (la[:400], lb[:400]))
    timeouts = sum(1 for l in b if l.endswith(TIMEOUT_MARK))
    print("%d observations compared, %d solves over budget in clean tree, %d one-sided timeouts"
          % (len(b), timeouts, skipped))
    if diffs:
        print("FAIL: %d differences" % len(diffs))
        for d in diffs[:15]:
            print(d)
        return 1
    print("PASS")
    return 0


if __name__ == "__main__":
    sys.exit(main())
