#!/usr/bin/env python
"""Differential test for property C17 (generated file names identify the parameters).

usage: python equiv.py <clean_repo_dir> <patched_repo_dir>

Each tree is loaded in its own subprocess (the module names collide).  Both run the
same deterministic battery:

  A  prob_to_str on ~5000 values (every k/100, k/1000, half-way cases, random floats,
     ints, bools, nan/inf, Decimal, Fraction, strings, None, objects whose str() and
     format() disagree, ...), result repr or exception type+message;
  B  roberta_generator.main() driven through sys.argv for ~1500 parameter sets
     (sweep of every whole percentage for each of the four probabilities, random
     sets, both force-down modes, rejected / malformed command lines, missing
     inputs/ directory): names of the files created + sha256 of their bytes,
     stdout, stderr, exception type+message / exit code;
  C  create_sg_from_board on ~500 random and malformed boards: same observations;
  D  get_max_from_matrix and check_input on boundary inputs.

Prints SAME and exits 0 when nothing differs, else the first difference and exits 1.
"""
import os
import subprocess
import sys
import tempfile

DRIVER = r'''
import contextlib, hashlib, io, os, random, sys
from decimal import Decimal
from fractions import Fraction

tree = sys.argv[1]
sys.path.insert(0, tree)
import roberta_generator as rg
import stochastic_game_from_roborta_board as sb

OUT = []

def emit(tag, value):
    OUT.append("%s\t%s" % (tag, value))

def snapshot():
    res = []
    for root, dirs, files in os.walk("."):
        dirs.sort()
        for f in sorted(files):
            p = os.path.join(root, f)
            with open(p, "rb") as fh:
                data = fh.read()
            res.append((p, len(data), hashlib.sha256(data).hexdigest()))
            os.remove(p)
    return res

def observe(tag, fn, *args, **kw):
    out, err = io.StringIO(), io.StringIO()
    try:
        with contextlib.redirect_stdout(out), contextlib.redirect_stderr(err):
            val = fn(*args, **kw)
        res = ("ok", repr(val), type(val).__name__)
    except SystemExit as e:
        res = ("exit", repr(e.code))
    except BaseException as e:
        res = ("exc", type(e).__name__, str(e))
    emit(tag, repr((res, out.getvalue(), err.getvalue(), snapshot())))


class Odd(float):
    """str() and format() deliberately disagree."""
    def __str__(self):
        return "S%g" % float(self)
    def __repr__(self):
        return "R%g" % float(self)
    def __format__(self, spec):
        return "F%g%s" % (float(self), spec)

class OddInt(int):
    def __str__(self):
        return "s%d" % int(self)
    def __repr__(self):
        return "r%d" % int(self)
    def __format__(self, spec):
        return "f%d%s" % (int(self), spec)

class RoundsOdd:
    """prob * 100 -> object whose round() is an OddInt."""
    def __init__(self, v):
        self.v = v
    def __mul__(self, other):
        return RoundsOdd(self.v * other)
    def __round__(self, n=None):
        return OddInt(round(self.v))
    def __repr__(self):
        return "RoundsOdd(%r)" % (self.v,)

class Touchy:
    """max_move such that (max_move + 1) == 4 is an object whose truth value raises."""
    def __add__(self, other):
        return self
    def __eq__(self, other):
        return BoolRaises()
    __hash__ = None

class BoolRaises:
    def __bool__(self):
        raise RuntimeError("truth value requested")

class StrRaises(int):
    def __str__(self):
        raise RuntimeError("str requested for %d" % int(self))

class NoRmul:
    """only left multiplication is defined"""
    def __init__(self, v):
        self.v = v
    def __mul__(self, other):
        return self.v * other

rnd = random.Random(170017)

# ---------------------------------------------------------------- A prob_to_str
vals = []
vals += [k / 100 for k in range(0, 101)]
vals += [k / 1000 for k in range(0, 1001)]
vals += [(k + 0.5) / 100 for k in range(0, 100)]
vals += [(2 * k + 1) / 200 for k in range(0, 100)]
vals += [k * 0.01 for k in range(0, 101)]
vals += [1 - k / 100 for k in range(0, 101)]
vals += [rnd.random() for _ in range(2000)]
vals += [rnd.uniform(-3, 3) for _ in range(300)]
vals += [float(rnd.randrange(0, 200)) / 8 / 100 for _ in range(200)]
vals += [0.005, 0.015, 0.025, 0.035, 0.045, 0.125, 0.285, 0.29, 0.57, 0.58, 0.145, 0.155,
         1e-300, 5e-324, 1e300, 1.7e308, -0.0, 0.0, 1.0, -1.0, 2.5, 0.995, 0.9949999, 0.99999]
vals += [0, 1, 2, -1, 10**30, True, False]
vals += [float("nan"), float("inf"), float("-inf")]
vals += [Decimal("0.285"), Decimal("0.29"), Decimal("0.005"), Decimal("0.015"), Decimal("NaN"),
         Decimal("Infinity"), Decimal("1E+3")]
vals += [Fraction(57, 200), Fraction(1, 3), Fraction(29, 100), Fraction(1, 200), Fraction(3, 200)]
vals += ["a", "", "0.3", b"x", None, [1], [], (0.5,), {}, 1j, 0.5 + 0j, object]
vals += [Odd(0.285), Odd(0.3), OddInt(1), OddInt(0), RoundsOdd(0.29), RoundsOdd(0.005),
         NoRmul(0.29), NoRmul(0.285)]
for i, v in enumerate(vals):
    observe("A%d" % i, rg.prob_to_str, v)
observe("A-noarg", rg.prob_to_str)
observe("A-same-object", lambda: rg.prob_to_str is sb.prob_to_str)

# ---------------------------------------------------------------- B main()
def run_main(tag, argv):
    old = sys.argv
    sys.argv = ["roberta_generator.py"] + [str(a) for a in argv]
    try:
        observe(tag, rg.main)
    finally:
        sys.argv = old

work = os.getcwd()
os.mkdir("inputs")
n = 0
# every whole percentage for each of the four probabilities
for flag in ("-p", "-q", "-r", "-t"):
    for k in range(1, 100):
        n += 1
        run_main("B-sweep%d" % n, ["-s", k % 7, "-w", 1 + k % 3, "-l", 1 + k % 2, flag, k / 100]
                 + (["-f"] if k % 5 == 0 else []))
# the textual forms too ("0.29", ".29", "29e-2")
for k in range(1, 100):
    n += 1
    run_main("B-text%d" % n, ["-p", "%.2f" % (k / 100), "-q", "%de-2" % k, "-r", ".%02d" % k,
                              "-t", repr(k * 0.01), "-w", 2, "-l", 1])
# random accepted sets
for i in range(700):
    argv = []
    if rnd.random() < .8: argv += [rnd.choice(["-s", "--seed"]), rnd.choice([0, 1, 2, 47, 999132423, rnd.randrange(10**6)])]
    if rnd.random() < .8: argv += [rnd.choice(["-w", "--width"]), rnd.randrange(1, 6)]
    if rnd.random() < .8: argv += [rnd.choice(["-l", "--length"]), rnd.randrange(1, 5)]
    if rnd.random() < .6: argv += [rnd.choice(["-m", "--max_reward"]), rnd.choice([1, 2, 3, 6, 9, 30, 1100])]
    for short, long in (("-p", "--prob_robot_break"), ("-q", "--prob_light_break"),
                        ("-r", "--prob_tile_break"), ("-t", "--prob_loose_tile")):
        if rnd.random() < .75:
            mode = rnd.random()
            if mode < .5:
                v = rnd.randrange(1, 100) / 100
            elif mode < .7:
                v = (rnd.randrange(0, 100) + 0.5) / 100
            elif mode < .9:
                v = rnd.random() or 0.5
            else:
                v = rnd.choice([1e-9, 0.004999, 0.005, 0.995, 0.9951, 0.999999, 0.125, 0.375])
            argv += [rnd.choice([short, long]), repr(v)]
    if rnd.random() < .4: argv += [rnd.choice(["-f", "--force_down"])]
    run_main("B-rand%d" % i, argv)
# rejected and malformed command lines
bad = [
    ["-s", -1], ["-w", 0], ["-w", -2], ["-l", 0], ["-m", 0], ["-m", -3],
    ["-p", 0], ["-p", 1], ["-p", 1.5], ["-p", -0.1], ["-q", 0], ["-q", 1], ["-r", 0], ["-r", 1],
    ["-t", 0], ["-t", 1], ["-t", 2],
    ["-p", "nan"], ["-q", "nan"], ["-r", "nan"], ["-t", "nan"],
    ["-p", "inf"], ["-q", "-inf"], ["-r", "inf"], ["-t", "inf"],
    ["-p", "abc"], ["-w", "1.5"], ["-s", "x"], ["-f", "1"], ["--bogus"], ["-h"], ["-w"],
    ["-s", -1, "-w", 0], ["-p", 0, "-q", 0], ["-t", 1, "-r", 1], ["-w", 0, "-p", "nan"],
    ["-p", "1e-400"], ["-p", "0.999999999999999999"], ["-s", 10**25], ["-w", 1, "-l", 1, "-m", 5000],
    [], ["-f"], ["-w", 1, "-l", 1], ["-w", 1, "-l", 1, "-f"],
]
for i, argv in enumerate(bad):
    run_main("B-bad%d" % i, argv)
# no inputs/ directory: the error message carries the file name
os.rmdir("inputs")
for i in range(60):
    run_main("B-nodir%d" % i, ["-s", i, "-p", rnd.randrange(1, 100) / 100, "-q", rnd.randrange(1, 100) / 100,
                               "-r", rnd.randrange(1, 100) / 100, "-t", rnd.randrange(1, 100) / 100,
                               "-w", 1 + i % 3, "-l", 1 + i % 2] + (["-f"] if i % 2 else []))
os.mkdir("inputs")

# ---------------------------------------------------------------- C create_sg_from_board
def rand_board(length, width, top_move, reward_kind):
    moves = [[rnd.randrange(0, top_move + 1) for _ in range(width)] for _ in range(length)]
    if reward_kind == 0:
        rewards = [[rnd.randrange(0, 8) for _ in range(width)] for _ in range(length)]
    elif reward_kind == 1:
        rewards = [[rnd.choice([0, 1, 2.0, 2, 3.5, True, 3, 3.0]) for _ in range(width)] for _ in range(length)]
    elif reward_kind == 2:
        rewards = [[rnd.choice([OddInt(3), 3, Odd(3.0), 3.0, 1]) for _ in range(width)] for _ in range(length)]
    else:
        rewards = [[rnd.choice([-1, -5, 0]) for _ in range(width)] for _ in range(length)]
    loose = [[rnd.randrange(0, 2) for _ in range(width)] for _ in range(length)]
    return moves, rewards, loose

for i in range(400):
    length, width = rnd.randrange(1, 5), rnd.randrange(1, 5)
    m, r, lt = rand_board(length, width, rnd.choice([2, 2, 3, 3, 1, 0]), i % 4)
    pr, pl, pt = (rnd.choice([rnd.randrange(1, 100) / 100, (rnd.randrange(0, 100) + .5) / 100, rnd.random()])
                  for _ in range(3))
    observe("C-rand%d" % i, sb.create_sg_from_board, m, r, lt, pr, pl, pt)
for k in range(1, 100):
    m, r, lt = rand_board(1 + k % 2, 1 + k % 3, 2 + k % 2, 0)
    observe("C-sweep%d" % k, sb.create_sg_from_board, m, r, lt, k / 100, (100 - k) / 100, k * 0.01)
good = ([[0, 1], [2, 1]], [[1, 2], [3, 4]], [[0, 1], [1, 0]])
malformed = [
    ([], [], [], .1, .1, .1),
    ([[]], [[]], [[]], .1, .1, .1),
    ([[1, 1]], [], [[0, 0]], .1, .1, .1),
    ([[1, 1]], [[]], [[0, 0]], .1, .1, .1),
    ([[1, 1], []], [[1, 2], [3, 4]], [[0, 0], [0, 0]], .1, .1, .1),
    ([[1, 1], [1]], [[1, 2], [3]], [[0, 0], [0]], .1, .1, .1),
    ([[1, 1]], [[1, "a"]], [[0, 0]], .1, .1, .1),
    ([[1, None]], [[1, 2]], [[0, 0]], .1, .1, .1),
    ([[1, "3"]], [[1, 2]], [[0, 0]], .1, .1, .1),
    ([[1, 3.0]], [[1, 2]], [[0, 0]], .1, .1, .1),
    ([[1, 3]], [[1, 2]], [[0, 0]], .1, .1, .1),
    ([[1, 4]], [[1, 2]], [[0, 0]], .1, .1, .1),
    ([[1, 7]], [[1, 2]], [[0, 0]], .1, .1, .1),
    (None, [[1]], [[0]], .1, .1, .1),
    ([[1]], None, [[0]], .1, .1, .1),
    ([[1]], [[1]], None, .1, .1, .1),
    (good[0], good[1], good[2], None, .1, .1),
    (good[0], good[1], good[2], .1, None, .1),
    (good[0], good[1], good[2], .1, .1, None),
    (good[0], good[1], good[2], "a", .1, .1),
    (good[0], good[1], good[2], .1, "b", "c"),
    (good[0], good[1], good[2], float("nan"), .1, .1),
    (good[0], good[1], good[2], .1, float("inf"), .1),
    (good[0], good[1], good[2], .1, .1, float("nan")),
    (good[0], good[1], good[2], 0, 1, 2),
    (good[0], good[1], good[2], True, False, -0.3),
    (good[0], good[1], good[2], Decimal("0.285"), Fraction(57, 200), .5),
    (good[0], good[1], good[2], Odd(0.285), RoundsOdd(0.29), NoRmul(0.57)),
    (good[0], good[1], good[2], .1, RoundsOdd(0.29), .1),
    (good[0], [[OddInt(9), 1], [Odd(9.0), 9]], good[2], .1, .2, .3),
    (good[0], [[Odd(9.0), 1], [OddInt(9), 9]], good[2], .1, .2, .3),
    (good[0], [[9, 1], [Odd(9.0), OddInt(9)]], good[2], .1, .2, .3),
    ((r for r in good[0]), good[1], good[2], .1, .2, .3),
    ("ab", good[1], good[2], .1, .2, .3),
    (good[0], (tuple(r) for r in good[1]), good[2], .1, .2, .3),
    (tuple(map(tuple, good[0])), tuple(map(tuple, good[1])), tuple(map(tuple, good[2])), .1, .2, .3),
]
# order of evaluation of the name's fields: which of several failures surfaces
malformed += [
    ([[Touchy()]], [[1]], [[0]], .1, .1, .1),
    ([[Touchy()]], [[1]], [[0]], "a", .1, .1),
    ([[Touchy()]], [[1]], [[0]], .1, .1, None),
    ([[Touchy()]], [[StrRaises(5)]], [[0]], .1, .1, .1),
    ([[1]], [[StrRaises(5)]], [[0]], "a", .1, .1),
    ([[1]], [[StrRaises(5)]], [[0]], .1, .1, .1),
    ([[1]], [[1]], [[0]], "a", None, {}),
    ([[1]], [[1]], [[0]], .1, None, {}),
    ([[1]], [[1]], [[0]], .1, .2, {}),
    ([[1]], [[1]], [[0]], {}, None, "a"),
    ([[1], [0]], [[1], ["a"], []], [[0], [0]], .1, .1, .1),
    ([[1], ["a"], []], [[1], [2]], [[0], [0]], .1, .1, .1),
    ([[1], ["a"], []], [[1], ["a"], []], [[0], [0]], None, .1, .1),
]
for i, args in enumerate(malformed):
    observe("C-bad%d" % i, sb.create_sg_from_board, *args)
observe("C-toofew", sb.create_sg_from_board, good[0], good[1])
os.rmdir("inputs")
for i in range(40):
    m, r, lt = rand_board(1 + i % 3, 1 + i % 2, 2 + i % 2, i % 4)
    observe("C-nodir%d" % i, sb.create_sg_from_board, m, r, lt, rnd.randrange(1, 100) / 100,
            rnd.randrange(1, 100) / 100, rnd.randrange(1, 100) / 100)
os.mkdir("inputs")

# ---------------------------------------------------------------- D helpers
mats = [
    [[1, 2], [3, 4]], [[3, 3.0], [True, 1]], [[3.0, 1], [3, 2]], [[1], [True]], [[True], [1]],
    [[OddInt(3), 3], [3.0]], [[3.0], [OddInt(3), 3]], [], [[]], [[1], []], [[], [1]], [[1, "a"]],
    [["a", "b"], ["c"]], [[1], ["a"]], None, 5, [1, 2], "ab", ["ab", "cd"], [[float("nan"), 1], [2]],
    [[1, float("nan")], [0]], [[float("nan")], [float("nan"), 5]], [[-0.0], [0.0], [0]],
    [[(1, 2), (1, 3)], [(1, 3, 0)]], [[[1], [2]], [[2]]],
    # a bad row after rows that cannot be compared with each other: which error wins
    [[1], ["a"], []], [[1], ["a"], [2, "b"]], [[1], ["a"], None], [["a"], [1], [None, 1]],
    [[1], [None], []], [[], ["a"], [1]], [[1, 2], [3, "x"], ["y"]],
]
for i, mat in enumerate(mats):
    observe("D-max%d" % i, sb.get_max_from_matrix, mat)
observe("D-maxgen1", sb.get_max_from_matrix, (r for r in [[1, 5], [5.0, 2]]))
observe("D-maxgen2", sb.get_max_from_matrix, [iter([1, 5]), iter([5.0, 2])])
observe("D-maxgen3", sb.get_max_from_matrix, iter([iter([]), iter([5.0, 2])]))
for i in range(300):
    mat = [[rnd.choice([0, 1, 2, 3, 3.0, True, 2.0, OddInt(3), Odd(3.0)]) for _ in range(rnd.randrange(1, 4))]
           for _ in range(rnd.randrange(1, 4))]
    observe("D-maxr%d" % i, sb.get_max_from_matrix, mat)
edge = [0, 1, -1, 0.0, 1.0, 0.5, float("nan"), float("inf"), 1e-320, 0.9999999999999999, True, None, "a"]
for i in range(400):
    args = [rnd.choice(edge) for _ in range(8)]
    observe("D-chk%d" % i, rg.check_input, *args)
for i in range(200):
    args = [rnd.randrange(-1, 5), rnd.randrange(-1, 4), rnd.randrange(-1, 4)] + \
           [rnd.choice([0, 1, .5, .01, .99, -.5, 2]) for _ in range(4)] + [rnd.randrange(-1, 4)]
    observe("D-chk2-%d" % i, rg.check_input, *args)

sys.stdout.write("\n".join(OUT) + "\n")
'''


def run(tree):
    tree = os.path.abspath(tree)
    work = tempfile.mkdtemp(prefix="equiv_F17_")
    script = os.path.join(work, "_driver.py")
    with open(script, "w") as fh:
        fh.write(DRIVER)
    run_dir = os.path.join(work, "cwd")
    os.mkdir(run_dir)
    env = dict(os.environ, PYTHONHASHSEED="0", PYTHONDONTWRITEBYTECODE="1", COLUMNS="80")
    return subprocess.Popen([sys.executable, script, tree], cwd=run_dir, env=env,
                            stdout=subprocess.PIPE, stderr=subprocess.PIPE), work


def main():
    if len(sys.argv) != 3:
        print(__doc__)
        return 2
    procs = [run(sys.argv[1]), run(sys.argv[2])]
    outs = []
    for proc, work in procs:
        try:
            out, err = proc.communicate(timeout=110)
        except subprocess.TimeoutExpired:
            proc.kill()
            print("DIFF: driver timed out")
            return 1
        finally:
            import shutil
            shutil.rmtree(work, ignore_errors=True)
        if proc.returncode != 0:
            print("DIFF: driver failed (exit %s)\n%s" % (proc.returncode, err.decode(errors="replace")[-3000:]))
            return 1
        outs.append(out.decode(errors="replace").splitlines())
    a, b = outs
    for la, lb in zip(a, b):
        if la != lb:
            print("DIFF at case %s" % la.split("\t", 1)[0])
            print("  clean  : %s" % la[:1500])
            print("  patched: %s" % lb[:1500])
            return 1
    if len(a) != len(b):
        print("DIFF: number of observations %d vs %d" % (len(a), len(b)))
        return 1
    if len(a) < 3000:
        print("DIFF: battery too small (%d observations) - driver broken?" % len(a))
        return 1
    print("%d observations compared" % len(a))
    print("SAME")
    return 0


if __name__ == "__main__":
    sys.exit(main())
