#!/usr/bin/env python
"""
Behavioural equivalence check for property C05 (final strategies are
reward-optimal among reachability-optimal actions).

usage:  python equiv_test.py <path-to-patched-root> <path-to-clean-root>

Both trees are loaded in separate subprocesses (this same file, --worker mode).
Every worker runs the same deterministic list of cases and records, per case,
the repr() of the result or the exception type + message.  The parent compares
the two records case by case, prints PASS (exit 0) when nothing differs and
FAIL (exit 1) otherwise.

Cases (aimed at the quantifier of C05: all well-formed solvable games, both
pruning modes, ties, cyclic stopping games, plus boundary and malformed input):
  A. several hundred random games (layered graphs with back edges through
     probabilistic and player states, several finals, dead sinks, reward ties,
     zero rewards, duplicate action names, float/int rewards), solved through
     StochasticGame.solve() with prune_states True and False, under a time
     budget (non stopping games do not converge in the clean tree either);
  B. hand written boundary and malformed games through solve();
  C. unit level calls of the anchored methods on crafted nodes
     (get_best_strategies_total_rewards, get_worst_strategies_total_rewards,
     prune_paths_reachability, Solver.prune_reachability,
     Solver._get_total_rewards_strategies, Solver.solve_total_rewards) with
     rounding-boundary ties, 0 / -0.0 / negative / nan / inf values, empty
     transition lists, odd strategy containers;
  B'. the DEBUG log lines emitted by solve() for a few games;
  D. the driver: run_games() result dicts (minus wall-clock time) for random
     games and for the small shipped input files, and the report file written
     by save_results_to_file() byte for byte (wall-clock time zeroed).
"""
import json
import os
import random
import signal
import subprocess
import sys
import tempfile
import time

SOLVE_BUDGET = 0.4      # seconds per solve() call
DRIVER_BUDGET = 20.0    # seconds per run_games() call on a shipped input file
N_RANDOM_GAMES = 600
N_DRIVER_RANDOM = 40

P1, P2, PR = "Player 1", "Player 2", "Probabilistic"

SHIPPED_INPUTS = [
    "example_17_08.py",
    "example_games.py",
    "manual_1_game_a.py",
    "manual_arrow_bottom.py",
    "paper_games.py",
    "robot_1_w1_l2_r6_rb10_lb5_tb10_lt0.py",
    "robot_1_w2_l1_r6_rb10_lb5_tb10_lt0.py",
    "robot_1_w2_l2_r6_rb10_lb5_tb10_lt0.py",
    "manual_robot_arrow_down_w4_l4_r5_rb10_lb10_tb10_force_down.py",
]


class Budget(BaseException):
    """Raised by the interval timer; not an Exception so nothing in the tree catches it."""


def _on_alarm(signum, frame):
    raise Budget()


def with_budget(seconds, func):
    """Run func() under a wall-clock budget; returns a printable outcome string."""
    signal.signal(signal.SIGALRM, _on_alarm)
    signal.setitimer(signal.ITIMER_REAL, seconds)
    try:
        try:
            value = func()
        finally:
            signal.setitimer(signal.ITIMER_REAL, 0)
        return "OK " + repr(value)
    except Budget:
        return "BUDGET"
    except Exception as exc:  # noqa: BLE001 - we want type and message of anything
        return "EXC %s: %s" % (type(exc).__name__, exc)


# --------------------------------------------------------------------------- #
# random games
# --------------------------------------------------------------------------- #

PROB_SPLITS = [
    [1],
    [0.5, 0.5], [0.25, 0.75], [0.1, 0.9], [0.3, 0.7], [1 / 3, 2 / 3], [0.05, 0.95],
    [0.2, 0.3, 0.5], [0.25, 0.25, 0.5], [1 / 3, 1 / 3, 1 / 3], [0.1, 0.2, 0.7],
    [0.25, 0.25, 0.25, 0.25],
]
ACTIONS = ["alfa", "beta", "gamma", "delta", "eps"]
REWARD_POOLS = [
    [0, 0, 1, 2, 3],
    [0, 1, 1, 1, 5],
    [0, 0, 0, 0, 1],
    [0.5, 1.5, 2, 5 / 3, 11 / 6, 0],
    [0, 10, 100, 10 ** 6],
    [1, 1, 1],
    [0],
    [0, 1e-7, 2e-7, 1e-6, 5e-7],
]


def gen_game(rng, stopping=False):
    """
    A random well-formed game.  States are laid out in layers; the last states
    are absorbing (final or dead) probabilistic self loops with reward 0.
    Forward edges keep most games stopping; back edges add cycles through
    probabilistic states (and, rarely, through player states).  With
    stopping=True only probabilistic back edges next to a forward edge are
    generated, so every play ends in an absorbing state with probability 1.
    """
    n_terminal = rng.randint(2, 4)
    n_inner = rng.randint(1, 9)
    n = n_inner + n_terminal
    terminals = list(range(n_inner, n))
    if rng.random() < 0.5:
        n_final = n_terminal - 1
    else:
        n_final = rng.randint(1, n_terminal - 1) if rng.random() < 0.9 else n_terminal
    finals = rng.sample(terminals, n_final)
    if rng.random() < 0.15:
        rng.shuffle(finals)
    pool = rng.choice(REWARD_POOLS)
    weights = rng.choice([(1, 1, 1), (3, 1, 1), (1, 3, 1), (2, 2, 1), (1, 1, 3)])
    players, transitions, rewards = [], [], []
    back_prob = rng.choice([0.0, 0.15, 0.3])
    player_back = rng.random() < 0.08 and not stopping
    for idx in range(n_inner):
        player = rng.choices([P1, P2, PR], weights=weights)[0]
        players.append(player)
        rewards.append(rng.choice(pool))
        forward = list(range(idx + 1, n))
        backward = list(range(0, idx + 1))
        if player == PR:
            split = rng.choice(PROB_SPLITS)
            targets = []
            for k, _ in enumerate(split):
                if k > 0 and rng.random() < back_prob:
                    targets.append(rng.choice(backward))
                else:
                    targets.append(rng.choice(forward))
            transitions.append([(p, t) for p, t in zip(split, targets)])
        else:
            n_actions = rng.choice([1, 2, 2, 3, 3, 4])
            names = rng.sample(ACTIONS, n_actions)
            if n_actions >= 2 and rng.random() < 0.05:
                names[1] = names[0]          # duplicated action name
            moves = []
            for name in names:
                if player_back and rng.random() < 0.3:
                    target = rng.choice(backward)
                else:
                    target = rng.choice(forward)
                moves.append((name, target))
            if rng.random() < 0.25 and len(moves) >= 2:
                # two actions into the same successor: guaranteed ties
                moves[1] = (moves[1][0], moves[0][1])
            transitions.append(moves)
    for idx in terminals:
        players.append(PR if rng.random() < 0.8 else rng.choice([P1, P2]))
        rewards.append(0)
        transitions.append([(1, idx)] if players[-1] == PR else [("stay", idx)])
    if rng.random() < 0.02 and not stopping:
        # absorbing final with a positive reward: total rewards diverge
        rewards[finals[0]] = 1
    return {
        "rewards": rewards,
        "players": players,
        "transition_list": transitions,
        "final_states": finals,
    }


def handmade_games():
    """Boundary and malformed descriptions, name -> game dict."""
    sink = [(1, 0)]
    games = {}
    # --- boundary, well formed
    games["one_state_final"] = dict(rewards=[0], players=[PR], transition_list=[sink], final_states=[0])
    games["one_state_final_p1"] = dict(rewards=[0], players=[P1], transition_list=[[("a", 0)]], final_states=[0])
    games["one_state_final_reward"] = dict(rewards=[3], players=[PR], transition_list=[sink], final_states=[0])
    games["two_states"] = dict(rewards=[1, 0], players=[P1, PR],
                               transition_list=[[("go", 1)], [(1, 1)]], final_states=[1])
    games["p1_best_reward_not_reach_optimal"] = dict(
        rewards=[0, 100, 1, 0, 0], players=[P1, PR, PR, PR, PR],
        transition_list=[[("rich", 1), ("safe", 2)], [(0.5, 3), (0.5, 4)], [(0.9, 3), (0.1, 4)],
                         [(1, 3)], [(1, 4)]], final_states=[3])
    games["p1_best_reward_not_reach_optimal_cyclic"] = dict(
        rewards=[0, 100, 1, 0, 0, 2], players=[P1, PR, PR, PR, PR, PR],
        transition_list=[[("rich", 1), ("safe", 2), ("loop", 5)], [(0.5, 3), (0.5, 4)],
                         [(0.9, 3), (0.1, 4)], [(1, 3)], [(1, 4)], [(0.5, 0), (0.5, 2)]],
        final_states=[3])
    games["p2_different_rewards"] = dict(
        rewards=[0, 5, 2, 0, 0], players=[P2, PR, PR, PR, PR],
        transition_list=[[("hi", 1), ("lo", 2), ("lo2", 2)], [(0.5, 3), (0.5, 4)], [(0.5, 3), (0.5, 4)],
                         [(1, 3)], [(1, 4)]], final_states=[3])
    games["p2_then_p1"] = dict(
        rewards=[0, 5, 2, 2, 10, 0, 0], players=[P1, P2, P1, PR, PR, PR, PR],
        transition_list=[[("alfa", 1), ("beta", 2)], [("gamma", 3), ("delta", 4)], [("epsilon", 4)],
                         [(0.35, 5), (0.65, 6)], [(0.3, 5), (0.7, 6)], [(1, 5)], [(1, 6)]],
        final_states=[5])
    games["all_ties_zero"] = dict(
        rewards=[0, 0, 0, 0], players=[P1, P2, PR, PR],
        transition_list=[[("a", 1), ("b", 2), ("c", 3)], [("x", 2), ("y", 2)], [(1, 2)], [(1, 3)]],
        final_states=[2])
    games["unreachable_p1_state"] = dict(
        rewards=[0, 1, 4, 0, 0], players=[PR, P1, P1, PR, PR],
        transition_list=[[(1, 3)], [("a", 3), ("b", 4)], [("a", 4)], [(1, 3)], [(1, 4)]],
        final_states=[3])
    games["initial_cannot_reach"] = dict(
        rewards=[0, 0, 0], players=[P1, PR, PR],
        transition_list=[[("a", 1)], [(1, 1)], [(1, 2)]], final_states=[2])
    games["initial_is_final"] = dict(
        rewards=[0, 1, 0], players=[P1, PR, PR],
        transition_list=[[("a", 1), ("b", 2)], [(1, 2)], [(1, 2)]], final_states=[0, 2])
    games["self_loop_p1"] = dict(
        rewards=[1, 0], players=[P1, PR],
        transition_list=[[("stay", 0), ("go", 1)], [(1, 1)]], final_states=[1])
    games["self_loop_p2"] = dict(
        rewards=[1, 0], players=[P2, PR],
        transition_list=[[("stay", 0), ("go", 1)], [(1, 1)]], final_states=[1])
    games["prob_cycle"] = dict(
        rewards=[1, 2, 0, 0], players=[PR, PR, PR, PR],
        transition_list=[[(0.5, 1), (0.5, 2)], [(0.9, 0), (0.05, 2), (0.05, 3)], [(1, 2)], [(1, 3)]],
        final_states=[2])
    games["tolerance_close_rewards"] = dict(
        rewards=[0, 1.0000001, 1.0000004, 1.0000016, 0], players=[P1, PR, PR, PR, PR],
        transition_list=[[("a", 1), ("b", 2), ("c", 3)], [(1, 4)], [(1, 4)], [(1, 4)], [(1, 4)]],
        final_states=[4])
    games["tolerance_close_rewards_p2"] = dict(
        rewards=[0, 1.0000001, 1.0000004, 1.0000016, 0], players=[P2, PR, PR, PR, PR],
        transition_list=[[("c", 3), ("a", 1), ("b", 2)], [(1, 4)], [(1, 4)], [(1, 4)], [(1, 4)]],
        final_states=[4])
    games["duplicate_final_states"] = dict(
        rewards=[2, 0, 0], players=[P2, PR, PR],
        transition_list=[[("a", 1), ("b", 2)], [(1, 1)], [(1, 2)]], final_states=[1, 1, 2])
    games["tuple_final_states"] = dict(
        rewards=[2, 0, 0], players=[P1, PR, PR],
        transition_list=[[("a", 1), ("b", 2)], [(1, 1)], [(1, 2)]], final_states=(2,))
    games["big_reward_small_prob"] = dict(
        rewards=[0, 0, 0, 10 ** 25, 0, 1, 0], players=[P1, PR, PR, PR, PR, PR, PR],
        transition_list=[[("alfa", 1), ("beta", 2)], [(0.01, 3), (0.99, 4)], [(0.01, 4), (0.99, 5)],
                         [(1, 6)], [(1, 4)], [(1, 6)], [(1, 6)]], final_states=[6])
    games["probabilities_sum_two"] = dict(
        rewards=[1, 1, 0, 0], players=[PR, P1, PR, PR],
        transition_list=[[(1, 1), (1, 0)], [("a", 2), ("b", 3)], [(1, 2)], [(1, 3)]], final_states=[2])
    games["negative_probability"] = dict(
        rewards=[1, 3, 0, 0], players=[P1, PR, PR, PR],
        transition_list=[[("a", 1), ("b", 2)], [(-0.5, 2), (1.5, 3)], [(1, 2)], [(1, 3)]],
        final_states=[2, 3])
    games["nan_reward"] = dict(
        rewards=[0, float("nan"), 1, 0], players=[P1, PR, PR, PR],
        transition_list=[[("a", 1), ("b", 2)], [(1, 3)], [(1, 3)], [(1, 3)]], final_states=[3])
    games["inf_reward"] = dict(
        rewards=[0, float("inf"), 1, 0], players=[P2, PR, PR, PR],
        transition_list=[[("a", 1), ("b", 2)], [(1, 3)], [(1, 3)], [(1, 3)]], final_states=[3])
    games["bool_next_state"] = dict(
        rewards=[0, 0], players=[P1, PR],
        transition_list=[[("a", True)], [(1, 1)]], final_states=[1])
    games["zero_probability_edge"] = dict(
        rewards=[0, 7, 0, 0], players=[PR, PR, PR, PR],
        transition_list=[[(0, 1), (1, 2)], [(1, 3)], [(1, 2)], [(1, 3)]], final_states=[3])
    # --- malformed
    games["no_final_states"] = dict(rewards=[0, 0], players=[P1, PR],
                                    transition_list=[[("a", 1)], [(1, 1)]], final_states=[])
    games["final_out_of_range"] = dict(rewards=[0, 0], players=[P1, PR],
                                       transition_list=[[("a", 1)], [(1, 1)]], final_states=[2])
    games["final_negative"] = dict(rewards=[0, 0], players=[P1, PR],
                                   transition_list=[[("a", 1)], [(1, 1)]], final_states=[-1])
    games["negative_reward"] = dict(rewards=[0, -1], players=[P1, PR],
                                    transition_list=[[("a", 1)], [(1, 1)]], final_states=[1])
    games["short_rewards"] = dict(rewards=[0], players=[P1, PR],
                                  transition_list=[[("a", 1)], [(1, 1)]], final_states=[1])
    games["short_transitions"] = dict(rewards=[0, 0], players=[P1, PR],
                                      transition_list=[[("a", 1)]], final_states=[1])
    games["unknown_player"] = dict(rewards=[0, 0], players=[P1, "Player 3"],
                                   transition_list=[[("a", 1)], [(1, 1)]], final_states=[1])
    games["empty_transitions_state"] = dict(rewards=[0, 0], players=[P1, PR],
                                            transition_list=[[("a", 1)], []], final_states=[1])
    games["transitions_not_list"] = dict(rewards=[0, 0], players=[P1, PR],
                                         transition_list=[(("a", 1),), [(1, 1)]], final_states=[1])
    games["transition_not_tuple"] = dict(rewards=[0, 0], players=[P1, PR],
                                         transition_list=[[["a", 1]], [(1, 1)]], final_states=[1])
    games["transition_too_long"] = dict(rewards=[0, 0], players=[P1, PR],
                                        transition_list=[[("a", 1, 2)], [(1, 1)]], final_states=[1])
    games["action_not_str"] = dict(rewards=[0, 0], players=[P1, PR],
                                   transition_list=[[(0.5, 1)], [(1, 1)]], final_states=[1])
    games["probability_not_number"] = dict(rewards=[0, 0], players=[P1, PR],
                                           transition_list=[[("a", 1)], [("1", 1)]], final_states=[1])
    games["next_state_not_int"] = dict(rewards=[0, 0], players=[P1, PR],
                                       transition_list=[[("a", 1.0)], [(1, 1)]], final_states=[1])
    games["next_state_out_of_range"] = dict(rewards=[0, 0], players=[P1, PR],
                                            transition_list=[[("a", 2)], [(1, 1)]], final_states=[1])
    games["empty_game"] = dict(rewards=[], players=[], transition_list=[], final_states=[0])
    games["string_rewards"] = dict(rewards=["0", "1"], players=[P1, PR],
                                   transition_list=[[("a", 1)], [(1, 1)]], final_states=[1])
    games["final_states_none"] = dict(rewards=[0, 0], players=[P1, PR],
                                      transition_list=[[("a", 1)], [(1, 1)]], final_states=None)
    return games


# --------------------------------------------------------------------------- #
# worker
# --------------------------------------------------------------------------- #

def solve_case(tad, game, prune):
    def run():
        sgame = tad.StochasticGame(prune_states=prune, **game)
        return sgame.solve()
    before = repr(game)
    outcome = with_budget(SOLVE_BUDGET, run)
    if repr(game) != before:
        outcome += " | INPUT MUTATED " + repr(game)
    return outcome


class Stub:
    """A successor stand-in exposing just the attributes the strategy getters read."""

    def __init__(self, expected_rewards, reach_probability=1.0):
        self.expected_rewards = expected_rewards
        self.reach_probability = reach_probability
        self.expected_rewards_min_reach = expected_rewards
        self.expected_reach_min_rewards = reach_probability


VALUE_POOL = [
    0, 0.0, -0.0, 1, 1.0, 2, 2.5, 1e-7, 4e-7, 5e-7, 6e-7, 1e-6, 1.0000004, 1.0000005, 1.0000006,
    1.0000014, 1.0000016, 3.3333333333, 10 / 3, 10 ** 25, 1e25, -1, -0.5, -1e-7,
    float("inf"), float("-inf"), float("nan"), True, False, 7, 7.0000001, 6.9999999,
]


def unit_cases(tad, record):
    rng = random.Random(50505)
    for case in range(700):
        n_succ = rng.choice([1, 1, 2, 2, 3, 3, 4, 5, 6])
        mode = rng.random()
        if mode < 0.25:
            base = rng.choice(VALUE_POOL)
            values = [rng.choice([base, base, rng.choice(VALUE_POOL)]) for _ in range(n_succ)]
        elif mode < 0.5:
            base = rng.choice([0, 1, 2.5, 100])
            values = [base + rng.choice([0, 0, 1e-7, 4e-7, 6e-7, 1e-6, -1e-7, 2e-6]) for _ in range(n_succ)]
        else:
            values = [rng.choice(VALUE_POOL) for _ in range(n_succ)]
        n_states = n_succ + 1
        names = [rng.choice(ACTIONS) if rng.random() < 0.2 else "a%d" % k for k in range(n_succ)]
        order = list(range(1, n_states))
        rng.shuffle(order)
        next_states = [(name, target) for name, target in zip(names, order)]
        if rng.random() < 0.2 and n_succ >= 2:
            next_states[-1] = (next_states[-1][0], next_states[0][1])
        state_list = [None] + [Stub(v, rng.choice([0, 0.5, 1, 1.0, 0.9999996])) for v in values]
        floor = rng.choice([6, 6, 6, 0, 2, 7])
        node_reward = rng.choice([0, 1])
        for cls_name, getter in (("PlayerOne", "get_best_strategies_total_rewards"),
                                 ("PlayerTwo", "get_worst_strategies_total_rewards")):
            def run(cls_name=cls_name, getter=getter):
                cls = getattr(tad, cls_name)
                node = cls(player=P1 if cls_name == "PlayerOne" else P2, idx=0, reward=node_reward,
                           next_states=list(next_states), num_states=n_states, is_final_node=False)
                state_list[0] = node
                first = getattr(node, getter)(state_list, floor)
                second = getattr(node, getter)(state_list, floor)    # no hidden state
                return first, second, node.next_states
            record("unit/%s/%d" % (getter, case), with_budget(SOLVE_BUDGET, run))

        # prune_paths_reachability with assorted containers
        container_kind = rng.choice(["list", "list", "tuple", "set", "empty", "dups", "str", "unknown"])
        chosen = [name for name in names if rng.random() < 0.5]
        if container_kind == "list":
            best = chosen
        elif container_kind == "tuple":
            best = tuple(chosen)
        elif container_kind == "set":
            best = set(chosen)
        elif container_kind == "empty":
            best = []
        elif container_kind == "dups":
            best = chosen + chosen
        elif container_kind == "str":
            best = "".join(chosen)
        else:
            best = chosen + ["no-such-action"]

        def run_prune():
            node = tad.PlayerOne(player=P1, idx=0, reward=1, next_states=list(next_states),
                                 num_states=n_states, is_final_node=False)
            original = node.next_states
            result = node.prune_paths_reachability(best)
            rewards_after = node.get_best_strategies_total_rewards([node] + state_list[1:], floor)
            return result, node.next_states, original, rewards_after, sorted(map(repr, best)) \
                if isinstance(best, set) else best
        record("unit/prune_paths_reachability/%d" % case, with_budget(SOLVE_BUDGET, run_prune))

    # empty transition lists (what pruning leaves behind)
    for cls_name, getter in (("PlayerOne", "get_best_strategies_total_rewards"),
                             ("PlayerTwo", "get_worst_strategies_total_rewards")):
        def run_empty(cls_name=cls_name, getter=getter):
            cls = getattr(tad, cls_name)
            node = cls(player=P1, idx=0, reward=1, next_states=[("a", 0)], num_states=1, is_final_node=False)
            node.next_states = []
            return getattr(node, getter)([node], 6), node.value_iteration_rewards([node])
        record("unit/empty/%s" % getter, with_budget(SOLVE_BUDGET, run_empty))

    # bad strategy arguments to prune_paths_reachability / prune_reachability
    for label, best in (("none", None), ("int", 3), ("nested", [["a0"]]), ("dict", {"a0": 1})):
        def run_bad(best=best):
            node = tad.PlayerOne(player=P1, idx=0, reward=1, next_states=[("a0", 0), ("a1", 0)],
                                 num_states=1, is_final_node=False)
            node.prune_paths_reachability(best)
            return node.next_states
        record("unit/prune_bad/%s" % label, with_budget(SOLVE_BUDGET, run_bad))

    # Solver level: prune_reachability, _get_total_rewards_strategies, solve_total_rewards
    for case in range(150):
        game = gen_game(rng, stopping=case % 3 != 0)

        def run_solver():
            sgame = tad.StochasticGame(prune_states=True, **game)
            sgame.check_game()
            state_list = sgame.init_states()
            solver = tad.Solver(state_list=state_list, threshold=rng_thresholds[case % len(rng_thresholds)])
            out = [solver.threshold, solver.floor]
            strategies, iterations = solver.solve_reachability(
                game["transition_list"], game["final_states"], case % 3 == 0)
            out.append((strategies, iterations))
            # strategies modified by hand: drop the last action of every list with two or more
            if case % 4 == 1:
                strategies = [s[:-1] if isinstance(s, list) and len(s) > 1 else s for s in strategies]
            out.append(solver.prune_reachability(strategies))
            out.append([list(state.next_states) for state in state_list])
            out.append(solver._get_total_rewards_strategies())
            if case % 2 == 0:
                solver.prune_stochastich_game()
                out.append([list(state.next_states) for state in state_list])
            out.append(solver.solve_total_rewards())
            out.append(solver._get_total_rewards_strategies())
            out.append([(s.expected_rewards, s.expected_rewards_min_reach, s.expected_reach_min_rewards)
                        for s in state_list])
            return out
        record("unit/solver/%d" % case, with_budget(SOLVE_BUDGET, run_solver))

    def run_short_strategies():
        game = handmade_games()["p2_then_p1"]
        sgame = tad.StochasticGame(**game)
        solver = tad.Solver(state_list=sgame.init_states())
        solver.prune_reachability([["alfa"]])      # too short for the second Player 1 state
        return [s.next_states for s in solver.state_list]
    record("unit/solver/short_strategies", with_budget(SOLVE_BUDGET, run_short_strategies))

    def run_default_solver():
        game = handmade_games()["p2_then_p1"]
        sgame = tad.StochasticGame(**game)
        solver = tad.Solver(sgame.init_states())
        return solver.threshold, solver.floor, tad.Solver.__init__.__defaults__
    record("unit/solver/defaults", with_budget(SOLVE_BUDGET, run_default_solver))


rng_thresholds = [10 ** (-6), 10 ** (-6), 1e-6, 10 ** (-3), 10 ** (-8), 0.5]


# hand written games on which the clean tree itself never converges (solve() level only)
DIVERGING_HAND_GAMES = {"one_state_final_reward", "self_loop_p1", "self_loop_p2", "probabilities_sum_two"}


def strip_time(results):
    out = {}
    for name, res in results.items():
        res = dict(res)
        res["total_time"] = 0
        out[name] = res
    return out


def driver_cases(tad, cr, root, record):
    rng = random.Random(777)
    hand = handmade_games()
    batches = []
    for batch in range(N_DRIVER_RANDOM // 4):
        games = {}
        for k in range(4):
            games["g%d_%d" % (batch, k)] = gen_game(rng, stopping=True)
        if batch % 3 == 0:
            name = rng.choice(sorted(set(hand) - DIVERGING_HAND_GAMES))
            games["hand_" + name] = hand[name]
        batches.append(games)
    batches.append({k: hand[k] for k in ("p1_best_reward_not_reach_optimal", "p2_different_rewards",
                                         "initial_cannot_reach", "no_final_states", "all_ties_zero")})
    for number, games in enumerate(batches):
        def run(games=games, number=number):
            results = strip_time(cr.run_games(games))
            cr.save_results_to_file(results, "some/dir/batch_%d.py" % number)
            with open("outputs/batch_%d.txt" % number, "rb") as handle:
                report = handle.read()
            return results, report, games
        record("driver/batch/%d" % number, with_budget(DRIVER_BUDGET, run))

    for file_name in SHIPPED_INPUTS:
        def run_file(file_name=file_name):
            games = cr.read_dict_from_file(os.path.join(root, "inputs", file_name))
            results = strip_time(cr.run_games(games))
            cr.save_results_to_file(results, "inputs/" + file_name)
            with open("outputs/%s.txt" % file_name.split(".")[0], "rb") as handle:
                report = handle.read()
            return results, report
        record("driver/file/%s" % file_name, with_budget(DRIVER_BUDGET, run_file))


def worker(root, out_path):
    import logging
    logging.disable(logging.CRITICAL)
    logging.getLogger().addHandler(logging.NullHandler())   # keeps logging.info() from installing a stderr handler
    root = os.path.abspath(root)
    sys.path.insert(0, root)
    workdir = tempfile.mkdtemp(prefix="c05_equiv_")
    os.makedirs(os.path.join(workdir, "outputs"))
    os.chdir(workdir)
    import tad
    import conditionalrewards as cr
    assert os.path.dirname(os.path.abspath(tad.__file__)) == root, tad.__file__

    records = []

    def record(case_id, outcome):
        records.append([case_id, outcome])

    # A. random games through solve(), both pruning modes
    rng = random.Random(20240505)
    for number in range(N_RANDOM_GAMES):
        game = gen_game(rng)
        for prune in (True, False):
            record("random/%d/prune=%s" % (number, prune), solve_case(tad, game, prune))
        if number % 10 == 0:
            record("random/%d/desc" % number, repr(game))

    # B. hand written games
    for name, game in handmade_games().items():
        for prune in (True, False):
            record("hand/%s/prune=%s" % (name, prune), solve_case(tad, game, prune))
    odd = handmade_games()["p2_then_p1"]
    for prune in (None, 0, 1, "yes", ""):
        record("hand/odd_prune_flag/%r" % (prune,), solve_case(tad, odd, prune))

    # B'. the log lines of a full solve at DEBUG level (text after %-formatting)
    class ListHandler(logging.Handler):
        def __init__(self):
            super().__init__()
            self.lines = []

        def emit(self, log_record):
            self.lines.append("%s %s" % (log_record.levelname, log_record.getMessage()))

    for name in ("p2_then_p1", "p1_best_reward_not_reach_optimal_cyclic", "all_ties_zero", "initial_cannot_reach"):
        for prune in (True, False):
            handler = ListHandler()
            root_logger = logging.getLogger()
            old_level = root_logger.level
            root_logger.addHandler(handler)
            root_logger.setLevel(logging.DEBUG)
            logging.disable(logging.NOTSET)
            try:
                outcome = solve_case(tad, handmade_games()[name], prune)
            finally:
                logging.disable(logging.CRITICAL)
                root_logger.setLevel(old_level)
                root_logger.removeHandler(handler)
            record("log/%s/prune=%s" % (name, prune), outcome + " | LOG " + repr(handler.lines))

    # C. unit level
    unit_cases(tad, record)

    # D. driver and report
    driver_cases(tad, cr, root, record)

    with open(out_path, "w") as handle:
        json.dump(records, handle)


# --------------------------------------------------------------------------- #
# parent
# --------------------------------------------------------------------------- #

def main():
    if len(sys.argv) == 4 and sys.argv[1] == "--worker":
        worker(sys.argv[2], sys.argv[3])
        return 0
    if len(sys.argv) != 3:
        print(__doc__)
        return 2
    patched, clean = sys.argv[1], sys.argv[2]
    started = time.time()
    tmp = tempfile.mkdtemp(prefix="c05_equiv_parent_")
    outs = [os.path.join(tmp, "patched.json"), os.path.join(tmp, "clean.json")]
    env = dict(os.environ, PYTHONDONTWRITEBYTECODE="1", PYTHONHASHSEED="0")
    procs = [
        subprocess.Popen([sys.executable, os.path.abspath(__file__), "--worker", root, out],
                         env=env, cwd=tmp, stdout=subprocess.PIPE, stderr=subprocess.STDOUT, text=True)
        for root, out in zip((patched, clean), outs)
    ]
    failed = False
    for label, proc in zip(("patched", "clean"), procs):
        output, _ = proc.communicate()
        if proc.returncode != 0:
            failed = True
            print("worker for the %s tree crashed (exit %s):\n%s" % (label, proc.returncode, output[-3000:]))
    if failed:
        print("FAIL")
        return 1
    with open(outs[0]) as handle:
        got = json.load(handle)
    with open(outs[1]) as handle:
        want = json.load(handle)
    differences = 0
    if [c for c, _ in got] != [c for c, _ in want]:
        print("the two workers ran different case lists")
        differences += 1
    budget_hits = 0
    solved = 0
    errors = 0
    for (case_id, patched_outcome), (_, clean_outcome) in zip(got, want):
        if clean_outcome == "BUDGET":
            budget_hits += 1
        elif clean_outcome.startswith("EXC"):
            errors += 1
        else:
            solved += 1
        if patched_outcome != clean_outcome:
            differences += 1
            if differences <= 10:
                print("DIFFERENCE in %s\n   clean  : %s\n   patched: %s"
                      % (case_id, clean_outcome[:1500], patched_outcome[:1500]))
    print("%d cases (%d with a result, %d raising, %d over budget in the clean tree), %d differences, %.1fs"
          % (len(want), solved, errors, budget_hits, differences, time.time() - started))
    if differences:
        print("FAIL")
        return 1
    print("PASS")
    return 0


if __name__ == "__main__":
    sys.exit(main())
