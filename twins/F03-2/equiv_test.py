#!/usr/bin/env python
"""
Equivalence / property harness for property C03 (conditioning removes every dead
branch, and only dead branches).

usage:  python equiv_test.py <path-to-patched-root> <path-to-clean-root>

The same deterministic list of cases is executed against both trees, each in its
own subprocess (the two trees use the same module names).  Everything the
property talks about is compared with repr() equality, so even an int/float
change of a probability or a last-bit rounding difference is reported:

  * node level : ProbabilisticNode.prune_paths / PlayerOne.prune_paths on a node
                 with k = 1..6 successors and EVERY pattern of dead successors
                 (none, first, last, adjacent, separated, all), several styles
                 of probabilities, duplicated transitions, int probabilities;
  * solver level with assigned reach probabilities and arbitrary strategy lists:
                 prune_reachability -> prune_paths -> prune_states snapshots;
  * pipeline   : init_states -> solve_reachability -> prune_reachability ->
                 prune_stochastich_game on random games of arbitrary topology
                 (cycles, several finals, dead sinks, ties), both pruning modes;
  * solve()    : full StochasticGame.solve() result tuple (or the error) in both
                 pruning modes, and the caller's transition list afterwards.

Besides the patched-vs-clean comparison, the patched tree's pruning result is
checked against an independent reference implementation of the property
(written in this file), so "both trees wrong in the same way" would also fail.

For this variant (pruning statistics) the patched tree's new
Solver.pruning_summary is additionally checked against the snapshots: it must
describe exactly the transitions / states that disappeared.

Prints PASS and exits 0 when nothing differs, FAIL (exit 1) otherwise.
"""
import ast
import itertools
import json
import os
import random
import subprocess
import sys
import tempfile

P1, P2, PR = "Player 1", "Player 2", "Probabilistic"

# --------------------------------------------------------------------------- #
# case generation (parent)


def probs(rng, k, style):
    if style == "uniform":
        return [1 / k] * k
    if style == "dyadic":
        out = [1 / 2 ** (i + 1) for i in range(k)]
        out[-1] *= 2
        return out
    if style == "int" and k == 1:
        return [1]
    if style == "tiny":
        w = [1e-9] + [rng.uniform(0.1, 1) for _ in range(k - 1)]
        rng.shuffle(w)
        tot = sum(w)
        return [x / tot for x in w]
    w = [rng.uniform(0.05, 1) for _ in range(k)]
    tot = sum(w)
    return [x / tot for x in w]


def actions(k):
    return ["a%d" % i for i in range(k)]


def node_cases(rng):
    """one node, k successors, every pattern of dead successors"""
    cases = []
    for k in range(1, 7):
        for pattern in itertools.product([0, 1], repeat=k):
            for kind in (PR, P1):
                styles = ["uniform", "random", "dyadic", "tiny"] if kind == PR else ["x"]
                if kind == PR and k == 1:
                    styles.append("int")
                for style in styles:
                    # the node is state 0, successor i is state i + 1
                    n = k + 1
                    if kind == PR:
                        trans = [[p, i + 1] for i, p in enumerate(probs(rng, k, style))]
                    else:
                        trans = [[a, i + 1] for i, a in enumerate(actions(k))]
                    reach = [0.5] + [0 if dead else rng.choice([1, 0.25, 1e-12])
                                     for dead in pattern]
                    cases.append({"kind": "node", "player": kind, "n": n,
                                  "trans": trans, "reach": reach})
    # successors shared by several transitions, identical duplicated tuples
    for _ in range(150):
        k = rng.randint(2, 7)
        n = rng.randint(2, 4)
        kind = rng.choice([PR, P1])
        targets = [rng.randrange(n) for _ in range(k)]
        if kind == PR:
            ps = probs(rng, k, rng.choice(["uniform", "random", "dyadic"]))
            trans = [[p, t] for p, t in zip(ps, targets)]
        else:
            trans = [[a, t] for a, t in zip(actions(k), targets)]
            if rng.random() < 0.3:
                trans[-1] = list(trans[0])
        reach = [rng.choice([0, 0, 1, 0.5, 0.0, -0.0]) for _ in range(n)]
        cases.append({"kind": "node", "player": kind, "n": n, "trans": trans, "reach": reach})
    return cases


def wild_game(rng, n=None, dead_frac=None, reward_zero=False):
    """arbitrary topology: cycles, self loops, several finals, dead sinks"""
    n = n or rng.randint(1, 14)
    dead_frac = rng.choice([0.0, 0.2, 0.4, 0.6]) if dead_frac is None else dead_frac
    players = [rng.choice([P1, P2, PR, PR]) for _ in range(n)]
    finals = sorted(set(rng.randrange(n) for _ in range(rng.randint(1, 3))))
    trans = []
    for s in range(n):
        if s not in finals and rng.random() < dead_frac:
            # dead sink, or small dead cluster
            tgt = s if rng.random() < 0.7 else None
            if tgt is None:
                trans.append(None)  # filled below with edges to other sinks
            else:
                trans.append([[1, s]] if players[s] == PR else [["stay", s]])
            continue
        k = rng.randint(1, 5)
        targets = [rng.randrange(n) for _ in range(k)]
        if players[s] == PR:
            ps = probs(rng, k, rng.choice(["uniform", "random", "dyadic", "int"]))
            trans.append([[p, t] for p, t in zip(ps, targets)])
        else:
            trans.append([[a, t] for a, t in zip(actions(k), targets)])
    sinks = [s for s in range(n) if trans[s] is not None and len(trans[s]) == 1
             and trans[s][0][1] == s and s not in finals]
    for s in range(n):
        if trans[s] is None:
            tgts = [rng.choice(sinks)] * 1 if sinks else [s]
            if sinks and rng.random() < 0.5:
                tgts.append(rng.choice(sinks))
            if players[s] == PR:
                trans[s] = [[1 / len(tgts), t] for t in tgts]
            else:
                trans[s] = [[a, t] for a, t in zip(actions(len(tgts)), tgts)]
    rewards = [0 if reward_zero else rng.choice([0, 1, 2, 5 / 3, 7]) for _ in range(n)]
    return {"players": players, "trans": trans, "finals": finals, "rewards": rewards}


def safe_game(rng):
    """
        Topology on which total rewards value iteration terminates: absorbing
        zero-reward sinks at the end, forward edges everywhere, back edges only
        out of (at most two) probabilistic states that keep >= 0.3 forward.
    """
    n_sinks = rng.randint(1, 4)
    n_inner = rng.randint(0, 10)
    n = n_inner + n_sinks
    players = [rng.choice([P1, P2, PR, PR]) for _ in range(n)]
    sink_ids = list(range(n_inner, n))
    finals = [s for s in sink_ids if rng.random() < 0.5]
    if not finals and rng.random() < 0.9:
        finals = [sink_ids[0]]
    inner_finals = [s for s in range(1, n_inner) if rng.random() < 0.1]
    finals = sorted(set(finals + inner_finals)) or [sink_ids[-1]]
    back_budget = 2
    trans = []
    for s in range(n):
        if s >= n_inner:
            trans.append([[1, s]] if players[s] == PR else [["stay", s]])
            continue
        k = rng.randint(1, 5)
        fwd = [rng.randrange(s + 1, n) for _ in range(k)]
        if rng.random() < 0.35:      # bias towards sinks: many dead successors
            fwd = [rng.choice(sink_ids) for _ in range(k)]
        if players[s] == PR:
            ps = probs(rng, k, rng.choice(["uniform", "random", "dyadic"]))
            if back_budget and k >= 2 and rng.random() < 0.3:
                # redirect transitions backwards while >= 0.3 stays forward
                order = list(range(k))
                rng.shuffle(order)
                mass = 1.0
                for i in order:
                    if mass - ps[i] >= 0.3 and rng.random() < 0.6:
                        fwd[i] = rng.randrange(0, s + 1)
                        mass -= ps[i]
                back_budget -= 1
            trans.append([[p, t] for p, t in zip(ps, fwd)])
        else:
            trans.append([[a, t] for a, t in zip(actions(k), fwd)])
    rewards = [rng.choice([0, 1, 2, 5 / 3, 3]) if s < n_inner else 0 for s in range(n)]
    return {"players": players, "trans": trans, "finals": finals, "rewards": rewards}


def star_games():
    """state 0 -> k successors, each a final sink or a dead sink, all patterns;
       also behind a Player 2 / Player 1 / probabilistic front state"""
    games = []
    for k in range(1, 6):
        for pattern in itertools.product([0, 1], repeat=k):
            for hub in (PR, P1):
                for front in (None, P1, P2, PR):
                    off = 0 if front is None else 1
                    n = k + 1 + off
                    players, trans = [], []
                    if front is not None:
                        players.append(front)
                        trans.append([[1, 1]] if front == PR else [["go", 1]])
                    players.append(hub)
                    if hub == PR:
                        trans.append([[1 / k, off + 1 + i] for i in range(k)])
                    else:
                        trans.append([[a, off + 1 + i] for i, a in enumerate(actions(k))])
                    for i in range(k):
                        players.append(PR)
                        trans.append([[1, off + 1 + i]])
                    finals = [off + 1 + i for i in range(k) if not pattern[i]]
                    if not finals:
                        finals = []   # no final state at all: solver must refuse
                    games.append({"players": players, "trans": trans, "finals": finals,
                                  "rewards": [1] * (off + 1) + [0] * k})
    return games


FIXED_GAMES = [
    # figure 5.5 of the paper (tests)
    {"players": [P1, P2, P2, PR, PR, PR, PR, PR],
     "trans": [[["alfa", 1], ["beta", 2]], [["x", 3]], [["x", 4]], [[0.5, 5], [0.5, 6]],
               [[0.75, 6], [0.25, 7]], [[1, 5]], [[1, 6]], [[1, 7]]],
     "finals": [6], "rewards": [0, 2, 5 / 3, 0, 0, 0, 0, 0]},
    # redistribution game (tests)
    {"players": [PR, P1, P2, P1, PR, PR],
     "trans": [[[0.5, 1], [0.5, 5]], [["epsilon", 2]], [["beta", 3], ["alfa", 4]],
               [["delta", 4], ["gamma", 5]], [[1, 4]], [[1, 5]]],
     "finals": [5], "rewards": [0, 2, 3, 4, 0, 0]},
    # single final state
    {"players": [PR], "trans": [[[1, 0]]], "finals": [0], "rewards": [0]},
    {"players": [P1], "trans": [[["a", 0]]], "finals": [0], "rewards": [0]},
    # initial state dead
    {"players": [PR, PR], "trans": [[[1, 0]], [[1, 1]]], "finals": [1], "rewards": [0, 0]},
    # two adjacent dead, two separated dead, dead first / last
    {"players": [PR, PR, PR, PR, PR, PR],
     "trans": [[[0.1, 1], [0.2, 2], [0.3, 3], [0.15, 4], [0.25, 5]],
               [[1, 1]], [[1, 2]], [[1, 3]], [[1, 4]], [[1, 5]]],
     "finals": [3], "rewards": [1, 0, 0, 0, 0, 0]},
    {"players": [PR, PR, PR, PR, PR, PR],
     "trans": [[[0.1, 1], [0.2, 2], [0.3, 3], [0.15, 4], [0.25, 5]],
               [[1, 1]], [[1, 2]], [[1, 3]], [[1, 4]], [[1, 5]]],
     "finals": [2, 4], "rewards": [1, 0, 0, 0, 0, 0]},
    # Player 2 can avoid the target: everything before it is dead
    {"players": [P1, P2, PR, PR], "trans": [[["a", 1], ["b", 2]], [["x", 2], ["y", 3]],
                                            [[1, 2]], [[1, 3]]],
     "finals": [2], "rewards": [1, 1, 0, 0]},
]


def build_cases():
    rng = random.Random(20240603)
    cases = node_cases(rng)
    games = list(FIXED_GAMES) + star_games()
    for _ in range(700):
        games.append(wild_game(rng))
    for n in (1, 2, 3):
        for _ in range(40):
            games.append(wild_game(rng, n=n))
    for g in games:
        cases.append(dict(g, kind="pipeline"))
    # assigned reach probabilities + arbitrary strategies
    for _ in range(500):
        g = wild_game(rng, n=rng.randint(2, 12), dead_frac=0.0)
        n = len(g["players"])
        zero_frac = rng.choice([0.2, 0.5, 0.8, 1.0])
        reach = [0 if rng.random() < zero_frac else rng.choice([1, 0.5, 1e-9, 0.999999])
                 for _ in range(n)]
        strat = []
        for s in range(n):
            if g["players"][s] == P1:
                acts = [t[0] for t in g["trans"][s]]
                pick = [a for a in acts if rng.random() < 0.7]
                strat.append(pick)
            else:
                strat.append(None)
        cases.append(dict(g, kind="assigned", reach=reach, strat=strat))
    # full solve
    solve_games = list(FIXED_GAMES) + [g for g in star_games() if len(g["players"]) <= 5]
    for _ in range(450):
        solve_games.append(safe_game(rng))
    for _ in range(40):
        solve_games.append(wild_game(rng, reward_zero=True))
    for g in solve_games:
        cases.append(dict(g, kind="solve"))
    return cases


# --------------------------------------------------------------------------- #
# worker (runs inside one tree)

class Budget(Exception):
    pass


def worker(root, cases_path, out_path, extras):
    sys.path.insert(0, root)
    os.chdir(root)
    import tad
    assert os.path.dirname(os.path.abspath(tad.__file__)) == os.path.abspath(root)

    counter = {"left": 0}

    def guard(cls, name):
        orig = getattr(cls, name)

        def wrapped(self, *a, **kw):
            counter["left"] -= 1
            if counter["left"] < 0:
                raise Budget()
            return orig(self, *a, **kw)
        setattr(cls, name, wrapped)

    for cls in (tad.ProbabilisticNode, tad.PlayerOne, tad.PlayerTwo):
        guard(cls, "value_iteration_reach")
        guard(cls, "value_iteration_rewards")

    def tl(trans):
        return [[tuple(t) for t in ts] for ts in trans]

    def snap(state_list):
        return repr([s.next_states for s in state_list])

    def make_states(case):
        game = tad.StochasticGame(case["rewards"], case["players"], tl(case["trans"]),
                                  case["finals"])
        game.check_game()
        return game.init_states()

    with open(cases_path) as fh:
        cases = json.load(fh)
    results = []
    for case in cases:
        out = {}
        counter["left"] = 400000
        kind = case["kind"]
        try:
            if kind == "node":
                n = case["n"]
                mk = {PR: tad.ProbabilisticNode, P1: tad.PlayerOne}[case["player"]]
                state_list = [tad.ProbabilisticNode(PR, i, 0, [(1, i)], n, False)
                              for i in range(n)]
                node = mk(case["player"], 0, 1, [tuple(t) for t in case["trans"]], n, False)
                state_list[0] = node
                for s, r in zip(state_list, case["reach"]):
                    s.reach_probability = r
                caller_list = node.next_states
                node.prune_paths(state_list)
                out["after"] = snap(state_list)
                if extras and "can_reach" in mk.prune_paths.__code__.co_varnames:
                    node2 = mk(case["player"], 0, 1, [tuple(t) for t in case["trans"]], n, False)
                    sl2 = [node2] + state_list[1:]
                    node2.reach_probability = case["reach"][0]
                    node2.prune_paths(sl2, [s.reach_probability != 0 for s in sl2])
                    out["extra_table"] = repr([s.next_states for s in sl2])
            elif kind == "assigned":
                state_list = make_states(case)
                for s, r in zip(state_list, case["reach"]):
                    s.reach_probability = r
                solver = tad.Solver(state_list)
                solver.prune_reachability(case["strat"])
                out["after_reach"] = snap(state_list)
                solver.prune_paths()
                out["after_paths"] = snap(state_list)
                solver.prune_states()
                out["after_states"] = snap(state_list)
                if extras and hasattr(solver, "pruning_summary"):
                    out["extra_summary"] = json.loads(json.dumps(solver.pruning_summary))
                # the one-call form on a fresh copy
                state_list = make_states(case)
                for s, r in zip(state_list, case["reach"]):
                    s.reach_probability = r
                solver = tad.Solver(state_list)
                solver.prune_reachability(case["strat"])
                ret = solver.prune_stochastich_game()
                out["after_game"] = snap(state_list)
                if extras:
                    out["extra_ret"] = repr(ret)
            elif kind == "pipeline":
                for mode in (True, False):
                    tag = "prune" if mode else "noprune"
                    trans = tl(case["trans"])
                    try:
                        game = tad.StochasticGame(case["rewards"], case["players"], trans,
                                                  case["finals"], mode)
                        game.check_game()
                        state_list = game.init_states()
                        solver = tad.Solver(threshold=10 ** (-6), state_list=state_list)
                        strat, n_it = solver.solve_reachability(trans, case["finals"], mode)
                        out[tag + "_reach"] = repr([s.reach_probability for s in state_list])
                        out[tag + "_strat"] = repr(strat)
                        out[tag + "_iters"] = n_it
                        solver.prune_reachability(strat)
                        out[tag + "_after_reach"] = snap(state_list)
                        if mode:
                            solver.prune_stochastich_game()
                            out[tag + "_after_game"] = snap(state_list)
                            if extras and hasattr(solver, "pruning_summary"):
                                out["extra_summary"] = json.loads(
                                    json.dumps(solver.pruning_summary))
                            # data for the reference check in the parent
                            out["ref_reach"] = [s.reach_probability for s in state_list]
                            out["ref_strat"] = strat
                            out["ref_final"] = [[list(t) for t in s.next_states]
                                                for s in state_list]
                    except (ValueError, ZeroDivisionError) as e:
                        out[tag + "_error"] = "%s: %s" % (type(e).__name__, e)
                    out[tag + "_input"] = repr(trans)
            elif kind == "solve":
                for mode in (True, False):
                    tag = "prune" if mode else "noprune"
                    counter["left"] = 400000
                    trans = tl(case["trans"])
                    game = tad.StochasticGame(case["rewards"], case["players"], trans,
                                              case["finals"], mode)
                    try:
                        out[tag] = repr(tuple(game.solve()[:8]))
                    except (ValueError, ZeroDivisionError) as e:
                        out[tag] = "%s: %s" % (type(e).__name__, e)
                    except Budget:
                        out[tag] = "BUDGET"
                    out[tag + "_input"] = repr(trans)
                    if extras:
                        out["extra_" + tag + "_summary"] = repr(
                            getattr(game, "pruning_summary", "n/a"))
        except Budget:
            out["budget"] = True
        except Exception as e:   # any other crash is itself an observable outcome
            out["crash"] = "%s: %s" % (type(e).__name__, e)
        results.append(out)
    with open(out_path, "w") as fh:
        json.dump(results, fh)


# --------------------------------------------------------------------------- #
# reference implementation of the property (parent)

def reference(case, reach, strat):
    players = case["players"]
    ns = [[list(t) for t in ts] for ts in case["trans"]]
    for i, p in enumerate(players):
        if p == P1:
            ns[i] = [t for t in ns[i] if t[0] in strat[i]]
            ns[i] = [t for t in ns[i] if reach[t[1]] != 0]
        elif p == PR:
            surv = [t for t in ns[i] if reach[t[1]] != 0]
            if len(surv) != len(ns[i]):
                tot = sum(t[0] for t in surv)
                ns[i] = [[t[0] / tot, t[1]] for t in surv]
    while True:
        pointed = {0} | {t[1] for ts in ns for t in ts}
        changed = False
        for i, p in enumerate(players):
            if p != P1 and i not in pointed and ns[i]:
                ns[i] = []
                changed = True
        if not changed:
            return ns


def property_violations(case, out):
    """direct statement of C03 on the patched result of one pipeline case"""
    if "ref_final" not in out:
        return []
    reach, strat, final = out["ref_reach"], out["ref_strat"], out["ref_final"]
    problems = []
    if final != reference(case, reach, strat):
        problems.append("differs from reference implementation")
    pointed = {0} | {t[1] for ts in final for t in ts}
    for i, p in enumerate(case["players"]):
        orig = case["trans"][i]
        if p in (P1, PR) and any(reach[t[1]] == 0 for t in final[i]):
            problems.append("state %d keeps a dead successor" % i)
        if p == PR and final[i]:
            if abs(sum(t[0] for t in final[i]) - 1) > 1e-9:
                problems.append("state %d probabilities do not sum to 1" % i)
            if [t[1] for t in final[i]] != [t[1] for t in orig if reach[t[1]] != 0]:
                problems.append("state %d lost / reordered a live transition" % i)
        if p == P2 and i in pointed and final[i] != orig:
            problems.append("Player 2 state %d changed" % i)
    return problems


def summary_violations(case, out):
    """
        patched tree only: the new pruning statistics must describe exactly the
        difference between the snapshots (so the bookkeeping neither misses a
        removal nor is out of step with what was really removed)
    """
    if "extra_summary" not in out:
        return []
    summary = out["extra_summary"]
    players = case["players"]
    if case["kind"] == "assigned":
        reach = case["reach"]
        before = ast.literal_eval(out["after_reach"])
        middle = ast.literal_eval(out["after_paths"])
        after = ast.literal_eval(out["after_states"])
    else:
        reach = out["ref_reach"]
        before = ast.literal_eval(out["prune_after_reach"])
        middle = None
        after = ast.literal_eval(out["prune_after_game"])
    problems = []
    suboptimal = sum(len(o) - len(b) for o, b in zip(case["trans"], before))
    if summary["suboptimal_transitions"] != suboptimal:
        problems.append("suboptimal_transitions %r != %r"
                        % (summary["suboptimal_transitions"], suboptimal))
    dead = [[i, t[1]] for i, ts in enumerate(before) if players[i] in (P1, PR)
            for t in ts if reach[t[1]] == 0]
    if summary["dead_transitions"] != dead:
        problems.append("dead_transitions %r != %r" % (summary["dead_transitions"], dead))
    if middle is None:
        middle = [[t for t in ts if reach[t[1]] != 0] if players[i] in (P1, PR) else ts
                  for i, ts in enumerate(before)]
    cleared = [i for i in range(len(players)) if middle[i] and not after[i]]
    if sorted(summary["cleared_states"]) != cleared:
        problems.append("cleared_states %r != %r" % (summary["cleared_states"], cleared))
    return problems


# --------------------------------------------------------------------------- #

def main():
    if len(sys.argv) >= 2 and sys.argv[1] == "--worker":
        worker(sys.argv[2], sys.argv[3], sys.argv[4], sys.argv[5] == "1")
        return 0
    if len(sys.argv) != 3:
        print(__doc__)
        return 2
    patched, clean = os.path.abspath(sys.argv[1]), os.path.abspath(sys.argv[2])
    cases = build_cases()
    tmp = tempfile.mkdtemp(prefix="equiv_c03_")
    cases_path = os.path.join(tmp, "cases.json")
    with open(cases_path, "w") as fh:
        json.dump(cases, fh)
    outs = {}
    for label, root, extras in (("patched", patched, "1"), ("clean", clean, "0")):
        out_path = os.path.join(tmp, label + ".json")
        env = dict(os.environ, PYTHONDONTWRITEBYTECODE="1", PYTHONHASHSEED="0")
        proc = subprocess.run(
            [sys.executable, os.path.abspath(__file__), "--worker", root, cases_path,
             out_path, extras], env=env, capture_output=True, text=True)
        if proc.returncode != 0:
            print(proc.stdout)
            print(proc.stderr)
            print("FAIL: worker for %s tree crashed" % label)
            return 1
        with open(out_path) as fh:
            outs[label] = json.load(fh)

    failures = []
    stats = {"budget": 0, "errors": 0, "crash": 0}
    kinds = {}
    for i, case in enumerate(cases):
        kinds[case["kind"]] = kinds.get(case["kind"], 0) + 1
        a = {k: v for k, v in outs["patched"][i].items() if not k.startswith("extra_")}
        b = {k: v for k, v in outs["clean"][i].items() if not k.startswith("extra_")}
        if a != b:
            keys = [k for k in sorted(set(a) | set(b)) if a.get(k) != b.get(k)]
            failures.append((i, case["kind"], "patched != clean on %s" % keys,
                             {k: (a.get(k), b.get(k)) for k in keys[:2]}))
        if "budget" in a or "BUDGET" in a.values():
            stats["budget"] += 1
        if "crash" in a:
            stats["crash"] += 1
        if any(k.endswith("_error") for k in a):
            stats["errors"] += 1
        if case["kind"] == "pipeline":
            for problem in property_violations(case, outs["patched"][i]):
                failures.append((i, "pipeline", "property: " + problem, case))
        for problem in summary_violations(case, outs["patched"][i]):
            failures.append((i, case["kind"], "summary: " + problem, case))
        if "extra_summary" in outs["patched"][i]:
            stats["summaries"] = stats.get("summaries", 0) + 1
        extra = outs["patched"][i]
        if "extra_table" in extra and extra["extra_table"] != extra["after"]:
            failures.append((i, "node", "explicit table gives another result", case))

    print("cases: %s" % kinds)
    print("outcomes (patched): %s" % stats)
    if failures:
        for f in failures[:10] + [x for x in failures if x[2].startswith("property")][:3]:
            print("DIFF", f)
        print("FAIL (%d differences)" % len(failures))
        return 1
    print("PASS")
    return 0


if __name__ == "__main__":
    sys.exit(main())
