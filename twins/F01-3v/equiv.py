#!/usr/bin/env python
"""Differential test for property C01 (reported reachability probabilities).

usage: python equiv.py <clean_repo_dir> <patched_repo_dir>

Both trees are loaded in their own subprocess (the module names collide).  Each
worker runs exactly the same deterministic set of cases and prints one line per
case (tag + repr of the observation, exceptions as type + message).  The parent
compares stdout line by line and stderr byte for byte.  Prints SAME / exits 0
when nothing differs, prints the first difference / exits 1 otherwise.
"""
import io
import os
import subprocess
import sys
import tempfile

CASE_TIMEOUT = 2  # CPU seconds, for solves that may not terminate (non-stopping games)

SMALL_INPUTS = [
    "example_17_08.py", "example_games.py", "paper_games.py", "manual_arrow_bottom.py",
    "manual_1_game_a.py", "robot_1_w2_l1_r6_rb10_lb5_tb10_lt0.py",
    "robot_1_w1_l2_r6_rb10_lb5_tb10_lt0.py", "robot_1_w2_l2_r6_rb10_lb5_tb10_lt0.py",
    "robot_999132423_w3_l3_r6_rb1_lb2_tb10_lt30_force_down.py",
    "manual_robot_arrow_down_w4_l4_r5_rb10_lb10_tb10_force_down.py",
]


# --------------------------------------------------------------------------- worker
def worker(repo):
    import copy
    import hashlib
    import logging
    import random
    import signal

    repo = os.path.abspath(repo)
    sys.path.insert(0, repo)
    workdir = tempfile.mkdtemp(prefix="equiv_F01_")
    os.makedirs(os.path.join(workdir, "outputs"))
    os.makedirs(os.path.join(workdir, "inputs"))
    os.chdir(workdir)

    import tad
    import reverse_dfs as rdfs
    import conditionalrewards as cr
    import roberta_generator as gen

    P1, P2, PR = tad.PLAYER_1, tad.PLAYER_2, tad.PROBABILISTIC
    out = sys.stdout

    def emit(tag, value):
        out.write(f"{tag}\t{value!r}\n")

    class CaseTimeout(BaseException):
        pass

    def _alarm(signum, frame):
        raise CaseTimeout()

    signal.signal(signal.SIGVTALRM, _alarm)   # CPU time: independent of machine load

    def guarded(fn, *args, timeout=None, **kwargs):
        """Result or (exception type, message); optional wall-clock guard."""
        if timeout:
            signal.setitimer(signal.ITIMER_VIRTUAL, timeout)
        try:
            return ("ok", fn(*args, **kwargs))
        except CaseTimeout:
            return ("timeout",)
        except Exception as exc:  # noqa: BLE001 - the type and the message are the observation
            return ("exc", type(exc).__name__, str(exc))
        finally:
            if timeout:
                signal.setitimer(signal.ITIMER_VIRTUAL, 0)

    # ---------------------------------------------------------------- log capture
    root = logging.getLogger()

    class Capture:
        def __init__(self, level):
            self.level = level

        def __enter__(self):
            self.stream = io.StringIO()
            self.handler = logging.StreamHandler(self.stream)
            self.handler.setFormatter(logging.Formatter("%(levelname)s|%(message)s"))
            self.old_handlers = root.handlers[:]
            self.old_level = root.level
            root.handlers[:] = [self.handler]
            root.setLevel(self.level)
            return self

        def text(self):
            return self.stream.getvalue()

        def __exit__(self, *exc):
            root.handlers[:] = self.old_handlers
            root.setLevel(self.old_level)

    # ---------------------------------------------------------------- game generators
    PROB_POOL = [0.5, 0.25, 0.75, 0.1, 0.9, 0.3, 0.7, 1 / 3, 2 / 3, 0.01, 0.99, 0.2, 0.05, 0.125]

    def distribution(rng, k):
        mode = rng.randrange(4)
        if k == 1:
            return [rng.choice([1, 1.0])]
        if mode == 0:
            return [1 / k] * k
        if mode == 1:
            raw = [rng.random() + 1e-3 for _ in range(k)]
            total = 0
            for r in raw:
                total += r
            return [r / total for r in raw]
        if mode == 2:
            # dyadic
            parts = [rng.randint(1, 8) for _ in range(k)]
            denom = 0
            for p in parts:
                denom += p
            return [p / denom for p in parts]
        first = rng.choice(PROB_POOL)
        rest = (1 - first) / (k - 1)
        return [first] + [rest] * (k - 1)

    def random_game(rng, n, style):
        """style: 'any' (cycles everywhere, end components), 'stopping' (layered, every
        cycle leaks), 'sparse' (many states cannot reach a final)."""
        kinds = [rng.choice([P1, P2, PR]) for _ in range(n)]
        order = list(range(n))
        rng.shuffle(order)                       # random state numbering
        rank = {s: r for r, s in enumerate(order)}
        n_final = rng.choice([1, 1, 1, 2, 2, 3, max(1, n // 4)])
        finals = rng.sample(range(n), min(n_final, n))
        if style == "stopping" and rng.random() < 0.7 and order[-1] not in finals:
            finals[rng.randrange(len(finals))] = order[-1]   # the sink of the layering is a goal
        if rng.random() < 0.15:
            finals = finals + [finals[0]]        # duplicated final
        absorbing_finals = rng.random() < 0.6
        transitions = []
        for s in range(n):
            k = rng.choice([1, 1, 2, 2, 2, 3, 4])
            if style == "stopping":
                later = [t for t in range(n) if rank[t] > rank[s]]
                targets = [rng.choice(later) if later else s for _ in range(k)]
                if kinds[s] == PR and later and rng.random() < 0.5:
                    targets.append(rng.randrange(n))   # back edge with forward mass left
            elif style == "sparse":
                near = order[max(0, rank[s] - 2):rank[s] + 3]
                targets = [rng.choice(near) for _ in range(k)]
            else:
                targets = [rng.randrange(n) for _ in range(k)]
            if rng.random() < 0.15:
                targets.append(targets[0])       # parallel edge
            if rng.random() < 0.1 and (style != "stopping" or kinds[s] == PR):
                targets.append(s)                # self loop (players must not idle in stopping games)
            if s in finals and absorbing_finals:
                targets = [s]
            if style == "stopping" and not [t for t in range(n) if rank[t] > rank[s]]:
                targets = [s]
            if kinds[s] == PR:
                probs = distribution(rng, len(targets))
                transitions.append(list(zip(probs, targets)))
            else:
                transitions.append([(f"a{i}", t) for i, t in enumerate(targets)])
        return kinds, transitions, finals

    def rewards_for(rng, n, transitions, finals, zero):
        if zero:
            return [0] * n
        rewards = [rng.choice([0, 0, 1, 2, 3, 5, 10, 0.5]) for _ in range(n)]
        for s in range(n):
            if all(t == s for _, t in transitions[s]):
                rewards[s] = 0                  # absorbing states do not accumulate
        return rewards

    def node_snapshot(state_list):
        return [(s.idx, s.reach_probability, s.expected_reach_min_rewards, s.next_states)
                for s in state_list]

    # ================================================================== A. reverse_dfs
    rng = random.Random(1001)
    for case in range(700):
        n = rng.choice([1, 2, 3, 3, 4, 5, 6, 8, 10, 15, 25, 40])
        style = rng.choice(["any", "sparse", "sparse", "stopping"])
        _, transitions, finals = random_game(rng, n, style)
        emit(f"A{case}.dfs", guarded(rdfs.reverse_dfs, transitions, finals))
        emit(f"A{case}.dfs_tuple", guarded(rdfs.reverse_dfs, transitions, tuple(finals)))
        emit(f"A{case}.rev", guarded(rdfs.reverse_transition_list, transitions))
        if case % 5 == 0:
            core = rdfs.reverse_transition_list_core(transitions)
            emit(f"A{case}.core", core)
            grouped = rdfs.list_of_tuples_to_dict_of_lists(core)
            emit(f"A{case}.grouped", grouped)
            emit(f"A{case}.filled", rdfs.add_missing_states(grouped, n + 2))
            visited = set(rng.sample(range(n), rng.randrange(n + 1)))
            rev = rdfs.reverse_transition_list(transitions)
            res = guarded(rdfs.reverse_dfs_from, finals[0], rev, visited)
            emit(f"A{case}.from", (res, sorted(visited)))

    big_rng = random.Random(77)
    for case in range(3):
        n = 3000
        _, transitions, finals = random_game(big_rng, n, "sparse")
        res = rdfs.reverse_dfs(transitions, finals)
        emit(f"A.big{case}", (len(res), hashlib.sha256(repr(res).encode()).hexdigest()))
    # a long chain (deep search) and an all-final game
    chain = [[("a", i + 1)] for i in range(5000)] + [[("a", 5000)]]
    emit("A.chain", len(rdfs.reverse_dfs(chain, [5000])))
    emit("A.allfinal", rdfs.reverse_dfs([[("a", 1)], [("a", 0)]], [0, 1]))

    base = [[("b", 1), ("a", 2)], [(0.75, 3), (0.25, 4)], [(0.5, 5), (0.5, 6)],
            [("d", 4), ("g", 5)], [(1, 4)], [(1, 5)], [(1, 6)]]
    malformed_dfs = [
        (base, []), (base, [7]), (base, [-1]), (base, [5, 7]), (base, [7, 5]), (base, [5, 9, 8]),
        (base, [[5]]), (base, [5, [6]]), (base, [9, [6]]), (base, [5.0]), (base, [True]),
        (base, ["5"]), (base, (5, 6)), (base, {5, 6}), (base, {5: 1}), (base, 5), (base, None),
        (base, iter([5])), (base, [None]), (base, [5, 5, 5]), (base, range(4, 6)),
        ([], []), ([], [0]), ([[]], [0]), ([[], []], [1]), ([[("a", 5)]], [5]), ([[("a", 5)]], [0]),
        ([[("a", "x")], [("a", 0)]], ["x"]), ([[("a", "x")], [("a", 0)]], [0]),
        ([[("a", 1, 2)], [("a", 0)]], [0]), ([[("a",)], [("a", 0)]], [0]), ([[3], [("a", 0)]], [0]),
        ([3, [("a", 0)]], [0]), ([None], [0]), (None, [0]), (5, [0]),
        ([[("a", [1])], [("a", 0)]], [0]), ([[("a", [1])], [("a", 0, 1)]], [0]),
        ([[("a", 0, 1)], [("a", [1])]], [0]), ([[("a", 1.0)], [("a", 0)]], [1]),
        ([[("a", 1)], [("a", 0.0)]], [0]), ([[("a", -1)], [("a", 0)]], [-1]),
        ([[("a", -1)], [("a", 0)]], [1]), ("ab", [0]), ([["ab"], ["cd"]], ["b"]),
        (base, "5"), ([["ab"], ["cd"]], "b"), (base, b"\x05"), (base, frozenset([5])),
        ([{"a": 1}], [0]), ([[["a", 0]]], [0]), (((("a", 1),), (("b", 0),)), (1,)),
    ]
    for i, (tl, fs) in enumerate(malformed_dfs):
        emit(f"A.mal{i}", guarded(rdfs.reverse_dfs, tl, fs))
        if not hasattr(tl, "__next__"):
            emit(f"A.malrev{i}", guarded(rdfs.reverse_transition_list, tl))

    # ================================================================== B. Bellman steps
    rng = random.Random(2002)
    VALUE_POOL = [0, 1, 0.0, 1.0, 0.5, 0.25, 1e-7, 1 - 1e-7, 1e-300, 0.1, 0.3, 2 / 3, 0.999999,
                  5e-324, 1.0000000000000002, -0.0, 2, -1, 0.7, 1e-6, 0.9999995]
    for case in range(600):
        n = rng.choice([1, 2, 3, 4, 6, 9, 14])
        kinds, transitions, finals = random_game(rng, n, "any")
        game = tad.StochasticGame([0] * n, kinds, transitions, finals)
        state_list = game.init_states()
        emit(f"B{case}.init", [(s.reach_probability, s.is_final_node) for s in state_list])
        for s in state_list:
            r = rng.random()
            s.reach_probability = rng.choice(VALUE_POOL) if r < 0.6 else rng.random()
        emit(f"B{case}.step", [guarded(s.value_iteration_reach, state_list) for s in state_list])
        if case % 4 == 0:
            # the transition list of a node is public: replace it and step again
            for s in state_list:
                if rng.random() < 0.5:
                    s.next_states = list(reversed(s.next_states)) + s.next_states[:1]
                elif rng.random() < 0.3:
                    s.next_states = []
            emit(f"B{case}.step2", [guarded(s.value_iteration_reach, state_list) for s in state_list])
            emit(f"B{case}.strat", [
                guarded(s.get_best_strategies_reachability, state_list, 6) if s.player == P1 else
                guarded(s.get_worst_strategies_reachability, state_list, 6) if s.player == P2 else None
                for s in state_list])

    # ================================================================== C. solve_reachability
    # first: the logging side effects of a direct call on an unconfigured root logger
    root.handlers[:] = []
    kinds, transitions, finals = random_game(random.Random(5), 6, "any")
    sl = tad.StochasticGame([0] * 6, kinds, transitions, finals).init_states()
    emit("C.unconfigured", guarded(tad.Solver(sl).solve_reachability, transitions, finals, False))
    emit("C.unconfigured.handlers", [type(h).__name__ for h in root.handlers])
    emit("C.unconfigured.level", root.level)
    root.handlers[:] = []

    rng = random.Random(3003)
    THRESHOLDS = [None, None, None, 1e-3, 1e-9, 1e-12, 0.5, 0.05, 1, 2, 1e-6, 10 ** (-6)]
    for case in range(800):
        n = rng.choice([3, 3, 4, 5, 6, 8, 10, 12, 16, 24, 40])
        style = rng.choice(["any", "any", "sparse", "stopping"])
        kinds, transitions, finals = random_game(rng, n, style)
        threshold = rng.choice(THRESHOLDS)
        level = rng.choice([None, None, logging.DEBUG, logging.DEBUG, logging.INFO, 5, logging.ERROR])
        for prune in (True, False):
            game = tad.StochasticGame([0] * n, copy.deepcopy(kinds), copy.deepcopy(transitions),
                                      list(finals), prune)
            state_list = game.init_states()
            solver = tad.Solver(state_list) if threshold is None else \
                tad.Solver(state_list, threshold=threshold)
            emit(f"C{case}.{prune}.cfg", (solver.threshold, solver.floor))
            if level is None:
                res = guarded(solver.solve_reachability, transitions, finals, prune)
                log = None
            else:
                with Capture(level) as cap:
                    res = guarded(solver.solve_reachability, transitions, finals, prune)
                    log = cap.text()
            emit(f"C{case}.{prune}.res", res)
            emit(f"C{case}.{prune}.nodes", node_snapshot(state_list))
            if log is not None:
                emit(f"C{case}.{prune}.log", (len(log), hashlib.sha256(log.encode()).hexdigest(),
                                             log[:400]))
        if case % 10 == 0:
            # value_iteration_reachability called directly with a hand-made frontier
            state_list = tad.StochasticGame([0] * n, kinds, transitions, finals).init_states()
            frontier = [s for s in range(n) if rng.random() < 0.7]
            if rng.random() < 0.2:
                frontier.append(n + 3)            # out of range: same failure expected
            rng.shuffle(frontier)
            solver = tad.Solver(state_list, threshold=rng.choice([1e-6, 1e-2, 1, 3]))
            with Capture(logging.DEBUG) as cap:
                res = guarded(solver.value_iteration_reachability, frontier, rng.random() < 0.5)
                log = cap.text()
            emit(f"C{case}.direct", (res, node_snapshot(state_list),
                                     hashlib.sha256(log.encode()).hexdigest()))

    # the solver on an empty final list / empty frontier
    state_list = tad.StochasticGame([0] * 6, kinds[:6], [[(1, 0)] if k == PR else [("a", 0)] for k in kinds[:6]], [0]).init_states()
    emit("C.nofinal", guarded(tad.Solver(state_list).solve_reachability, [[("a", 0)]] * 6, [], True))
    with Capture(logging.DEBUG) as cap:
        emit("C.emptyfrontier", guarded(tad.Solver(state_list).value_iteration_reachability, [], False))
        emit("C.emptyfrontier.log", cap.text())

    # ================================================================== D. full solve()
    rng = random.Random(4004)
    timeouts = 0
    for case in range(400):
        n = rng.choice([3, 4, 5, 6, 8, 10, 14, 20, 30])
        if case % 3 == 0:
            style, zero = rng.choice(["any", "sparse"]), True      # end components, zero rewards
        else:
            style, zero = "stopping", rng.random() < 0.2
        kinds, transitions, finals = random_game(rng, n, style)
        rewards = rewards_for(rng, n, transitions, finals, zero)
        level = logging.DEBUG if case % 7 == 0 else (logging.INFO if case % 7 == 1 else None)
        per_mode = []
        for prune in (True, False):
            game = tad.StochasticGame(list(rewards), list(kinds), copy.deepcopy(transitions),
                                      list(finals), prune)
            if level is None:
                res = guarded(game.solve, timeout=CASE_TIMEOUT)
                log = None
            else:
                with Capture(level) as cap:
                    res = guarded(game.solve, timeout=CASE_TIMEOUT)
                    log = cap.text()
            if res[0] == "timeout":
                timeouts += 1
            emit(f"D{case}.{prune}", res)
            emit(f"D{case}.{prune}.inputs", (game.transition_list == transitions, game.final_states))
            if log is not None:
                emit(f"D{case}.{prune}.log", (len(log), hashlib.sha256(log.encode()).hexdigest()))
            per_mode.append(res)
        # the property's last sentence: same probabilities with and without pruning
        if per_mode[0][0] == "ok" and per_mode[1][0] == "ok":
            emit(f"D{case}.probs_equal", per_mode[0][1][3] == per_mode[1][1][3])
    emit("D.timeouts", timeouts)

    # ================================================================== E. run_games, files
    for name in SMALL_INPUTS:
        path = os.path.join(repo, "inputs", name)
        games = cr.read_dict_from_file(path)
        res = guarded(cr.run_games, games, timeout=30)
        if res[0] == "ok":
            results = res[1]
            for g in results.values():
                g["total_time"] = 0
            emit(f"E.{name}", results)
            cr.save_results_to_file(results, path)
            with open(os.path.join("outputs", name.split(".")[0] + ".txt"), "rb") as fh:
                emit(f"E.{name}.report", hashlib.sha256(fh.read()).hexdigest())
        else:
            emit(f"E.{name}", res)

    for seed, length, width, force_down in [(3, 2, 2, False), (11, 3, 3, True), (40, 5, 5, True),
                                            (7, 1, 3, False), (9, 3, 1, True)]:
        moves, brewards, loose = gen.gen_rnd_board(seed, length, width, 0.3, 6, force_down)
        fname = f"inputs/board_{seed}.py"
        gen.write_robots(fname, length, width, moves, brewards, loose, 0.1, 0.1, 0.1)
        with open(fname, "rb") as fh:
            emit(f"E.board{seed}.file", hashlib.sha256(fh.read()).hexdigest())
        games = cr.read_dict_from_file(fname)
        for gname, g in games.items():
            for prune in (True, False):
                sg = tad.StochasticGame(**copy.deepcopy(g), prune_states=prune)
                check = guarded(sg.check_game)
                if check[0] != "ok":
                    emit(f"E.board{seed}.{gname}.{prune}", check)
                    continue
                sl = sg.init_states()
                res = guarded(tad.Solver(sl).solve_reachability, sg.transition_list,
                              sg.final_states, prune)
                emit(f"E.board{seed}.{gname}.{prune}", (res, [s.reach_probability for s in sl]))

    # ================================================================== G. logging configurations
    rng = random.Random(7007)

    def strip_times(text):
        return "\n".join(line for line in text.split("\n") if "Total time" not in line)

    for case in range(60):
        n = rng.choice([3, 5, 8, 12])
        kinds, transitions, finals = random_game(rng, n, rng.choice(["any", "stopping"]))
        config = case % 6
        with Capture(logging.DEBUG) as cap:
            if config == 1:
                logging.disable(logging.DEBUG)
            elif config == 2:
                root.setLevel(logging.NOTSET)
            elif config == 3:
                cap.handler.setLevel(logging.INFO)
            elif config == 4:
                root.disabled = True
            elif config == 5:
                cap.handler.setFormatter(logging.Formatter("%(levelname)s - %(name)s - %(message)s"))
            try:
                sl = tad.StochasticGame([0] * n, kinds, transitions, finals).init_states()
                res = guarded(tad.Solver(sl).solve_reachability, transitions, finals, case % 2 == 0)
                full = guarded(tad.StochasticGame([0] * n, kinds, copy.deepcopy(transitions), finals,
                                                  case % 2 == 0).solve, timeout=CASE_TIMEOUT)
            finally:
                logging.disable(logging.NOTSET)
                root.disabled = False
            emit(f"G{case}.{config}", (res, full, cap.text()))

    for name in ["paper_games.py", "example_games.py", "example_17_08.py"]:
        games = cr.read_dict_from_file(os.path.join(repo, "inputs", name))
        for level in (logging.DEBUG, logging.INFO):
            with Capture(level) as cap:
                res = guarded(cr.run_games, copy.deepcopy(games), timeout=30)
                text = strip_times(cap.text())
            emit(f"G.{name}.{level}", (len(text), hashlib.sha256(text.encode()).hexdigest()))

    # ================================================================== F. malformed games
    rng = random.Random(6006)

    def mutate(rng, rewards, kinds, transitions, finals):
        n = len(kinds)
        s = rng.randrange(n)
        m = rng.randrange(30)
        rewards, kinds, finals = list(rewards), list(kinds), list(finals)
        transitions = copy.deepcopy(transitions)
        if m == 0: rewards.pop()
        elif m == 1: rewards.append(1)
        elif m == 2: rewards[s] = -1
        elif m == 3: transitions.pop()
        elif m == 4: transitions.append([("a", 0)])
        elif m == 5: finals = []
        elif m == 6: finals.append(n)
        elif m == 7: finals.append(-1)
        elif m == 8: kinds[s] = "Player 3"
        elif m == 9: kinds.pop()
        elif m == 10: transitions[s] = []
        elif m == 11: transitions[s] = tuple(transitions[s])
        elif m == 12: transitions[s][0] = list(transitions[s][0])
        elif m == 13: transitions[s][0] = transitions[s][0] + (1,)
        elif m == 14: transitions[s][0] = (None, transitions[s][0][1])
        elif m == 15: transitions[s][0] = (transitions[s][0][0], "1")
        elif m == 16: transitions[s][0] = (transitions[s][0][0], n)
        elif m == 17: transitions[s][0] = (transitions[s][0][0], -1)
        elif m == 18: transitions[s][0] = (transitions[s][0][0], 1.0)
        elif m == 19: transitions[s] = None
        elif m == 20: kinds[s] = {P1: P2, P2: PR, PR: P1}[kinds[s]]
        elif m == 21: finals = [float(f) for f in finals]
        elif m == 22: finals = tuple(finals)
        elif m == 23: rewards = []
        elif m == 24: finals = [n + 5, -3]
        elif m == 25: transitions[s][-1] = (transitions[s][-1][0], True)
        elif m == 26: kinds[s] = None
        elif m == 27: rewards[s] = None
        elif m == 28: finals = ["0"]
        elif m == 29: transitions[s] = transitions[s] + [()]
        return rewards, kinds, transitions, finals

    for case in range(300):
        n = rng.choice([3, 4, 5, 7, 9])
        kinds, transitions, finals = random_game(rng, n, "stopping")
        rewards = rewards_for(rng, n, transitions, finals, rng.random() < 0.5)
        rewards, kinds, transitions, finals = mutate(rng, rewards, kinds, transitions, finals)
        for prune in (True, False):
            game = guarded(tad.StochasticGame, rewards, kinds, copy.deepcopy(transitions), finals, prune)
            if game[0] != "ok":
                emit(f"F{case}.{prune}.ctor", game)
                continue
            emit(f"F{case}.{prune}.count", guarded(game[1].count_transitions))
            emit(f"F{case}.{prune}.solve", guarded(game[1].solve, timeout=1))
        if case % 6 == 0:
            games = {"g": {"rewards": rewards, "players": kinds, "transition_list": transitions,
                           "final_states": finals}}
            res = guarded(cr.run_games, games, timeout=1)
            if res[0] == "ok":
                for g in res[1].values():
                    g["total_time"] = 0
            emit(f"F{case}.run_games", res)

    out.flush()
    os.chdir("/")
    import shutil
    shutil.rmtree(workdir, ignore_errors=True)


# --------------------------------------------------------------------------- driver
def main():
    if len(sys.argv) == 3 and sys.argv[1] == "--worker":
        worker(sys.argv[2])
        return 0
    if len(sys.argv) != 3:
        print(__doc__)
        return 2
    env = dict(os.environ, PYTHONDONTWRITEBYTECODE="1", PYTHONHASHSEED="0")
    procs = []
    for repo in sys.argv[1:3]:
        procs.append(subprocess.Popen(
            [sys.executable, os.path.abspath(__file__), "--worker", repo],
            stdout=subprocess.PIPE, stderr=subprocess.PIPE, env=env))
    outputs = [p.communicate() for p in procs]
    for repo, proc, (_, err) in zip(sys.argv[1:3], procs, outputs):
        if proc.returncode != 0:
            print(f"worker for {repo} failed with exit code {proc.returncode}")
            print(err.decode(errors="replace")[-3000:])
            return 1
    (out_a, err_a), (out_b, err_b) = outputs
    lines_a = out_a.decode().split("\n")
    lines_b = out_b.decode().split("\n")
    for idx, (a, b) in enumerate(zip(lines_a, lines_b)):
        if a != b:
            print(f"DIFFERENT at observation {idx}:")
            print("  clean  :", a[:1500])
            print("  patched:", b[:1500])
            return 1
    if len(lines_a) != len(lines_b):
        print(f"DIFFERENT number of observations: {len(lines_a)} vs {len(lines_b)}")
        return 1
    if err_a != err_b:
        ea, eb = err_a.decode(errors="replace"), err_b.decode(errors="replace")
        pos = next((i for i, (x, y) in enumerate(zip(ea, eb)) if x != y), min(len(ea), len(eb)))
        print(f"DIFFERENT stderr at byte {pos}:")
        print("  clean  :", ea[max(0, pos - 200):pos + 200])
        print("  patched:", eb[max(0, pos - 200):pos + 200])
        return 1
    print(f"SAME ({len(lines_a) - 1} observations, {len(err_a)} stderr bytes)")
    return 0


if __name__ == "__main__":
    sys.exit(main())
