#!/usr/bin/env python
"""Differential test for property C14 (cross-objective diagnostics of tad.py).

usage: python equiv.py <clean_repo_dir> <patched_repo_dir>

Both trees are loaded in their own subprocess (the module names collide), fed the
SAME deterministic set of inputs, and the reprs / bytes they produce are compared
line by line.  Prints SAME and exits 0 when nothing differs; prints the first
difference and exits 1 otherwise.

Inputs:
  A. random turn-based stochastic games (all three state kinds, cycles, parallel
     edges, duplicate action names, exact ties, int/float mixes, several finals,
     both pruning modes) solved with StochasticGame.solve(); the complete tuple of
     eight outputs, a hash of every debug line (i.e. every intermediate value of
     all iterations) and the (un)modified input description are compared.
     Non-terminating solves are cut off deterministically after CAP iterations
     (counted on the "iteration i" debug lines); the hash up to there still counts.
  B. malformed games (bad lengths, negative / NaN / inf / huge rewards, bad
     players, bad tuples, negative or >1 or NaN probabilities, no finals, ...):
     exception type + message.
  C. node-level calls: value_iteration_rewards of the three node kinds and
     PlayerTwo._expected_rewards_min_reach on state lists whose per-state values are
     drawn from a pool of nasty numbers (0, -0.0, 1 / 1.0 / True ties, NaN, +-inf,
     negatives, values 1e-7 apart, Fractions, 10**400).
  D. report files: conditionalrewards.run_games + save_results_to_file on batches
     of the games of A (clock frozen), and on the small shipped input files,
     compared byte for byte.
"""
import hashlib
import os
import subprocess
import sys
import tempfile

CAP = 400          # iterations (reachability + rewards) per solve before cut off
N_GAMES = 1500
N_MALFORMED = 700
N_UNIT = 2500
SHIPPED = ["paper_games.py", "example_games.py", "example_17_08.py", "manual_1_game_a.py"]


# --------------------------------------------------------------------------- inputs
def _probabilities(rng, k, style):
    if style == 0:      # dyadic, exact
        cuts = sorted(rng.randint(0, 8) for _ in range(k - 1))
        parts = [b - a for a, b in zip([0] + cuts, cuts + [8])]
        return [p / 8 for p in parts]
    if style == 1:      # uniform (exact ties between successors)
        return [1 / k] * k
    raw = [rng.random() + 0.01 for _ in range(k)]
    total = sum(raw)
    return [r / total for r in raw]


def random_game(rng):
    n = rng.randint(2, 9)
    n_final = rng.randint(1, min(3, n - 1))
    finals = list(range(n - n_final, n))
    if rng.random() < 0.15:
        rng.shuffle(finals)
    reward_style = rng.randrange(4)
    forward = rng.choice([0.5, 0.8, 0.9, 1.0, 1.0])
    chance_cycles = rng.random() < 0.6     # back edges only out of probabilistic states
    players, transitions, rewards = [], [], []
    for i in range(n):
        if i in finals and rng.random() < 0.9:
            players.append("Probabilistic")
            transitions.append([(1, i)])
            rewards.append(0 if rng.random() < 0.95 else 1)
            continue
        kind = rng.choice(["Player 1", "Player 2", "Probabilistic"])
        players.append(kind)
        k = rng.randint(1, 4)
        targets = []
        for _ in range(k):
            if i + 1 < n and (rng.random() < forward
                              or (chance_cycles and kind != "Probabilistic")):
                targets.append(rng.randint(i + 1, n - 1))
            else:
                targets.append(rng.randrange(n))
        if kind == "Probabilistic":
            probs = _probabilities(rng, k, rng.randrange(3))
            if rng.random() < 0.2:
                probs = [int(p) if p in (0.0, 1.0) else p for p in probs]
            transitions.append(list(zip(probs, targets)))
        else:
            pool = ["a", "b", "c", "d", "e"] if rng.random() < 0.8 else ["a", "b"]
            if rng.random() < 0.85 and k <= len(pool):
                actions = rng.sample(pool, k)
            else:
                actions = [rng.choice(pool) for _ in range(k)]   # duplicate names
            transitions.append(list(zip(actions, targets)))
        if reward_style == 0:
            rewards.append(rng.randint(0, 3))
        elif reward_style == 1:
            rewards.append(rng.choice([0, 1, 1.0, 2, 2.0, 0.5, True]))
        elif reward_style == 2:
            rewards.append(round(rng.random() * 10, rng.randint(0, 3)))
        else:
            rewards.append(rng.choice([0, 0, 1, 5, 10, 100, 10 ** 6]))
    return {"rewards": rewards, "players": players,
            "transition_list": transitions, "final_states": finals}


def malform(rng, game):
    """Break a valid game in one (sometimes two) ways."""
    nan, inf = float("nan"), float("inf")
    g = {k: (list(v) if isinstance(v, list) else v) for k, v in game.items()}
    g["transition_list"] = [list(t) for t in g["transition_list"]]
    n = len(g["players"])
    i = rng.randrange(n)
    for _ in range(rng.choice([1, 1, 1, 2])):
        kind = rng.randrange(24)
        if i >= len(g["transition_list"]):
            break
        t = g["transition_list"][i]
        if kind == 0:
            g["transition_list"] = g["transition_list"][:-1]
        elif kind == 1:
            g["rewards"] = g["rewards"] + [1]
        elif kind == 2:
            g["rewards"][i] = -1
        elif kind == 3:
            g["rewards"][i] = nan
        elif kind == 4:
            g["rewards"][i] = inf
        elif kind == 5:
            g["rewards"][i] = 10 ** 400
        elif kind == 6:
            g["final_states"] = []
        elif kind == 7:
            g["final_states"] = g["final_states"] + [n]
        elif kind == 8:
            g["final_states"] = [-1] + g["final_states"]
        elif kind == 9:
            g["players"][i] = "Player 3"
        elif kind == 10:
            g["transition_list"][i] = []
        elif kind == 11:
            g["transition_list"][i] = tuple(t)
        elif kind == 12:
            g["transition_list"][i] = [list(x) for x in t]
        elif kind == 13:
            g["transition_list"][i] = [x + (0,) for x in t]
        elif kind == 14:
            g["transition_list"][i] = [(x[1], x[0]) for x in t]
        elif kind == 15:
            g["transition_list"][i] = [(x[0], n) for x in t]
        elif kind == 16:
            g["transition_list"][i] = [(x[0], float(x[1])) for x in t]
        elif kind == 17:   # swap the kind of the state, keeping its transitions
            g["players"][i] = rng.choice(["Player 1", "Player 2", "Probabilistic"])
        elif kind == 18 and g["players"][i] == "Probabilistic":
            g["transition_list"][i] = [(-x[0], x[1]) for x in t]
        elif kind == 19 and g["players"][i] == "Probabilistic":
            g["transition_list"][i] = [(x[0] * 3, x[1]) for x in t]
        elif kind == 20 and g["players"][i] == "Probabilistic":
            g["transition_list"][i] = [(nan, x[1]) for x in t]
        elif kind == 21 and g["players"][i] == "Probabilistic":
            g["transition_list"][i] = [(0, x[1]) for x in t]
        elif kind == 22:
            g["rewards"] = [inf if r else r for r in g["rewards"]]
        elif kind == 23:
            g["rewards"] = [nan] * n
        else:
            g["rewards"][i] = rng.choice([nan, inf, -0.0, 10 ** 400])
        i = rng.randrange(n)
    return g


# --------------------------------------------------------------------------- worker
class CutOff(BaseException):
    pass


class LogShim:
    """Stands in for the logging module inside tad: hashes the debug stream and
    counts iterations so that diverging solves stop deterministically."""
    DEBUG = 10
    INFO = 20

    def __init__(self):
        self.reset()

    def reset(self):
        self.iterations = 0
        self.digest = hashlib.sha256()

    def debug(self, msg, *args):
        msg = str(msg)
        self.digest.update(msg.encode())
        self.digest.update(b"\n")
        if msg.startswith("iteration"):
            self.iterations += 1
            if self.iterations > CAP:
                raise CutOff()

    def info(self, msg, *args):
        pass

    error = warning = info

    def getLogger(self, *args):
        return self

    def getEffectiveLevel(self):
        return self.DEBUG


class Clock:
    def __init__(self):
        self.now = 1000.0

    def time(self):
        self.now += 0.25
        return self.now


def outcome(fn):
    try:
        return "OK " + repr(fn())
    except CutOff:
        return "CUT"
    except Exception as exc:  # noqa: BLE001 - the point is to compare whatever is raised
        return "EXC %s: %s" % (type(exc).__name__, exc)


def worker(repo):
    import random
    from fractions import Fraction
    repo = os.path.abspath(repo)
    sys.path.insert(0, repo)
    workdir = tempfile.mkdtemp(prefix="equiv_F14_")
    os.makedirs(os.path.join(workdir, "outputs"))
    os.chdir(workdir)
    import logging
    logging.disable(logging.CRITICAL)
    import tad
    import conditionalrewards
    assert os.path.dirname(os.path.abspath(tad.__file__)) == repo, tad.__file__
    assert os.path.dirname(os.path.abspath(conditionalrewards.__file__)) == repo
    shim = LogShim()
    tad.logging = shim
    out = []

    def solve_case(tag, game, prune):
        shim.reset()
        import copy
        g = copy.deepcopy(game)
        res = outcome(lambda: tad.StochasticGame(prune_states=prune, **g).solve())
        out.append("%s prune=%s %s | log=%s it=%d | intact=%s" % (
            tag, prune, res, shim.digest.hexdigest()[:16], shim.iterations,
            repr(g) == repr(game)))
        return res

    # ---- A: random games, both pruning modes
    rng = random.Random(20240614)
    games, terminating = [], []
    for k in range(N_GAMES):
        game = random_game(rng)
        games.append(game)
        results = [solve_case("A%04d" % k, game, prune) for prune in (True, False)]
        if "CUT" not in results:
            terminating.append(k)

    # ---- B: malformed games
    rng = random.Random(777)
    malformed_ok = []
    for k in range(N_MALFORMED):
        game = malform(rng, random_game(rng))
        results = [solve_case("B%04d" % k, game, prune) for prune in (True, False)]
        if "CUT" not in results:
            malformed_ok.append(game)

    # ---- C: node-level calls on arbitrary per-state values
    nan, inf = float("nan"), float("inf")
    pool = [0, 0.0, -0.0, 1, 1.0, True, 2, 2.0, 2.5, 3, 0.5, Fraction(1, 2), nan, inf,
            -inf, -1, -0.5, 1e-7, 2e-7, 0.9999996, 0.9999994, 0.99999949, 10 ** 400, 7]
    tame = [0, 0.0, 1, 1.0, 2, 2.0, 2.5, 0.5, 3, 1e-7, 0.9999996, 0.9999994]
    rng = random.Random(4242)
    for k in range(N_UNIT):
        values = pool if k % 2 else tame
        n = rng.randint(1, 6)
        classes = [rng.choice([tad.PlayerOne, tad.PlayerTwo, tad.ProbabilisticNode])
                   for _ in range(n)]
        names = {tad.PlayerOne: "Player 1", tad.PlayerTwo: "Player 2",
                 tad.ProbabilisticNode: "Probabilistic"}
        state_list = []
        for idx, cls in enumerate(classes):
            deg = rng.randint(1, 5)
            targets = [rng.randrange(n) for _ in range(deg)]
            if cls is tad.ProbabilisticNode:
                firsts = _probabilities(rng, deg, rng.randrange(3))
                if k % 7 == 0:
                    firsts = [rng.choice([0, 1, -0.5, 0.5, 2, nan, inf]) for _ in firsts]
            else:
                firsts = [rng.choice("abc") for _ in range(deg)]
            node = cls(player=names[cls], idx=idx, reward=rng.choice(tame),
                       next_states=list(zip(firsts, targets)), num_states=n,
                       is_final_node=rng.random() < 0.2)
            state_list.append(node)
        for node in state_list:
            node.expected_rewards = rng.choice(values)
            node.expected_rewards_min_reach = rng.choice(values)
            node.expected_reach_min_rewards = rng.choice(values)
            node.reach_probability = rng.choice(values if k % 3 == 0 else tame)
            if rng.random() < 0.1:
                node.next_states = []
        for node in state_list:
            before = repr(node.next_states)
            out.append("C%04d.%d %s %s" % (
                k, node.idx, type(node).__name__,
                outcome(lambda: node.value_iteration_rewards(state_list))))
            if isinstance(node, tad.PlayerTwo):
                try:
                    own = node.get_worst_strategies_reachability(state_list, 6)
                except Exception:  # noqa: BLE001
                    own = None
                for strategies in ([], ["a"], ["b", "c"], ["c", "a", "b"], ["zz"], ("a",), own):
                    out.append("C%04d.%d emr %r %s" % (
                        k, node.idx, strategies,
                        outcome(lambda: node._expected_rewards_min_reach(state_list, strategies))))
            assert before == repr(node.next_states)

    # ---- D: report files, byte for byte
    conditionalrewards.time = Clock()

    def report(tag, games_dict, file_name):
        def run():
            results = conditionalrewards.run_games(games_dict)
            conditionalrewards.save_results_to_file(results, file_name)
            stem = file_name.split("/")[-1].split(".")[0]
            with open(os.path.join("outputs", stem + ".txt"), "rb") as handle:
                data = handle.read()
            return hashlib.sha256(data).hexdigest(), len(data), data[:6000]
        shim.reset()
        shim.iterations = -10 ** 9      # these games are known to terminate
        conditionalrewards.time.now = 1000.0
        out.append("%s %s" % (tag, outcome(run)))

    batch = 25
    for start in range(0, len(terminating), batch):
        chunk = terminating[start:start + batch]
        report("D%04d" % start, {"game_%d" % k: games[k] for k in chunk},
               "some.dir/batch_%d.v2.py" % start)
    batch = 3
    for start in range(0, len(malformed_ok), batch):
        chunk = malformed_ok[start:start + batch]
        report("Dm%04d" % start, {"bad %d" % j: g for j, g in enumerate(chunk)},
               "malformed_%d.py" % start)
    for name in SHIPPED:
        path = os.path.join(repo, "inputs", name)
        if os.path.exists(path):
            report("Ds " + name, conditionalrewards.read_dict_from_file(path), path)

    sys.stdout.write("\n".join(line.replace("\n", "\\n") for line in out) + "\n")
    os.chdir(repo)
    import shutil
    shutil.rmtree(workdir, ignore_errors=True)


# --------------------------------------------------------------------------- driver
def main():
    if len(sys.argv) == 3 and sys.argv[1] == "--worker":
        worker(sys.argv[2])
        return 0
    if len(sys.argv) != 3:
        print(__doc__)
        return 2
    procs = []
    for repo in sys.argv[1:3]:
        sink = tempfile.TemporaryFile(mode="w+")
        env = dict(os.environ, PYTHONHASHSEED="0", PYTHONDONTWRITEBYTECODE="1")
        procs.append((repo, sink, subprocess.Popen(
            [sys.executable, os.path.abspath(__file__), "--worker", repo],
            stdout=sink, stderr=subprocess.PIPE, text=True, env=env)))
    outputs = []
    for repo, sink, proc in procs:
        try:
            _, err = proc.communicate(timeout=110)
        except subprocess.TimeoutExpired:
            proc.kill()
            print("DIFFERENT: worker for %s did not finish in time" % repo)
            return 1
        if proc.returncode != 0:
            print("DIFFERENT: worker for %s failed (exit %s)\n%s" % (repo, proc.returncode, err[-3000:]))
            return 1
        sink.seek(0)
        outputs.append(sink.read().splitlines())
    clean, patched = outputs
    for a, b in zip(clean, patched):
        if a != b:
            print("DIFFERENT\n clean  : %s\n patched: %s" % (a[:1500], b[:1500]))
            return 1
    if len(clean) != len(patched):
        print("DIFFERENT: %d vs %d result lines" % (len(clean), len(patched)))
        return 1
    print("SAME (%d results compared)" % len(clean))
    return 0


if __name__ == "__main__":
    sys.exit(main())
