#!/usr/bin/env python
"""Behavioural equivalence check for property C06 (solver terminates / 'no solution').

usage: python equiv_test.py <path-to-patched-root> <path-to-clean-root>

Both trees are loaded in separate subprocesses (this same file with --worker).
Each worker runs the same deterministic battery of cases and prints one JSON
line per case; the driver compares the lines.  PASS / exit 0 when nothing
differs, FAIL / exit 1 otherwise.

Time budget: every solve is bounded DETERMINISTICALLY by counting the calls of
the per-node value-iteration steps (a diverging game is cut off after
SWEEP_CAP sweeps in both trees at exactly the same point) and, as a backstop
against a loop that never calls a node step, by a CPU-time alarm (CPU time, not
wall-clock time, so that a stalled / overloaded machine cannot fake a difference).
"""
import json
import os
import subprocess
import sys

SWEEP_CAP = 500           # sweeps of value iteration allowed per solve
LOGGED_SWEEP_CAP = 40     # ... when the debug log is captured as well
CPU_CAP = 20              # seconds of CPU time of the worker, backstop only


# --------------------------------------------------------------------------- worker
class Budget(BaseException):
    pass


class WallClock(BaseException):
    pass


def worker(root):
    import copy
    import io
    import logging
    import random
    import signal

    sys.path.insert(0, root)
    os.chdir(root)
    import tad
    import reverse_dfs as rdfs
    import conditionalrewards as cr
    assert os.path.dirname(os.path.abspath(tad.__file__)) == os.path.abspath(root)

    # a handler on the root logger keeps logging.info() from installing a stderr handler
    logging.getLogger().addHandler(logging.NullHandler())

    # ---- deterministic step budget ------------------------------------------------
    counter = {"left": 0}

    def wrap(cls, name):
        orig = getattr(cls, name)

        def stepped(self, *a, **k):
            counter["left"] -= 1
            if counter["left"] < 0:
                raise Budget()
            return orig(self, *a, **k)
        setattr(cls, name, stepped)

    for cls in (tad.PlayerOne, tad.PlayerTwo, tad.ProbabilisticNode):
        for name in ("value_iteration_reach", "value_iteration_rewards"):
            wrap(cls, name)

    def on_alarm(signum, frame):
        raise WallClock()
    signal.signal(signal.SIGVTALRM, on_alarm)
    cap = {"sweeps": SWEEP_CAP}

    def guarded(n_states, fn):
        counter["left"] = cap["sweeps"] * max(1, n_states) * 2
        signal.setitimer(signal.ITIMER_VIRTUAL, CPU_CAP)
        try:
            return ["ok", repr(fn())]
        except Budget:
            return ["budget"]
        except WallClock:
            return ["wallclock"]
        except Exception as e:          # noqa: BLE001 - type and message are compared
            return ["exc", type(e).__name__, str(e)]
        finally:
            signal.setitimer(signal.ITIMER_VIRTUAL, 0)

    out = []

    def emit(case_id, payload):
        out.append(json.dumps([case_id, payload], sort_keys=True, default=repr))

    # ---- game generators ----------------------------------------------------------
    P1, P2, PR = tad.PLAYER_1, tad.PLAYER_2, tad.PROBABILISTIC
    ACTIONS = ["a", "b", "c", "d"]

    def split_probs(rng, k):
        style = rng.randrange(6)
        if k == 1:
            return [1] if rng.random() < 0.5 else [1.0]
        if style == 0:
            return [1.0 / k] * k
        if style == 1:
            tiny = 10.0 ** -rng.choice([3, 7, 9, 12])
            rest = [(1.0 - tiny) / (k - 1)] * (k - 1)
            ps = rest + [tiny]
            rng.shuffle(ps)
            return ps
        if style == 2:
            cuts = sorted(rng.random() for _ in range(k - 1))
            ps = [b - a for a, b in zip([0.0] + cuts, cuts + [1.0])]
            return ps
        if style == 3:
            base = [rng.choice([0.1, 0.2, 0.25, 0.5]) for _ in range(k)]
            s = sum(base)
            return [b / s for b in base]
        if style == 4:
            near = 1.0 - 10.0 ** -rng.choice([2, 4, 6])
            ps = [near] + [(1.0 - near) / (k - 1)] * (k - 1)
            rng.shuffle(ps)
            return ps
        ws = [rng.randint(1, 4) for _ in range(k)]
        s = sum(ws)
        return [w / s for w in ws]

    def transitions_for(rng, player, targets):
        if player == PR:
            ps = split_probs(rng, len(targets))
            return [(p, t) for p, t in zip(ps, targets)]
        return [(ACTIONS[i], t) for i, t in enumerate(targets)]

    def random_game(rng, n=None, dead_reward_zero=True, free=False):
        """Random game.  free=False: finals and dead sinks absorb (stopping when the
        dead sinks carry no reward), the other states point anywhere (cycles through
        probabilistic states, ties, several finals, dead successors adjacent or
        separated).  free=True: anything goes."""
        n = n or rng.randint(1, 9)
        n_final = rng.randint(1, min(3, n))
        ids = list(range(n))
        finals = sorted(rng.sample(ids, n_final))
        if free:
            dead = []
        else:
            others = [i for i in ids if i not in finals]
            dead = sorted(rng.sample(others, rng.randint(0, min(3, len(others)))))
            if rng.random() < 0.15 and 0 in others and 0 not in dead:
                dead.append(0)          # initial state cannot reach a final state
        players, trans, rewards = [], [], []
        weights = rng.choice([(1, 1, 1), (1, 1, 3), (3, 1, 1), (1, 3, 1), (0, 0, 1), (1, 1, 0)])
        terminals = set(finals) | set(dead)
        # rank: player states only move to a higher rank, probabilistic states have at
        # least one successor of higher rank -> every play ends in an absorbing state
        rank = {i: r for r, i in enumerate(rng.sample(ids, n))}
        for i in terminals:
            rank[i] = n + 1
        for i in ids:
            player = rng.choices([P1, P2, PR], weights=weights)[0]
            if not free and i in terminals:
                targets = [i]
                if i in dead and rng.random() < 0.3:
                    targets = [rng.choice(dead)]
                reward = 0 if (i in finals or dead_reward_zero) else rng.randint(0, 3)
            else:
                k = rng.randint(1, 4)
                pool = ids
                if not free and dead and rng.random() < 0.4:
                    # lots of dead successors, adjacent and separated
                    pool = dead + dead + ids
                targets = [rng.choice(pool) for _ in range(k)]
                if not free:
                    higher = [j for j in ids if rank[j] > rank[i]]
                    if player == PR:
                        if not any(rank[t] > rank[i] for t in targets):
                            targets[rng.randrange(k)] = rng.choice(higher)
                    else:
                        targets = [t if rank[t] > rank[i] else rng.choice(higher) for t in targets]
                if player != PR and rng.random() < 0.7:
                    targets = list(dict.fromkeys(targets))
                reward = rng.choice([0, 1, 1, 2, 3, 5, 0.5, 2.25])
                if i in finals:
                    reward = rng.choice([0, 0, 1])
            players.append(player)
            trans.append(transitions_for(rng, player, targets))
            rewards.append(reward)
        return {"rewards": rewards, "players": players, "transition_list": trans,
                "final_states": finals}

    def chain_game(rng):
        """Probabilistic self-loop with reward whose successors are dead (adjacent or
        separated), a final reachable with small probability; Player 2 may force
        away from the final."""
        layout = rng.choice(["adjacent", "separated", "three", "all_dead", "p2_forced"])
        # states: 0 init, 1 loop state, 2 final, 3 dead, 4 dead, 5 dead
        players = [rng.choice([P1, P2, PR]), PR, PR, rng.choice([P1, P2, PR]),
                   rng.choice([P1, P2, PR]), rng.choice([P1, P2, PR])]
        r = rng.choice([0, 0, 0, 1, 2])
        rewards = [rng.randint(0, 2), rng.randint(1, 3), 0, r, r, r]
        loop = {"adjacent": [1, 3, 4, 2], "separated": [3, 1, 4, 2],
                "three": [3, 1, 4, 2, 5], "all_dead": [1, 3, 4],
                "p2_forced": [1, 2, 3]}[layout]
        ps = split_probs(rng, len(loop))
        trans = [None, [(p, t) for p, t in zip(ps, loop)], [(1, 2)],
                 transitions_for(rng, players[3], [3]),
                 transitions_for(rng, players[4], [rng.choice([4, 3])]),
                 transitions_for(rng, players[5], [5])]
        first_targets = {"p2_forced": [1, 3]}.get(layout, [1] + rng.sample([2, 3, 4], rng.randint(0, 2)))
        if layout == "p2_forced":
            players[0] = P2
        trans[0] = transitions_for(rng, players[0], first_targets)
        return {"rewards": rewards, "players": players, "transition_list": trans,
                "final_states": [2]}

    # ---- observations -------------------------------------------------------------
    def observe_solve(game, prune):
        g = copy.deepcopy(game)
        before = repr(g)
        sg = tad.StochasticGame(prune_states=prune, **g)
        res = guarded(len(g["players"]), sg.solve)
        return {"solve": res, "input_untouched": repr(g) == before}

    def observe_pipeline(game, prune, threshold=None):
        """solve() replayed by hand so the internal per-state results are visible."""
        g = copy.deepcopy(game)
        n = len(g["players"])
        snap = {}

        def run():
            sg = tad.StochasticGame(prune_states=prune, **g)
            sg.check_game()
            states = sg.init_states()
            solver = tad.Solver(states) if threshold is None else tad.Solver(states, threshold)
            snap["floor"] = solver.floor
            strat, it = solver.solve_reachability(sg.transition_list, sg.final_states, prune)
            snap["reach"] = (strat, it, [s.reach_probability for s in states],
                             [s.expected_reach_min_rewards for s in states])
            solver.prune_reachability(strat)
            if prune:
                solver.prune_stochastich_game()
            snap["next_states"] = [s.next_states for s in states]
            fin, it2 = solver.solve_total_rewards()
            return (fin, it2, [s.expected_rewards for s in states],
                    [s.expected_rewards_min_reach for s in states],
                    [s.expected_reach_min_rewards for s in states],
                    [s.next_states for s in states])
        res = guarded(n, run)
        return {"pipeline": res, "snap": repr(sorted(snap.items()))}

    def observe_logged(game, prune):
        logger = logging.getLogger()
        stream = io.StringIO()
        handler = logging.StreamHandler(stream)
        handler.setFormatter(logging.Formatter("%(levelname)s %(message)s"))
        old_level = logger.level
        logger.addHandler(handler)
        logger.setLevel(logging.DEBUG)
        cap["sweeps"] = LOGGED_SWEEP_CAP
        try:
            res = observe_solve(game, prune)
        finally:
            cap["sweeps"] = SWEEP_CAP
            logger.removeHandler(handler)
            logger.setLevel(old_level)
        text = stream.getvalue()
        res["log_lines"] = text.count("\n")
        res["log_hash"] = hash_text(text)
        return res

    def hash_text(text):
        import hashlib
        return hashlib.sha256(text.encode()).hexdigest()

    def observe_run_games(games):
        n = sum(len(g["players"]) for g in games.values())

        def run():
            results = cr.run_games(copy.deepcopy(games))
            for r in results.values():
                r.pop("total_time")
            return sorted(results.items())
        return {"run_games": guarded(2 * n, run)}

    # ---- 1. random well-formed games, both pruning modes ----------------------------
    rng = random.Random(60606)
    games = []
    for k in range(230):
        games.append(("stop%03d" % k, random_game(rng, dead_reward_zero=True)))
    for k in range(40):
        games.append(("deadrew%03d" % k, random_game(rng, dead_reward_zero=False)))
    for k in range(50):
        games.append(("free%03d" % k, random_game(rng, free=True)))
    for k in range(80):
        games.append(("chain%03d" % k, chain_game(rng)))
    for k in range(12):
        games.append(("big%03d" % k, random_game(rng, n=rng.randint(15, 40))))
    for name, game in games:
        for prune in (True, False):
            emit("%s/%s/solve" % (name, prune), observe_solve(game, prune))
            emit("%s/%s/pipe" % (name, prune), observe_pipeline(game, prune))
    for name, game in games[::9]:
        for prune in (True, False):
            emit("%s/%s/logged" % (name, prune), observe_logged(game, prune))
    for thr in (1, 10, 0.5, 1e-3, 1e-9):
        for name, game in games[:40:4]:
            for prune in (True, False):
                emit("%s/%s/thr%r" % (name, prune, thr), observe_pipeline(game, prune, thr))

    # ---- 2. hand-written boundary games --------------------------------------------
    boundary = {
        "single_final": {"rewards": [0], "players": [PR], "transition_list": [[(1, 0)]],
                         "final_states": [0]},
        "single_final_rew": {"rewards": [3], "players": [P1], "transition_list": [[("a", 0)]],
                             "final_states": [0]},
        "init_dead": {"rewards": [1, 0], "players": [P1, PR],
                      "transition_list": [[("a", 0)], [(1, 1)]], "final_states": [1]},
        "p2_forces_away": {"rewards": [1, 0, 0], "players": [P2, PR, PR],
                           "transition_list": [[("a", 1), ("b", 2)], [(1, 1)], [(1, 2)]],
                           "final_states": [1]},
        "two_separated_dead": {"rewards": [1, 0, 0, 0], "players": [PR, PR, PR, PR],
                               "transition_list": [[(0.25, 1), (0.25, 2), (0.25, 1), (0.25, 3)],
                                                   [(1, 1)], [(1, 2)], [(1, 3)]],
                               "final_states": [2]},
        "two_adjacent_dead_selfloop": {"rewards": [1, 0, 0, 0], "players": [PR, PR, PR, PR],
                                       "transition_list": [[(0.25, 0), (0.25, 1), (0.25, 3), (0.25, 2)],
                                                           [(1, 1)], [(1, 2)], [(1, 3)]],
                                       "final_states": [2]},
        "same_dead_twice": {"rewards": [2, 0, 1], "players": [PR, PR, PR],
                            "transition_list": [[(0.3, 2), (0.3, 2), (0.4, 1)], [(1, 1)], [(1.0, 2)]],
                            "final_states": [1]},
        "all_successors_dead": {"rewards": [2, 0, 1, 1], "players": [P1, PR, PR, PR],
                                "transition_list": [[("a", 1), ("b", 2)], [(1, 1)],
                                                    [(0.5, 3), (0.5, 3)], [(1, 3)]],
                                "final_states": [1]},
        "ties": {"rewards": [1, 1, 1, 0], "players": [P1, P2, PR, PR],
                 "transition_list": [[("a", 1), ("b", 2), ("c", 1)], [("x", 3), ("y", 3)],
                                     [(0.5, 3), (0.5, 3)], [(1, 3)]],
                 "final_states": [3]},
        "tiny_prob": {"rewards": [1, 0, 0], "players": [PR, PR, PR],
                      "transition_list": [[(1e-12, 1), (1 - 1e-12, 2)], [(1, 1)], [(1, 2)]],
                      "final_states": [1]},
        "below_threshold_prob": {"rewards": [1, 0, 0], "players": [PR, PR, PR],
                                 "transition_list": [[(1e-7, 1), (1 - 1e-7, 2)], [(1, 1)], [(1, 2)]],
                                 "final_states": [1]},
        "zero_prob_edge": {"rewards": [1, 0, 0], "players": [PR, PR, PR],
                           "transition_list": [[(0, 1), (1, 2)], [(1, 1)], [(1, 2)]],
                           "final_states": [1]},
        "all_final": {"rewards": [0, 0], "players": [P1, P2],
                      "transition_list": [[("a", 1)], [("a", 0)]], "final_states": [0, 1]},
        "final_repeated": {"rewards": [1, 0], "players": [PR, PR],
                           "transition_list": [[(0.5, 0), (0.5, 1)], [(1, 1)]],
                           "final_states": [1, 1]},
        "final_bool": {"rewards": [1, 0], "players": [PR, PR],
                       "transition_list": [[(0.5, 0), (0.5, 1)], [(1, 1)]],
                       "final_states": [True]},
        "slow_loop": {"rewards": [1, 0], "players": [PR, PR],
                      "transition_list": [[(0.99, 0), (0.01, 1)], [(1, 1)]], "final_states": [1]},
    }
    malformed = {
        "no_finals": {"rewards": [1], "players": [P1], "transition_list": [[("a", 0)]],
                      "final_states": []},
        "empty_game": {"rewards": [], "players": [], "transition_list": [], "final_states": [0]},
        "final_out_of_range": {"rewards": [1], "players": [P1], "transition_list": [[("a", 0)]],
                               "final_states": [1]},
        "final_negative": {"rewards": [1], "players": [P1], "transition_list": [[("a", 0)]],
                           "final_states": [-1]},
        "final_unhashable": {"rewards": [1], "players": [P1], "transition_list": [[("a", 0)]],
                             "final_states": [[0]]},
        "final_float": {"rewards": [1, 0], "players": [P1, PR],
                        "transition_list": [[("a", 1)], [(1, 1)]], "final_states": [1.0]},
        "final_none": {"rewards": [1], "players": [P1], "transition_list": [[("a", 0)]],
                       "final_states": None},
        "missing_transitions": {"rewards": [1, 0], "players": [P1, PR],
                                "transition_list": [[("a", 1)], []], "final_states": [1]},
        "short_transition_list": {"rewards": [1, 0], "players": [P1, PR],
                                  "transition_list": [[("a", 1)]], "final_states": [1]},
        "short_rewards": {"rewards": [1], "players": [P1, PR],
                          "transition_list": [[("a", 1)], [(1, 1)]], "final_states": [1]},
        "negative_reward": {"rewards": [-1, 0], "players": [P1, PR],
                            "transition_list": [[("a", 1)], [(1, 1)]], "final_states": [1]},
        "bad_player": {"rewards": [1, 0], "players": ["P", PR],
                       "transition_list": [[("a", 1)], [(1, 1)]], "final_states": [1]},
        "target_out_of_range": {"rewards": [1, 0], "players": [P1, PR],
                                "transition_list": [[("a", 2)], [(1, 1)]], "final_states": [1]},
        "transition_triple": {"rewards": [1, 0], "players": [P1, PR],
                              "transition_list": [[("a", 1, 1)], [(1, 1)]], "final_states": [1]},
        "transition_list_entry": {"rewards": [1, 0], "players": [P1, PR],
                                  "transition_list": [[["a", 1]], [(1, 1)]], "final_states": [1]},
        "transitions_tuple": {"rewards": [1, 0], "players": [P1, PR],
                              "transition_list": [(("a", 1),), [(1, 1)]], "final_states": [1]},
        "prob_str": {"rewards": [1, 0], "players": [PR, PR],
                     "transition_list": [[("a", 1)], [(1, 1)]], "final_states": [1]},
        "action_int": {"rewards": [1, 0], "players": [P1, PR],
                       "transition_list": [[(1, 1)], [(1, 1)]], "final_states": [1]},
        "target_str": {"rewards": [1, 0], "players": [P1, PR],
                       "transition_list": [[("a", "1")], [(1, 1)]], "final_states": [1]},
        "probs_not_normalised": {"rewards": [1, 0, 0], "players": [PR, PR, PR],
                                 "transition_list": [[(0.7, 1), (0.7, 2)], [(1, 1)], [(1, 2)]],
                                 "final_states": [1]},
        "probs_negative": {"rewards": [1, 0, 0], "players": [PR, PR, PR],
                           "transition_list": [[(-0.5, 1), (1.5, 2)], [(1, 1)], [(1, 2)]],
                           "final_states": [1]},
        "prob_nan": {"rewards": [1, 0, 0], "players": [PR, PR, PR],
                     "transition_list": [[(float("nan"), 1), (0.5, 2)], [(1, 1)], [(1, 2)]],
                     "final_states": [1]},
        "prob_bool": {"rewards": [1, 0], "players": [PR, PR],
                      "transition_list": [[(True, 1)], [(1, 1)]], "final_states": [1]},
        "duplicate_actions": {"rewards": [1, 0, 0], "players": [P1, PR, PR],
                              "transition_list": [[("a", 1), ("a", 2)], [(1, 1)], [(1, 2)]],
                              "final_states": [1]},
        "reward_nan": {"rewards": [float("nan"), 0], "players": [P1, PR],
                       "transition_list": [[("a", 1)], [(1, 1)]], "final_states": [1]},
        "reward_inf": {"rewards": [float("inf"), 0], "players": [P1, PR],
                       "transition_list": [[("a", 1)], [(1, 1)]], "final_states": [1]},
    }
    for group, table in (("boundary", boundary), ("malformed", malformed)):
        for name, game in table.items():
            for prune in (True, False, 1, 0, None, "yes"):
                emit("%s/%s/%r/solve" % (group, name, prune), observe_solve(game, prune))
                emit("%s/%s/%r/pipe" % (group, name, prune), observe_pipeline(game, prune))
            emit("%s/%s/logged" % (group, name), observe_logged(game, True))

    # ---- 3. the batch driver ----------------------------------------------------------
    for name, game in boundary.items():
        emit("run_games/boundary/" + name, observe_run_games({name: game}))
    for name, game in malformed.items():
        emit("run_games/malformed/" + name, observe_run_games({name: game}))
    for name, game in games[::2]:
        emit("run_games/random/" + name, observe_run_games({name: game}))
    emit("run_games/several", observe_run_games(
        {k: boundary[k] for k in ("init_dead", "ties", "p2_forces_away", "two_separated_dead", "all_final")}))
    for fname in ("example_games.py", "paper_games.py", "manual_1_game_a.py",
                  "robot_1_w2_l2_r6_rb10_lb5_tb10_lt0.py",
                  "robot_999132423_w3_l3_r6_rb1_lb2_tb10_lt30.py"):
        path = os.path.join(root, "inputs", fname)
        if os.path.exists(path):
            emit("run_games/file/" + fname, observe_run_games(cr.read_dict_from_file(path)))

    # ---- 4. reverse_dfs.py functions called directly -----------------------------------
    rng = random.Random(7)
    for k in range(150):
        n = rng.randint(1, 12)
        tl = [[(rng.choice(["a", 0.5]), rng.randrange(n)) for _ in range(rng.randint(0, 4))]
              for _ in range(n)]
        finals = [rng.randrange(n) for _ in range(rng.randint(0, 3))]
        if k % 10 == 0:
            finals.append(n + rng.randint(0, 2))     # unknown state -> KeyError
        if k % 17 == 0:
            tl[rng.randrange(n)].append(("a", n + 3))  # edge to an unknown state
        emit("rdfs/%d" % k, {
            "reverse_dfs": guarded(n, lambda: rdfs.reverse_dfs(copy.deepcopy(tl), list(finals))),
            "reverse_dfs_tuple": guarded(n, lambda: rdfs.reverse_dfs(copy.deepcopy(tl), tuple(finals))),
            "rtl": guarded(n, lambda: (lambda d: (type(d).__name__, d, list(d)))(
                rdfs.reverse_transition_list(copy.deepcopy(tl)))),
            "core": guarded(n, lambda: rdfs.reverse_transition_list_core(copy.deepcopy(tl))),
        })
        rev = rdfs.reverse_transition_list(copy.deepcopy(tl))
        for f in finals[:2]:
            def from_one():
                seen = set(rng_seen)
                r = rdfs.reverse_dfs_from(f, rev, seen)
                return (r, sorted(seen))
            for rng_seen in (set(), {0}, {f}):
                emit("rdfs/%d/from/%r/%r" % (k, f, sorted(rng_seen)), guarded(n, from_one))
    pairs_cases = [[], [(1, 2)], [(1, 2), (1, 2), (0, 1)], [(3, 0), (1, 0), (3, 1)],
                   [("x", 1), ("x", 2)], [(1, 2, 3)], [(1,)], [[1, 2]], [((1, 2), 3)], [([1], 2)]]
    for k, pairs in enumerate(pairs_cases):
        emit("rdfs/l2d/%d" % k, guarded(1, lambda: (lambda d: (type(d).__name__, d, list(d)))(
            rdfs.list_of_tuples_to_dict_of_lists(list(pairs)))))
    for k, (d, n) in enumerate([({}, 0), ({}, 3), ({2: [1]}, 3), ({5: [0]}, 2), ({0: [], 1: [1]}, 2),
                                ({1: None}, 2), ({1: [0]}, -1)]):
        def amend():
            src = dict(d)
            r = rdfs.add_missing_states(src, n)
            return (type(r).__name__, r, list(r), r is src)
        emit("rdfs/ams/%d" % k, guarded(1, amend))
    for k, (tl, finals) in enumerate([([], []), ([], [0]), ([[]], [0]), ([[("a", 0)]], [0, 0]),
                                      ([[("a", 1)], [("a", 0)]], [[0]]),
                                      ([[("a", 1)], [("a", 0)]], None),
                                      ([[("a", 1, 2)], []], [0]), ([None], [0]),
                                      ([[("a", 1)], [("b", 1)]], [True]),
                                      ([[("a", 1)], [("b", 1)]], [1.0])]):
        emit("rdfs/odd/%d" % k, guarded(1, lambda: rdfs.reverse_dfs(tl, finals)))

    # ---- 5. node / solver methods called directly --------------------------------------
    rng = random.Random(99)
    values = [0, 0.0, 1, 1.0, 0.5, 1e-7, 1e-12, 0.999999, 0.3, 2, 7.5, -0.0]
    for k in range(200):
        n = rng.randint(1, 7)
        game = random_game(rng, n=n, free=True)
        try:
            states = tad.StochasticGame(**copy.deepcopy(game)).init_states()
        except Exception as e:   # noqa: BLE001
            emit("node/%d" % k, ["init_exc", type(e).__name__, str(e)])
            continue
        for s in states:
            s.reach_probability = rng.choice(values)
            s.expected_rewards = rng.choice(values)
            s.expected_rewards_min_reach = rng.choice(values)
            s.expected_reach_min_rewards = rng.choice(values)
        if k % 5 == 0:
            for s in states:
                if rng.random() < 0.3:
                    s.next_states = []
        rec = {}
        for s in states:
            rec["reach%d" % s.idx] = guarded(n, lambda: s.value_iteration_reach(states))
            rec["rew%d" % s.idx] = guarded(n, lambda: s.value_iteration_rewards(states))
        for s in states:
            if s.player != P2:
                alias = s.next_states
                rec["prune%d" % s.idx] = guarded(n, lambda: (s.prune_paths(states), s.next_states))
                rec["alias%d" % s.idx] = repr(alias)
        solver = tad.Solver(states)
        order = [rng.randrange(n) for _ in range(rng.randint(0, n))]
        for prune in (True, False):
            rec["vir%r" % prune] = guarded(n, lambda: (
                solver.value_iteration_reachability(list(order), prune),
                [s.reach_probability for s in states],
                [s.expected_reach_min_rewards for s in states]))
        rec["vitr"] = guarded(n, lambda: (
            solver.value_iteration_total_rewards(),
            [(s.expected_rewards, s.expected_rewards_min_reach, s.expected_reach_min_rewards)
             for s in states]))
        emit("node/%d" % k, rec)
    for label, fn in (("empty_solver_reach_T", lambda: tad.Solver([]).value_iteration_reachability([], True)),
                      ("empty_solver_reach_F", lambda: tad.Solver([]).value_iteration_reachability([], False)),
                      ("empty_solver_rew", lambda: tad.Solver([]).value_iteration_total_rewards()),
                      ("solver_thr0", lambda: tad.Solver([], 0)),
                      ("solver_thr_neg", lambda: tad.Solver([], -1)),
                      ("solver_thr_nan", lambda: tad.Solver([], float("nan"))),
                      ("reach_bad_index", lambda: tad.Solver(
                          tad.StochasticGame(**copy.deepcopy(boundary["ties"])).init_states()
                      ).value_iteration_reachability([9], True)),
                      ):
        emit("solver/" + label, guarded(1, fn))

    sys.stdout.write("\n".join(out) + "\n")


# --------------------------------------------------------------------------- driver
def run_worker(root):
    return subprocess.Popen([sys.executable, os.path.abspath(__file__), "--worker", os.path.abspath(root)],
                            stdout=subprocess.PIPE, stderr=subprocess.PIPE, text=True,
                            env=dict(os.environ, PYTHONHASHSEED="0", PYTHONDONTWRITEBYTECODE="1"))


def main():
    if len(sys.argv) == 3 and sys.argv[1] == "--worker":
        worker(sys.argv[2])
        return 0
    if len(sys.argv) != 3:
        print(__doc__)
        return 2
    procs = [run_worker(sys.argv[1]), run_worker(sys.argv[2])]
    outs = []
    for p in procs:
        o, e = p.communicate()
        if p.returncode != 0:
            print("FAIL: worker crashed\n" + e[-3000:])
            return 1
        outs.append(o.splitlines())
    patched, clean = outs
    n_diff = 0
    if len(patched) != len(clean):
        print("different number of cases: %d vs %d" % (len(patched), len(clean)))
        n_diff += 1
    stats = {"ok": 0, "exc": 0, "budget": 0, "wallclock": 0}
    for a, b in zip(patched, clean):
        for key in stats:
            stats[key] += b.count('["%s"' % key)
        if a != b:
            n_diff += 1
            if n_diff <= 8:
                print("DIFF\n  patched: %s\n  clean  : %s" % (a[:1500], b[:1500]))
    print("cases: %d  clean-tree outcomes: %s" % (len(clean), stats))
    if n_diff:
        print("FAIL (%d differing cases)" % n_diff)
        return 1
    print("PASS")
    return 0


if __name__ == "__main__":
    sys.exit(main())
