#!/venv/bin/python
"""Equivalence harness for refactor twins of roberta_generator.py and
stochastic_game_from_roborta_board.py.

Usage:  /venv/bin/python equiv.py <repo-root-A> <repo-root-B>

For each root a worker subprocess is started (this same file, `--worker ROOT`).
The worker imports the code from ROOT, runs a fixed catalogue of scenarios
(hand-written edge cases plus seeded random ones, including malformed inputs)
inside a private temporary directory and prints one line per observation:
return values, exception type + message, text written to files / stdout /
stderr, directory listings.  The parent compares the two transcripts line by
line and prints SAME (exit 0) or the first difference (exit 1).
"""
import contextlib
import io
import os
import random
import subprocess
import sys
import tempfile

FOCUS = "variant 5: check_input, file names, main, manual board script"


# --------------------------------------------------------------------------
# worker side
# --------------------------------------------------------------------------
_OUT = []


def emit(tag, value):
    _OUT.append(tag + " :: " + value.replace("\\", "\\\\").replace("\n", "\\n"))


def observe(tag, fn, *args, **kwargs):
    """Run fn and record its result or its exception (type and message)."""
    try:
        res = fn(*args, **kwargs)
    except SystemExit as exc:
        emit(tag, "SystemExit(" + repr(exc.code) + ")")
        return None
    except BaseException as exc:  # noqa: BLE001 - we want everything
        emit(tag, "EXC " + type(exc).__name__ + ": " + str(exc))
        return None
    emit(tag, "RET " + repr(res))
    return res


def random_board(rng, length, width, arrows=(0, 1, 2, 3), tiles=(0, 1), max_reward=6):
    moves = [[rng.choice(arrows) for _ in range(width)] for _ in range(length)]
    rewards = [[rng.randint(0, max_reward) for _ in range(width)] for _ in range(length)]
    loose = [[rng.choice(tiles) for _ in range(width)] for _ in range(length)]
    return moves, rewards, loose


def hand_boards():
    boards = []
    # 1x1 boards with every arrow and tile kind
    for a in (0, 1, 2, 3):
        for t in (0, 1):
            boards.append(([[a]], [[a + t]], [[t]]))
    # single row, single column
    boards.append(([[0, 1, 2, 3, 1]], [[0, 1, 2, 3, 4]], [[1, 0, 1, 0, 1]]))
    boards.append(([[0], [1], [2], [3]], [[6], [0], [3], [1]], [[0], [1], [1], [0]]))
    # 2x2 mixtures
    boards.append(([[3, 3], [3, 3]], [[0, 0], [0, 0]], [[1, 1], [1, 1]]))
    boards.append(([[1, 1], [1, 1]], [[5, 4], [3, 2]], [[0, 0], [0, 0]]))
    boards.append(([[0, 2], [2, 0]], [[1, 2], [3, 4]], [[1, 0], [0, 1]]))
    # the README style 4x4
    boards.append(([[1, 0, 2, 3], [3, 1, 1, 0], [2, 2, 0, 1], [1, 3, 1, 1]],
                   [[0, 1, 2, 5], [1, 0, 0, 2], [3, 1, 0, 0], [0, 0, 4, 1]],
                   [[0, 1, 0, 0], [1, 0, 0, 1], [0, 0, 1, 0], [1, 1, 0, 0]]))
    return boards


def malformed_boards():
    boards = []
    # arrow outside the allowed set
    boards.append(([[4, 1]], [[1, 1]], [[0, 0]]))
    boards.append(([[-1, 1], [1, 5]], [[1, 1], [2, 2]], [[0, 0], [1, 1]]))
    # loose flag outside {0,1}
    boards.append(([[1, 1]], [[1, 1]], [[2, 0]]))
    boards.append(([[1, 1]], [[1, 1]], [[0, -1]]))
    # ragged rows
    boards.append(([[1, 1], [1]], [[1, 1], [2, 2]], [[0, 0], [1, 1]]))
    boards.append(([[1, 1], [1, 0]], [[1, 1], [2]], [[0, 0], [1, 1]]))
    boards.append(([[1, 1], [1, 0]], [[1, 1], [2, 3]], [[0, 0], [1]]))
    # float / string / None entries
    boards.append(([[1, 1]], [[1.7, 2.2]], [[0, 1]]))
    boards.append(([[1, 1]], [["x", 2]], [[0, 1]]))
    boards.append(([[1, None]], [[1, 2]], [[0, 1]]))
    boards.append(([[1, 1]], [[1, 2]], [[None, 1]]))
    boards.append(([[True, False]], [[1, 2]], [[True, False]]))
    # empty
    boards.append(([], [], []))
    boards.append(([[]], [[]], [[]]))
    return boards


def run_gen_board(rg):
    rng = random.Random(1001)
    cases = []
    for seed in (0, 1, 2, 47, 999132423, 2**40 + 3):
        for (l, w) in ((1, 1), (1, 4), (4, 1), (3, 3), (2, 7)):
            for fd in (False, True):
                cases.append((seed, l, w, 0.3, 6, fd))
    cases += [(5, 3, 3, 0.01, 1, False), (5, 3, 3, 0.99, 1, True), (5, 3, 3, 0.5, 20, True),
              (9, 2, 2, 0.0, 6, False), (9, 2, 2, 1.0, 6, True), (9, 0, 3, 0.3, 6, True),
              (9, 3, 0, 0.3, 6, False), (9, -1, 3, 0.3, 6, False)]
    for _ in range(300):
        cases.append((rng.randrange(0, 10**6), rng.randint(1, 8), rng.randint(1, 8),
                      rng.choice([0.01, 0.1, 0.3, 0.5, 0.77, 0.99, rng.random()]),
                      rng.randint(1, 12), rng.random() < 0.5))
    for n, (seed, l, w, p, m, fd) in enumerate(cases):
        tag = "gen_rnd_board[%d]%r" % (n, (seed, l, w, p, m, fd))
        observe(tag, rg.gen_rnd_board, seed, l, w, p, m, fd)
        # the number of draws consumed must be the same too
        emit(tag + ".next", repr(random.random()))
    # malformed
    observe("gen_rnd_board.fd_w0", rg.gen_rnd_board, 3, 2, 0, 0.3, 6, True)
    observe("gen_rnd_board.strp", rg.gen_rnd_board, 3, 2, 2, "x", 6, False)
    observe("gen_rnd_board.nonem", rg.gen_rnd_board, 3, 2, 2, 0.3, None, False)
    observe("gen_rnd_board.bigm", rg.gen_rnd_board, 3, 1, 1, 0.3, 2000, False)
    observe("gen_rnd_board.defaults", rg.gen_rnd_board, 3, 2, 2, 0.3)
    observe("gen_rnd_board.kw", rg.gen_rnd_board, seed=3, length=2, width=3,
            prob_loose_tile=0.4, max_reward=3, force_down=True)
    # get_random_moves on its own
    for n in range(60):
        l, w, fd = rng.randint(0, 6), rng.randint(1, 6), rng.random() < 0.5
        random.seed(n)
        observe("get_random_moves[%d]%r" % (n, (l, w, fd)), rg.get_random_moves, l, w, fd)
        emit("get_random_moves[%d].next" % n, repr(random.random()))
    random.seed(1)
    observe("get_random_moves.w0fd", rg.get_random_moves, 2, 0, True)
    random.seed(1)
    observe("get_random_moves.w0", rg.get_random_moves, 2, 0, False)


def builder_calls(rg, tag, length, width, moves, loose):
    n = length * width if isinstance(length, int) and isinstance(width, int) else 7
    for (o_r, o_y) in ((n, 2 * n), (8 * n, 9 * n), (0, 0)):
        observe(tag + ".p2(%d,%d)" % (o_r, o_y), rg.player_two_transitions,
                length, width, moves, o_r, o_y)
    observe(tag + ".p2kw", rg.player_two_transitions, length, width, moves,
            offset_r=n, offset_y=2 * n)
    for ws in (None, 0, 4 * n + 1, 1):
        observe(tag + ".p1down(ws=%r)" % (ws,), rg.player_one_down_transitions,
                length, width, 3 * n, ws)
        observe(tag + ".p1downkw(ws=%r)" % (ws,), rg.player_one_down_transitions,
                length, width, offset=3 * n, winning_state=ws)
    observe(tag + ".p1down.default", rg.player_one_down_transitions, length, width, 5 * n)
    for (o_l, o_r) in ((3 * n, 3 * n), (5 * n, 6 * n), (0, 0), (6 * n, 5 * n)):
        observe(tag + ".p1lr(%d,%d)" % (o_l, o_r), rg.player_one_left_right_transitions,
                length, width, moves, o_l, o_r)
    observe(tag + ".p1lrkw", rg.player_one_left_right_transitions, length, width, moves,
            offset_l=3 * n, offset_r=3 * n)
    observe(tag + ".p1dlr", rg.player_one_down_left_right_transitions,
            length, width, moves, 5 * n, 6 * n, 7 * n)
    observe(tag + ".p1dlrkw", rg.player_one_down_left_right_transitions,
            length, width, moves, offset_d=5 * n, offset_l=6 * n, offset_r=7 * n)
    for p in (0.1, 0.25, 0.5, 0.999, 1 / 3):
        observe(tag + ".tile(%r)" % p, rg.prob_tile_break_transitions,
                length, width, p, loose, 0, 4 * n)
        observe(tag + ".rdown(%r)" % p, rg.prob_robot_down_break_transitions,
                length, width, p, 3 * n, 7 * n + 1)
        observe(tag + ".rleft(%r)" % p, rg.prob_robot_left_break_transitions,
                length, width, p, 3 * n)
        observe(tag + ".rright(%r)" % p, rg.prob_robot_right_break_transitions,
                length, width, p, 3 * n)
        observe(tag + ".light(%r)" % p, rg.prob_light_break_transitions,
                length, width, p, n, 3 * n)
    observe(tag + ".tilekw", rg.prob_tile_break_transitions, length, width, 0.2, loose,
            offset=0, loosing_state=4 * n)
    observe(tag + ".rdownkw", rg.prob_robot_down_break_transitions, length, width, 0.2,
            offset=4 * n, winning_state=10 * n + 1)
    observe(tag + ".rleftkw", rg.prob_robot_left_break_transitions, length, width, 0.2,
            offset=4 * n)
    observe(tag + ".rrightkw", rg.prob_robot_right_break_transitions, length, width, 0.2,
            offset=4 * n)
    observe(tag + ".lightkw", rg.prob_light_break_transitions, length, width, 0.2,
            offset_ok=n, offset_break=3 * n)


def run_builders(rg):
    rng = random.Random(2002)
    for n, (moves, rewards, loose) in enumerate(hand_boards()):
        builder_calls(rg, "builders.hand[%d]" % n, len(moves), len(moves[0]), moves, loose)
    for n in range(120):
        l, w = rng.randint(1, 6), rng.randint(1, 6)
        arrows = rng.choice([(0, 1, 2), (0, 1, 2, 3), (3,), (1,), (0, 2)])
        moves, rewards, loose = random_board(rng, l, w, arrows)
        builder_calls(rg, "builders.rnd[%d]" % n, l, w, moves, loose)
    for n, (moves, rewards, loose) in enumerate(malformed_boards()):
        l = len(moves)
        w = len(moves[0]) if moves else 0
        builder_calls(rg, "builders.bad[%d]" % n, l, w, moves, loose)
    # dimensions that disagree with the board / odd dimensions
    moves, rewards, loose = hand_boards()[-1]
    builder_calls(rg, "builders.dim(5,4)", 5, 4, moves, loose)
    builder_calls(rg, "builders.dim(4,5)", 4, 5, moves, loose)
    builder_calls(rg, "builders.dim(2,2)", 2, 2, moves, loose)
    builder_calls(rg, "builders.dim(0,4)", 0, 4, moves, loose)
    builder_calls(rg, "builders.dim(4,0)", 4, 0, moves, loose)
    builder_calls(rg, "builders.dim(-1,4)", -1, 4, moves, loose)
    builder_calls(rg, "builders.dim(None,4)", None, 4, moves, loose)
    builder_calls(rg, "builders.dim(4,'a')", 4, "a", moves, loose)


def writer_calls(rg, tag, length, width, moves, rewards, loose, pt, pr, pl):
    def with_buffer(fn, *args):
        buf = io.StringIO()
        try:
            fn(buf, *args)
        finally:
            emit(tag + "." + fn.__name__ + ".text", buf.getvalue())
        return None
    observe(tag + ".preamble", with_buffer, rg.write_preamble, length, width, moves, rewards,
            loose)
    observe(tag + ".A", with_buffer, rg.write_robot_A, length, width, moves, rewards, loose, pt)
    observe(tag + ".B", with_buffer, rg.write_robot_B, length, width, moves, rewards, loose, pt,
            pr)
    observe(tag + ".C", with_buffer, rg.write_robot_C, length, width, moves, rewards, loose, pt,
            pr, pl)
    name = "out_" + "".join(c if c.isalnum() else "_" for c in tag) + ".py"
    observe(tag + ".write_robots", rg.write_robots, name, length, width, moves, rewards, loose,
            pt, pr, pl)
    if os.path.exists(name):
        with open(name) as handle:
            emit(tag + ".file", handle.read())
    else:
        emit(tag + ".file", "<absent>")


def run_writers(rg):
    rng = random.Random(3003)
    for n, (moves, rewards, loose) in enumerate(hand_boards()):
        writer_calls(rg, "writers.hand[%d]" % n, len(moves), len(moves[0]), moves, rewards, loose,
                     0.1, 0.1, 0.05)
    for n in range(80):
        l, w = rng.randint(1, 5), rng.randint(1, 5)
        arrows = rng.choice([(0, 1, 2), (0, 1, 2, 3)])
        moves, rewards, loose = random_board(rng, l, w, arrows, max_reward=rng.randint(1, 9))
        pt, pr, pl = (rng.choice([0.01, 0.1, 0.25, 0.5, 0.9, rng.random()]) for _ in range(3))
        writer_calls(rg, "writers.rnd[%d]" % n, l, w, moves, rewards, loose, pt, pr, pl)
    for n, (moves, rewards, loose) in enumerate(malformed_boards()):
        l = len(moves)
        w = len(moves[0]) if moves else 0
        writer_calls(rg, "writers.bad[%d]" % n, l, w, moves, rewards, loose, 0.1, 0.2, 0.3)
    moves, rewards, loose = hand_boards()[-1]
    writer_calls(rg, "writers.dim(5,4)", 5, 4, moves, rewards, loose, 0.1, 0.2, 0.3)
    writer_calls(rg, "writers.dim(2,3)", 2, 3, moves, rewards, loose, 0.1, 0.2, 0.3)
    writer_calls(rg, "writers.strprob", 4, 4, moves, rewards, loose, "a", 0.2, 0.3)
    writer_calls(rg, "writers.noneprob", 4, 4, moves, rewards, loose, 0.1, None, 0.3)
    writer_calls(rg, "writers.noneprob2", 4, 4, moves, rewards, loose, 0.1, 0.2, None)
    # unwritable targets
    observe("write_robots.nodir", rg.write_robots, "no_such_dir/x.py", 4, 4, moves, rewards,
            loose, 0.1, 0.2, 0.3)
    os.mkdir("a_directory")
    observe("write_robots.isdir", rg.write_robots, "a_directory", 4, 4, moves, rewards,
            loose, 0.1, 0.2, 0.3)
    # a file left behind by a failing write (flush on close / garbage collection)
    observe("write_robots.partial", rg.write_robots, "partial.py", 1, 2, [[1, 1]], [[1, 1]],
            [[0, 0]], 0.1, "bad", 0.3)
    import gc
    gc.collect()
    with open("partial.py") as handle:
        emit("write_robots.partial.file", handle.read())
    emit("writers.listing", repr(sorted(os.listdir("."))))


def run_check_input(rg):
    rng = random.Random(4004)
    ints = [-5, -1, 0, 1, 3, 10**9, True, False, 2.5, -0.5]
    probs = [-1, -0.1, 0, 0.0, 1e-12, 0.01, 0.5, 0.99, 1 - 1e-12, 1, 1.0, 1.5, 2,
             float("inf"), float("-inf"), float("nan"), True, False]
    good = dict(seed=0, width=3, length=3, prob_robot_break=0.1, prob_light_break=0.1,
                prob_loose_tile=0.3, prob_tile_break=0.1, max_reward=6)
    order = ["seed", "width", "length", "prob_robot_break", "prob_light_break",
             "prob_loose_tile", "prob_tile_break", "max_reward"]
    observe("check_input.good", rg.check_input, **good)
    # one-at-a-time sweeps
    for key in order:
        values = probs if key.startswith("prob") else ints
        for v in values + [None, "3", [1], 1j]:
            args = dict(good)
            args[key] = v
            observe("check_input.%s=%r" % (key, v), rg.check_input, **args)
            observe("check_input.pos.%s=%r" % (key, v), rg.check_input,
                    *[args[k] for k in order])
    # pairs: which complaint comes first
    for a in range(len(order)):
        for b in range(a + 1, len(order)):
            for va in (-1, None):
                for vb in (-1, None, 7):
                    args = dict(good)
                    args[order[a]] = va
                    args[order[b]] = vb
                    observe("check_input.pair(%s=%r,%s=%r)" % (order[a], va, order[b], vb),
                            rg.check_input, **args)
    # seeded random
    for n in range(400):
        args = [rng.choice(ints), rng.choice(ints), rng.choice(ints), rng.choice(probs),
                rng.choice(probs), rng.choice(probs), rng.choice(probs), rng.choice(ints)]
        if rng.random() < 0.1:
            args[rng.randrange(8)] = rng.choice([None, "x"])
        observe("check_input.rnd[%d]%r" % (n, tuple(args)), rg.check_input, *args)
    observe("check_input.too_few", rg.check_input, 1, 2, 3)
    # prob_to_str
    for k in range(0, 101):
        observe("prob_to_str(%d/100)" % k, rg.prob_to_str, k / 100)
        observe("prob_to_str(%d*0.01)" % k, rg.prob_to_str, k * 0.01)
    for k in range(0, 2001, 7):
        observe("prob_to_str(%d/2000)" % k, rg.prob_to_str, k / 2000)
    for v in (0.005, 0.015, 0.025, 0.125, 0.135, 0.995, 0.9949, 1e-9, 1, 0, -0.2, 2.5,
              float("nan"), float("inf"), None, "0.3", True):
        observe("prob_to_str(%r)" % (v,), rg.prob_to_str, v)
    for n in range(300):
        v = rng.random()
        observe("prob_to_str(rnd %r)" % v, rg.prob_to_str, v)


def run_with_argv(fn, argv):
    out, err = io.StringIO(), io.StringIO()
    old = sys.argv
    sys.argv = ["roberta_generator.py"] + list(argv)
    try:
        with contextlib.redirect_stdout(out), contextlib.redirect_stderr(err):
            return fn()
    finally:
        sys.argv = old
        emit("argv%r.stdout" % (argv,), out.getvalue())
        emit("argv%r.stderr" % (argv,), err.getvalue())


def snapshot(tag):
    listing = []
    for base, dirs, files in os.walk("."):
        dirs.sort()
        for f in sorted(files):
            listing.append(os.path.join(base, f))
    emit(tag + ".listing", repr(listing))
    for path in listing:
        with open(path) as handle:
            emit(tag + ".content[" + path + "]", handle.read())


def run_parser_and_main(rg):
    rng = random.Random(5005)
    parser = rg.init_parser()
    emit("parser.help", parser.format_help())
    emit("parser.usage", parser.format_usage())
    emit("parser.prog", repr((parser.prog, parser.description)))
    emit("parser.actions", repr([(a.option_strings, a.dest, a.default, a.type, a.required,
                                  a.help, a.nargs, a.const) for a in parser._actions]))
    argvs = [[], ["-s", "5"], ["--seed", "7", "--width", "2", "--length", "4"],
             ["-w", "1", "-l", "1"], ["-p", "0.25", "-q", "0.05", "-r", "0.5", "-t", "0.9"],
             ["-m", "3", "-f"], ["--force_down"], ["--max_reward", "1", "--prob_loose_tile", "0.01"],
             ["-s", "-1"], ["-w", "0"], ["-l", "-3"], ["-p", "1"], ["-q", "0"], ["-r", "1.5"],
             ["-t", "-0.1"], ["-m", "0"], ["-s", "x"], ["-p", "abc"], ["--nope"], ["-h"],
             ["-f", "1"], ["-s"], ["-p", "nan"], ["-p", "inf"], ["-s", "1.5"],
             ["-s", "1", "-s", "2"], ["--se", "3"], ["-w", "2", "extra"]]

    def parse(argv):
        ns = rg.init_parser().parse_args(argv)
        return sorted(vars(ns).items())
    for argv in argvs:
        observe("parse%r" % (argv,), lambda a=argv: run_with_argv(lambda: parse(a), a))

    # main(): with and without an inputs/ directory
    os.mkdir("nodir")
    os.chdir("nodir")
    observe("main.noinputs", run_with_argv, rg.main, ["-s", "3"])
    observe("main.noinputs.bad", run_with_argv, rg.main, ["-s", "-3"])
    snapshot("main.noinputs")
    os.chdir("..")
    os.mkdir("withdir")
    os.chdir("withdir")
    os.mkdir("inputs")
    main_argvs = list(argvs)
    main_argvs += [["-s", "1", "-w", "2", "-l", "2", "-p", "0.1", "-q", "0.05", "-t", "0.001"],
                   ["-s", "999132423", "-p", "0.01", "-q", "0.02"],
                   ["-s", "999132423", "-p", "0.01", "-q", "0.02", "-f"],
                   ["-p", "0.29", "-q", "0.57", "-r", "0.58", "-t", "0.07"],
                   ["-p", "0.005", "-q", "0.015", "-r", "0.025", "-t", "0.995"],
                   ["-s", "7", "-w", "4", "-l", "2", "-m", "4", "-f"]]
    for k in range(1, 100, 6):
        main_argvs.append(["-p", str(k / 100), "-q", str((100 - k) / 100),
                           "-r", str(k / 100), "-t", str(((k * 7) % 99 + 1) / 100)])
    for _ in range(150):
        argv = ["-s", str(rng.randrange(0, 10**5)), "-w", str(rng.randint(1, 5)),
                "-l", str(rng.randint(1, 5)), "-m", str(rng.randint(1, 9)),
                "-p", repr(rng.choice([rng.randint(1, 99) / 100, rng.random()])),
                "-q", repr(rng.choice([rng.randint(1, 99) / 100, rng.random()])),
                "-r", repr(rng.choice([rng.randint(1, 99) / 100, rng.random()])),
                "-t", repr(rng.choice([rng.randint(1, 99) / 100, rng.random()]))]
        if rng.random() < 0.5:
            argv.append("-f")
        if rng.random() < 0.15:
            argv[2 * rng.randrange(8) + 1] = rng.choice(["0", "-1", "1", "2"])
        main_argvs.append(argv)
    for n, argv in enumerate(main_argvs):
        before = set(os.listdir("inputs"))
        observe("main[%d]%r" % (n, argv), run_with_argv, rg.main, argv)
        emit("main[%d].new" % n, repr(sorted(set(os.listdir("inputs")) - before)))
    snapshot("main.withdir")
    os.chdir("..")


def run_manual(sg):
    rng = random.Random(6006)
    for m in ([[1]], [[1, 5], [3, 2]], [[0, 0]], [[-1, -2]], [[2.5, 1]], [[3], [4, 9], [1]],
              [], [[]], [[1], []], [[1, "a"]], [[None]], ((1, 2), (3, 0)), [[True, False]]):
        observe("get_max_from_matrix(%r)" % (m,), sg.get_max_from_matrix, m)
    os.mkdir("manual_noinputs")
    os.chdir("manual_noinputs")
    moves, rewards, loose = hand_boards()[-1]
    observe("create_sg.noinputs", sg.create_sg_from_board, moves, rewards, loose, 0.1, 0.1, 0.1)
    snapshot("create_sg.noinputs")
    os.chdir("..")
    os.mkdir("manual")
    os.chdir("manual")
    os.mkdir("inputs")
    n = 0
    for (moves, rewards, loose) in hand_boards() + malformed_boards():
        for probs in ((0.1, 0.1, 0.1), (0.25, 0.05, 0.5), (0.005, 0.995, 0.125)):
            before = set(os.listdir("inputs"))
            observe("create_sg.hand[%d]" % n, sg.create_sg_from_board, moves, rewards, loose,
                    *probs)
            new = sorted(set(os.listdir("inputs")) - before)
            emit("create_sg.hand[%d].new" % n, repr(new))
            n += 1
        snapshot("create_sg.hand.upto[%d]" % n)
    for k in range(200):
        l, w = rng.randint(1, 5), rng.randint(1, 5)
        arrows = rng.choice([(0, 1, 2), (0, 1, 2, 3)])
        moves, rewards, loose = random_board(rng, l, w, arrows, max_reward=rng.randint(1, 9))
        probs = [rng.choice([rng.randint(1, 99) / 100, rng.random()]) for _ in range(3)]
        observe("create_sg.rnd[%d]%r" % (k, (moves, rewards, loose, probs)),
                sg.create_sg_from_board, moves, rewards, loose, *probs)
        emit("create_sg.rnd[%d].listing" % k, repr(sorted(os.listdir("inputs"))))
    observe("create_sg.kw", sg.create_sg_from_board, moves=[[1]], rewards=[[2]],
            loose_tiles=[[1]], prob_robot_break=0.3, prob_light_break=0.2, prob_tile_break=0.4)
    snapshot("create_sg.final")
    os.chdir("..")


def run_script(root):
    """Run the generator as a script (python roberta_generator.py ...)."""
    os.mkdir("script")
    os.mkdir("script/inputs")
    for argv in ([], ["-s", "2", "-f"], ["-w", "0"], ["-h"], ["-p", "0.07", "-t", "0.5"]):
        proc = subprocess.run([sys.executable, os.path.join(root, "roberta_generator.py")] + argv,
                              cwd="script", capture_output=True, text=True)
        emit("script%r.rc" % (argv,), repr(proc.returncode))
        emit("script%r.stdout" % (argv,), proc.stdout)
        # tracebacks contain absolute paths / line numbers: keep the last line only
        emit("script%r.stderr.last" % (argv,), (proc.stderr.strip().splitlines() or [""])[-1])
    os.chdir("script")
    snapshot("script")
    os.chdir("..")


def worker(root):
    root = os.path.abspath(root)
    sys.path.insert(0, root)
    sys.dont_write_bytecode = True
    workdir = tempfile.mkdtemp(prefix="equiv_R4_")
    os.chdir(workdir)
    try:
        import roberta_generator as rg
        import stochastic_game_from_roborta_board as sg
        assert os.path.dirname(os.path.abspath(rg.__file__)) == root, rg.__file__
        assert os.path.dirname(os.path.abspath(sg.__file__)) == root, sg.__file__
        emit("constants", repr((rg.MOVE_SINTAX, rg.TILE_SYNTAX, rg.FOUR_SPACES, rg.EIGHT_SPACES,
                                rg.TWELVE_SPACES, rg.SIXTEEN_SPACES)))
        for name in ("gen_rnd_board", "get_random_moves", "player_two_transitions",
                     "player_one_down_transitions", "player_one_left_right_transitions",
                     "prob_tile_break_transitions", "write_preamble", "write_robot_A",
                     "prob_robot_down_break_transitions", "prob_robot_left_break_transitions",
                     "prob_robot_right_break_transitions", "write_robot_B",
                     "player_one_down_left_right_transitions", "prob_light_break_transitions",
                     "write_robot_C", "write_robots", "init_parser", "check_input",
                     "prob_to_str", "main"):
            emit("public." + name, repr(callable(getattr(rg, name, None))))
        for name in ("get_max_from_matrix", "create_sg_from_board", "write_robots",
                     "prob_to_str"):
            emit("public.sg." + name, repr(callable(getattr(sg, name, None))))
        run_gen_board(rg)
        run_builders(rg)
        run_writers(rg)
        run_check_input(rg)
        run_parser_and_main(rg)
        run_manual(sg)
        run_script(root)
    finally:
        os.chdir("/")
        import shutil
        shutil.rmtree(workdir, ignore_errors=True)
    sys.stdout.write("\n".join(_OUT) + "\n")


# --------------------------------------------------------------------------
# parent side
# --------------------------------------------------------------------------
def transcript(root):
    env = dict(os.environ)
    env["PYTHONDONTWRITEBYTECODE"] = "1"
    env["PYTHONHASHSEED"] = "0"
    env.pop("PYTHONPATH", None)
    proc = subprocess.run([sys.executable, os.path.abspath(__file__), "--worker", root],
                          capture_output=True, text=True, env=env)
    if proc.returncode != 0:
        print("worker for %s failed (rc=%d):\n%s" % (root, proc.returncode, proc.stderr[-3000:]))
        sys.exit(2)
    return proc.stdout.splitlines()


def main():
    if len(sys.argv) == 3 and sys.argv[1] == "--worker":
        worker(sys.argv[2])
        return 0
    if len(sys.argv) != 3:
        print(__doc__)
        return 2
    lines_a = transcript(sys.argv[1])
    lines_b = transcript(sys.argv[2])
    for n, (a, b) in enumerate(zip(lines_a, lines_b)):
        if a != b:
            print("DIFFERENT at observation %d" % n)
            print("  A: " + a[:1500])
            print("  B: " + b[:1500])
            return 1
    if len(lines_a) != len(lines_b):
        print("DIFFERENT number of observations: %d vs %d" % (len(lines_a), len(lines_b)))
        return 1
    print("SAME (%d observations, focus: %s)" % (len(lines_a), FOCUS))
    return 0


if __name__ == "__main__":
    sys.exit(main())
