#!/usr/bin/env python
"""
Equivalence test for property C13 ("results do not depend on how the game is
written down").

usage:  python equiv_test.py <path-to-patched-root> <path-to-clean-root>

The two trees are loaded in separate subprocesses (they have the same module
names).  Both solve exactly the same corpus:

  * several hundred random well-formed stopping games (cycles through
    probabilistic states, several final states, dead sinks, dead regions, value
    ties, duplicated action names, width-1 states, one-state games), each one
    in three presentations: as generated, and twice transformed by a random
    state permutation fixing state 0 + a shuffle of every transition list + an
    injective renaming of the actions; both pruning modes;
  * unsolvable games (initial state cannot reach a final state), games whose
    only final state is the initial state, malformed boundary games;
  * the small/medium boards shipped in inputs/ of the clean tree and boards
    produced by the clean tree's generator (width 1, length 1, force_down on and
    off), again also in a transformed presentation;
  * node level calls (one Bellman step, tie collectors, the pruning filters,
    remove_path, Player 1 restriction by action names) on random value tables.

Everything solve() returns (strategies, rewards, probabilities, iteration
counts, the two secondary value vectors) or the error message is compared with
repr(), i.e. bit for bit.  On top of that the C13 relation itself (original
versus transformed presentation) is evaluated on the results of each tree and
the verdicts must coincide.

Prints PASS and exits 0 when no difference is found, FAIL (exit 1) otherwise.
"""
import ast
import json
import os
import random
import subprocess
import sys
import tempfile

P1, P2, PR = "Player 1", "Player 2", "Probabilistic"
N_RANDOM_GAMES = 450
N_NODE_GAMES = 150
MAX_INPUT_STATES = 130
SWEEP_BUDGET = 3000      # value-iteration sweeps allowed per solve() (deterministic guard)


# --------------------------------------------------------------------------
# corpus
# --------------------------------------------------------------------------
def random_game(rng):
    """A well-formed *stopping* game.

    Terminal states (final ones and dead sinks) are absorbing with reward 0.
    A player state only moves to a state with a larger index or to a
    probabilistic state; every probabilistic state has a branch of probability
    >= 0.1 into a terminal state.  Hence every infinite play passes through
    probabilistic states infinitely often and is absorbed with probability 1.
    """
    n_inner = rng.choice([1, 1, 2, 3, 4, 5, 6, 7, 8, 10, 12, 16])
    n_final = rng.choice([1, 1, 2, 3])
    n_dead = rng.choice([0, 1, 1, 2])
    n = n_inner + n_final + n_dead
    terminals = list(range(n_inner, n))
    finals = terminals[:n_final]
    players = [rng.choice([P1, P2, PR]) for _ in range(n_inner)]
    if rng.random() < 0.3:
        players[0] = PR
    prob_states = [i for i in range(n_inner) if players[i] == PR]
    actions = ["a", "b", "c", "d", "e", "left", "right"]
    grid = rng.choice([2, 4, 5, 10])          # coarse probabilities => value ties
    max_reward = rng.choice([0, 1, 3, 6])
    rewards, transitions = [], []
    for i in range(n_inner):
        rewards.append(rng.randint(0, max_reward))
        if players[i] == PR:
            k = rng.choice([1, 2, 2, 3, 4])
            weights = [rng.randint(1, grid) for _ in range(k)]
            total = sum(weights)
            targets = [rng.choice(terminals)]
            targets += [rng.randrange(n) for _ in range(k - 1)]
            if rng.random() < 0.15 and k > 1:
                targets[1] = targets[0]       # the same successor twice
            # the terminal branch keeps at least 0.1
            if weights[0] / total < 0.1:
                weights[0] = total
                total = sum(weights)
            if rng.random() < 0.5:
                trans = [(w / total, t) for w, t in zip(weights, targets)]
            else:
                trans = [(round(w / total, 3), t) for w, t in zip(weights, targets)]
                rest = 1 - sum(p for p, _ in trans[1:])
                trans[0] = (rest, trans[0][1])
            if k == 1:
                trans = [(1, targets[0])]      # int probability as in the boards
            rng.shuffle(trans)
        else:
            allowed = list(range(i + 1, n)) + prob_states
            k = rng.choice([1, 2, 2, 3, 4])
            names = rng.sample(actions, min(k, len(actions)))
            if rng.random() < 0.04 and k > 1:
                names[1] = names[0]            # duplicated action name
            trans = [(names[j], rng.choice(allowed)) for j in range(k)]
        transitions.append(trans)
    for t in terminals:
        rewards.append(0)
        kind = rng.choice([P1, P2, PR])
        players.append(kind)
        transitions.append([(1, t)] if kind == PR else [(rng.choice(actions), t)])
    return {"rewards": rewards, "players": players,
            "transition_list": transitions, "final_states": finals}


def transform(game, rng):
    """Another presentation of the same game + the maps needed to compare."""
    n = len(game["players"])
    perm = list(range(1, n))
    rng.shuffle(perm)
    perm = [0] + perm                              # new index of old state i
    names = sorted({a for trs, pl in zip(game["transition_list"], game["players"])
                    if pl != PR and isinstance(trs, list)
                    for a, _ in trs})
    fresh = ["act%02d" % i for i in range(len(names))]
    rng.shuffle(fresh)
    rename = dict(zip(names, fresh))
    rewards = [None] * n
    players = [None] * n
    transitions = [None] * n
    for old in range(n):
        new = perm[old]
        rewards[new] = game["rewards"][old]
        players[new] = game["players"][old]
        trs = []
        for label, target in game["transition_list"][old]:
            if game["players"][old] != PR:
                label = rename[label]
            trs.append((label, perm[target]))
        rng.shuffle(trs)
        transitions[new] = trs
    finals = [perm[f] for f in game["final_states"]]
    rng.shuffle(finals)
    return ({"rewards": rewards, "players": players,
             "transition_list": transitions, "final_states": finals},
            perm, rename)


def boundary_games():
    games = {}
    # one-state games
    games["one_final"] = {"rewards": [0], "players": [P1],
                          "transition_list": [[("a", 0)]], "final_states": [0]}
    games["one_final_prob"] = {"rewards": [0], "players": [PR],
                               "transition_list": [[(1, 0)]], "final_states": [0]}
    # the initial state cannot reach the final state: unsolvable when pruning
    games["unsolvable"] = {"rewards": [0, 0, 0], "players": [P1, PR, P2],
                           "transition_list": [[("a", 1)], [(1.0, 1)], [("x", 2)]],
                           "final_states": [2]}
    games["unsolvable_p2"] = {"rewards": [1, 0, 0], "players": [P2, PR, PR],
                              "transition_list": [[("a", 1), ("b", 2)], [(1, 1)], [(1, 2)]],
                              "final_states": [1]}
    # dead successors adjacent / not adjacent in the list
    for tag, order in (("adjacent", [3, 3, 1, 2]), ("apart", [3, 1, 3, 2]),
                       ("first_last", [3, 1, 2, 3])):
        probs = [0.25, 0.25, 0.25, 0.25]
        games["dead_" + tag] = {
            "rewards": [1, 2, 0, 0], "players": [PR, P1, P1, PR],
            "transition_list": [list(zip(probs, order)),
                                [("go", 2), ("die", 3), ("back", 0)],
                                [("stay", 2)], [(1, 3)]],
            "final_states": [2]}
    # all successors of a Player 1 state are dead; Player 2 may walk into it
    games["p1_all_dead"] = {
        "rewards": [1, 1, 0, 0, 0], "players": [P2, P1, P1, PR, PR],
        "transition_list": [[("x", 1), ("y", 4)], [("p", 2), ("q", 2)],
                            [("s", 2)], [(1, 3)], [(0.5, 3), (0.5, 2)]],
        "final_states": [3]}
    # ties everywhere
    games["ties"] = {
        "rewards": [0, 2, 2, 0, 0], "players": [P1, PR, PR, P2, P1],
        "transition_list": [[("l", 1), ("r", 2), ("m", 1)],
                            [(0.5, 3), (0.5, 4)], [(0.5, 4), (0.5, 3)],
                            [("u", 4), ("v", 4)], [("end", 4)]],
        "final_states": [4]}
    # no final state / malformed descriptions (errors must be the same too)
    games["no_final"] = {"rewards": [0, 0], "players": [P1, P1],
                         "transition_list": [[("a", 1)], [("a", 1)]], "final_states": []}
    games["missing_transitions"] = {"rewards": [0, 0], "players": [P1, P1],
                                    "transition_list": [[("a", 1)], []], "final_states": [1]}
    games["bad_target"] = {"rewards": [0, 0], "players": [P1, P1],
                           "transition_list": [[("a", 2)], [("a", 1)]], "final_states": [1]}
    games["bad_action"] = {"rewards": [0, 0], "players": [P1, P1],
                           "transition_list": [[(1, 1)], [("a", 1)]], "final_states": [1]}
    games["bad_probability"] = {"rewards": [0, 0], "players": [PR, P1],
                                "transition_list": [[("x", 1)], [("a", 1)]], "final_states": [1]}
    games["triple"] = {"rewards": [0, 0], "players": [PR, P1],
                       "transition_list": [[(1, 1, 1)], [("a", 1)]], "final_states": [1]}
    games["list_transition"] = {"rewards": [0, 0], "players": [PR, P1],
                                "transition_list": [[[1, 1]], [("a", 1)]], "final_states": [1]}
    games["negative_reward"] = {"rewards": [-1, 0], "players": [PR, P1],
                                "transition_list": [[(1, 1)], [("a", 1)]], "final_states": [1]}
    games["bad_player"] = {"rewards": [0, 0], "players": ["Player 3", P1],
                           "transition_list": [[(1, 1)], [("a", 1)]], "final_states": [1]}
    return games


def well_formed(game):
    try:
        n = len(game["players"])
        for trs in game["transition_list"]:
            if not isinstance(trs, list) or not trs:
                return False
            for t in trs:
                if not isinstance(t, tuple) or len(t) != 2 or not 0 <= t[1] < n:
                    return False
        for pl, trs in zip(game["players"], game["transition_list"]):
            if pl not in (P1, P2, PR):
                return False
            for t in trs:
                if (pl == PR) == isinstance(t[0], str):
                    return False
        return len(game["transition_list"]) == n and bool(game["final_states"])
    except Exception:
        return False


def board_games(clean_root, workdir):
    """Games of the shipped input files and of freshly generated boards."""
    games = {}
    sources = []
    inputs = os.path.join(clean_root, "inputs")
    for name in sorted(os.listdir(inputs)):
        if name.endswith(".py"):
            sources.append(os.path.join(inputs, name))
    gen_dir = os.path.join(workdir, "gen")
    os.makedirs(os.path.join(gen_dir, "inputs"))
    params = [
        ["-s", "3", "-w", "1", "-l", "1"],
        ["-s", "4", "-w", "1", "-l", "3"],
        ["-s", "5", "-w", "3", "-l", "1", "-f"],
        ["-s", "6", "-w", "3", "-l", "3", "-t", "0.6"],
        ["-s", "7", "-w", "4", "-l", "3", "-f", "-p", "0.01", "-q", "0.99"],
        ["-s", "8", "-w", "2", "-l", "4", "-r", "0.5", "-t", "0.9"],
        ["-s", "9", "-w", "5", "-l", "4", "-m", "1"],
    ]
    for p in params:
        subprocess.run([sys.executable, os.path.join(clean_root, "roberta_generator.py")] + p,
                       cwd=gen_dir, check=True, stdout=subprocess.DEVNULL,
                       stderr=subprocess.DEVNULL)
    for name in sorted(os.listdir(os.path.join(gen_dir, "inputs"))):
        sources.append(os.path.join(gen_dir, "inputs", name))
    for path in sources:
        with open(path) as handle:
            try:
                content = eval(handle.read())
            except Exception:
                continue
        if not isinstance(content, dict):
            continue
        for key, game in content.items():
            if not isinstance(game, dict) or "players" not in game:
                continue
            if len(game["players"]) > MAX_INPUT_STATES:
                continue
            game = {k: game[k] for k in ("rewards", "players", "transition_list", "final_states")}
            games["%s:%s" % (os.path.basename(path), key)] = game
    return games


def build_corpus(clean_root, workdir):
    rng = random.Random(20241013)
    corpus = {}      # name -> game
    pairs = []       # (base name, transformed name, perm, rename)

    def add(name, game, n_transforms):
        corpus[name] = game
        if not well_formed(game):
            return
        for j in range(n_transforms):
            other, perm, rename = transform(game, rng)
            corpus["%s#t%d" % (name, j)] = other
            pairs.append((name, "%s#t%d" % (name, j), perm, rename))

    for i in range(N_RANDOM_GAMES):
        add("rnd%03d" % i, random_game(rng), 2)
    for name, game in boundary_games().items():
        add(name, game, 2)
    for name, game in board_games(clean_root, workdir).items():
        add(name, game, 1)
    return corpus, pairs


# --------------------------------------------------------------------------
# worker: runs inside one of the two trees
# --------------------------------------------------------------------------
def plain(next_states):
    return [tuple(t) for t in next_states]


def safe(function, *args):
    """repr of the result, or the exception (out-of-contract calls included)."""
    try:
        return repr(function(*args))
    except Exception as error:                   # noqa: BLE001
        return "%s: %s" % (type(error).__name__, error)


def node_level(tad, game, rng, out, tag):
    import copy
    sgame = tad.StochasticGame(**copy.deepcopy(game), prune_states=True)
    try:
        sgame.check_game()
        states = sgame.init_states()
    except ValueError as error:
        out[tag] = "ERR " + str(error)
        return
    values = [0, 0, 0.25, 0.5, 0.5, 0.4999996, 0.5000004, 1, 1, 0.9999999, 1e-7, 1e-6 / 2]
    for state in states:
        state.reach_probability = rng.choice(values)
        state.expected_rewards = rng.choice([0, 0, 1, 2.5, 2.5, 2.5000004, 7, 1e-7])
        state.expected_rewards_min_reach = rng.choice([0, 1, 3, 3, 2.5, 9])
        state.expected_reach_min_rewards = rng.choice(values)
    record = []
    for state in states:
        entry = {"idx": state.idx,
                 "reach": repr(state.value_iteration_reach(states)),
                 "rew": repr(state.value_iteration_rewards(states)),
                 "next": repr(plain(state.next_states)),
                 "is_tuples": all(isinstance(t, tuple) for t in state.next_states),
                 "eq_plain": state.next_states == plain(state.next_states)}
        if state.player == P1:
            entry["best_reach"] = state.get_best_strategies_reachability(states, 6)
            entry["best_rew"] = state.get_best_strategies_total_rewards(states, 6)
            entry["best_reach_f2"] = state.get_best_strategies_reachability(states, 2)
        elif state.player == P2:
            entry["worst_reach"] = state.get_worst_strategies_reachability(states, 6)
            entry["worst_rew"] = state.get_worst_strategies_total_rewards(states, 6)
            names = [t[0] for t in state.next_states]
            for subset in ([], names[:1], names[-1:], names, ["unknown"]):
                entry["min_reach_%r" % (subset,)] = safe(
                    state._expected_rewards_min_reach, states, subset)
        record.append(entry)
    # the mutating operations, each on a fresh copy of the nodes
    for state in states:
        if state.player in (P1, PR):
            clone = copy.deepcopy(state)
            clone.prune_paths(states)
            record.append({"idx": state.idx, "pruned": repr(plain(clone.next_states)),
                           "rew_after": repr(clone.value_iteration_rewards(states)),
                           "reach_after": repr(clone.value_iteration_reach(states))
                           if clone.next_states or state.player != PR else "empty"})
            clone = copy.deepcopy(state)
            victim = rng.choice(state.next_states)
            try:
                clone.remove_path(tuple(victim))
                record.append({"idx": state.idx, "removed": repr(plain(clone.next_states))})
            except ZeroDivisionError:
                record.append({"idx": state.idx, "removed": "ZeroDivisionError"})
        if state.player == P1:
            names = [t[0] for t in state.next_states]
            for subset in ([], names[:1], names[-1:], names, ["unknown"] + names[1:]):
                clone = copy.deepcopy(state)
                clone.prune_paths_reachability(subset)
                record.append({"idx": state.idx, "restricted": repr(plain(clone.next_states)),
                               "rew_after": repr(clone.value_iteration_rewards(states))})
    # node equality against plain-tuple twins
    twins = sgame.init_states()
    record.append({"eq": [a == b for a, b in zip(states, twins)]})
    out[tag] = record


def worker(root, corpus_file, out_file):
    sys.path.insert(0, root)
    os.chdir(root)
    import copy
    import tad
    assert os.path.dirname(os.path.abspath(tad.__file__)) == os.path.abspath(root)
    with open(corpus_file) as handle:
        corpus = ast.literal_eval(handle.read())
    out = {}

    # Several shipped boards (and a few random games with duplicated action
    # names) are not stopping once pruned / when not pruned: the reward
    # iteration of HEAD never converges on them.  Both loops announce every
    # sweep with logging.debug("iteration <i>"); counting those calls gives a
    # deterministic, timing independent budget that is the same in both trees.
    import logging

    class SweepBudget(Exception):
        pass

    sweeps = [0]

    def counting_debug(msg, *args, **kwargs):
        if isinstance(msg, str) and msg.startswith("iteration"):
            sweeps[0] += 1
            if sweeps[0] > SWEEP_BUDGET:
                raise SweepBudget()

    logging.debug = counting_debug
    logging.disable(logging.CRITICAL)      # keep the driver's error log lines off the console
    for name, game in corpus.items():
        for prune in (True, False):
            original = copy.deepcopy(game)
            sweeps[0] = 0
            try:
                sgame = tad.StochasticGame(**copy.deepcopy(game), prune_states=prune)
                result = sgame.solve()
                out["%s|%s" % (name, prune)] = ["OK", repr(tuple(result))] + [list(result[0]), list(result[1]), list(result[2]), list(result[3])]
            except SweepBudget:
                out["%s|%s" % (name, prune)] = ["DIV", "no convergence within %d sweeps" % SWEEP_BUDGET]
            except Exception as error:           # noqa: BLE001 - the message is compared
                out["%s|%s" % (name, prune)] = ["ERR", "%s: %s" % (type(error).__name__, error)]
            if game != original:
                out["%s|%s|mutated" % (name, prune)] = True
    rng = random.Random(99)
    names = [n for n in corpus if n.startswith("rnd") and "#" not in n][:N_NODE_GAMES]
    names += [n for n in corpus if not n.startswith("rnd") and ":" not in n]
    for name in names:
        for rep in range(2):
            node_level(tad, corpus[name], rng, out, "node|%s|%d" % (name, rep))
    extra_checks(tad, corpus, out)
    with open(out_file, "w") as handle:
        json.dump(out, handle)


def extra_checks(tad, corpus, out):
    """Hook for variant specific observations (none needed here)."""


# --------------------------------------------------------------------------
# the C13 relation, evaluated on the results of one tree
# --------------------------------------------------------------------------
def relation(results, pairs, corpus):
    verdicts = []
    for base, other, perm, rename in pairs:
        for prune in (True, False):
            a = results["%s|%s" % (base, prune)]
            b = results["%s|%s" % (other, prune)]
            if a[0] != b[0]:
                verdicts.append("solvability differs")
                continue
            if a[0] == "DIV":
                verdicts.append("both diverge")
                continue
            if a[0] == "ERR":
                verdicts.append("same" if a[1] == b[1] else "messages differ")
                continue
            ok = True
            for vec in (4, 5):                       # rewards, probabilities
                for old, new in enumerate(perm):
                    x, y = a[vec][old], b[vec][new]
                    if abs(x - y) > 1e-4 * max(1.0, abs(x)):
                        ok = False
            players = corpus[base]["players"]
            for vec in (2, 3):                       # final / reachability strategies
                for old, new in enumerate(perm):
                    x, y = a[vec][old], b[vec][new]
                    if players[old] == PR:
                        ok = ok and x is None and y is None
                    elif sorted(rename[s] for s in x) != sorted(y):
                        ok = False
            verdicts.append("holds" if ok else "violated")
    return verdicts


def main():
    if len(sys.argv) == 5 and sys.argv[1] == "--worker":
        worker(sys.argv[2], sys.argv[3], sys.argv[4])
        return 0
    if len(sys.argv) != 3:
        print(__doc__)
        return 2
    patched, clean = (os.path.abspath(p) for p in sys.argv[1:3])
    with tempfile.TemporaryDirectory() as workdir:
        corpus, pairs = build_corpus(clean, workdir)
        corpus_file = os.path.join(workdir, "corpus.txt")
        with open(corpus_file, "w") as handle:
            handle.write(repr(corpus))
        results = {}
        for label, root in (("patched", patched), ("clean", clean)):
            out_file = os.path.join(workdir, label + ".json")
            env = dict(os.environ, PYTHONDONTWRITEBYTECODE="1", PYTHONHASHSEED="0")
            env.pop("PYTHONPATH", None)
            proc = subprocess.run(
                [sys.executable, os.path.abspath(__file__), "--worker", root, corpus_file, out_file],
                env=env, cwd=workdir, timeout=3600)
            if proc.returncode != 0:
                print("FAIL: worker for the %s tree crashed" % label)
                return 1
            with open(out_file) as handle:
                results[label] = json.load(handle)
    differences = []
    keys = sorted(set(results["patched"]) | set(results["clean"]))
    for key in keys:
        if results["patched"].get(key) != results["clean"].get(key):
            differences.append(key)
    for key in differences[:20]:
        print("DIFF", key)
        print("   patched:", str(results["patched"].get(key))[:600])
        print("   clean  :", str(results["clean"].get(key))[:600])
    verdict_p = relation(results["patched"], pairs, corpus)
    verdict_c = relation(results["clean"], pairs, corpus)
    solved = sum(1 for k, v in results["clean"].items()
                 if isinstance(v, list) and v and v[0] == "OK")
    errors = sum(1 for k, v in results["clean"].items()
                 if isinstance(v, list) and v and v[0] == "ERR")
    diverging = sum(1 for k, v in results["clean"].items()
                    if isinstance(v, list) and v and v[0] == "DIV")
    print("games in corpus: %d (solved runs %d, error runs %d, non-converging runs %d), "
          "presentation pairs: %d" % (len(corpus), solved, errors, diverging, len(pairs)))
    summary = {}
    for v in verdict_c:
        summary[v] = summary.get(v, 0) + 1
    print("C13 relation on the clean tree  :", summary)
    summary = {}
    for v in verdict_p:
        summary[v] = summary.get(v, 0) + 1
    print("C13 relation on the patched tree:", summary)
    if verdict_p != verdict_c:
        print("the C13 verdicts differ between the trees")
    if differences or verdict_p != verdict_c:
        print("FAIL (%d differing observations)" % len(differences))
        return 1
    print("PASS")
    return 0


if __name__ == "__main__":
    sys.exit(main())
