#!/usr/bin/env python
"""Differential test for property C04 (reachability strategies = value-optimal actions).

usage: python equiv.py <clean_repo_dir> <patched_repo_dir>

Both trees are loaded in their own subprocess (module names collide).  Each worker
runs the SAME deterministic set of cases and writes one line `case-id <TAB> repr` per
case; the parent compares the two files line by line.

Case groups
  U  unit level: PlayerOne.get_best_strategies_reachability /
     PlayerTwo.get_worst_strategies_reachability on hand-made state lists with
     arbitrary successor values (near ties, -0.0, negatives, > 1, nan, inf, ints,
     bools), many rounding precisions, parallel edges, repeated action names
  T  Solver.__init__ for many thresholds (valid and invalid) -> .floor or exception,
     and Solver._get_reachability_strategies with these thresholds
  R  random well-formed games of all three state kinds with cycles, parallel edges,
     several finals, dead ends: check_game / init_states / Solver.solve_reachability,
     both pruning modes (this prefix of solve() always terminates)
  E  exact ties reached through different floating-point sums, Player 1 and Player 2
  S  stopping games: full StochasticGame.solve(), both pruning modes
  G  conditionalrewards.run_games + save_results_to_file (clock replaced by a
     deterministic counter), report file compared byte for byte
  M  malformed inputs: exception type + message
A per-case alarm guards against non-terminating solves ("TIMEOUT" outcome; both
timing out counts as same).
"""
import os
import subprocess
import sys
import tempfile

CASE_TIMEOUT = 10  # seconds, per case


# --------------------------------------------------------------------------- worker
def worker(repo_dir, out_path):
    import copy
    import random
    import signal
    import logging

    repo_dir = os.path.abspath(repo_dir)
    sys.path.insert(0, repo_dir)
    work = tempfile.mkdtemp(prefix="f04_equiv_")
    os.makedirs(os.path.join(work, "outputs"))
    os.chdir(work)
    logging.disable(logging.CRITICAL)

    import tad
    import conditionalrewards as cr

    assert os.path.dirname(os.path.abspath(tad.__file__)) == repo_dir, tad.__file__

    P1, P2, PR = tad.PLAYER_1, tad.PLAYER_2, tad.PROBABILISTIC
    out = open(out_path, "w", encoding="utf-8")

    class CaseTimeout(BaseException):
        pass

    def on_alarm(signum, frame):
        raise CaseTimeout()

    signal.signal(signal.SIGALRM, on_alarm)

    def outcome(fn):
        signal.alarm(CASE_TIMEOUT)
        try:
            try:
                res = ("OK", fn())
            except CaseTimeout:
                res = ("TIMEOUT",)
            except Exception as e:  # type and message are part of the behaviour
                res = ("EXC", type(e).__name__, str(e))
        finally:
            signal.alarm(0)
        return res

    counter = [0]

    def emit(group, payload):
        counter[0] += 1
        out.write("%s%05d\t%r\n" % (group, counter[0], payload))

    # ------------------------------------------------------------------ group U
    rng = random.Random(4041)
    special = [0, 1, 0.0, -0.0, 1.0, True, False, 0.5, 0.1 + 0.2, 0.3, 1 / 3,
               0.33333333, 0.3333334, 0.3333335, 0.3333325, 0.9999995, 0.99999949,
               0.9999996, 1.0000004, 1.0000006, 1e-7, 4e-7, 5e-7, 6e-7, -1e-7, -6e-7,
               -0.25, 1.5, 2, -1, float("nan"), float("inf"), float("-inf"),
               0.1 * 3, 0.7 + 0.2 + 0.1, 1 - 1e-16, 5e-324, 0.125, 0.2500005,
               0.25, 0.2499995, 0.24999949]

    def random_value():
        r = rng.random()
        if r < 0.45:
            return rng.choice(special)
        if r < 0.7:
            return round(rng.random(), rng.randint(0, 8))
        if r < 0.85:
            base = rng.choice([0.25, 0.5, 1 / 3, 0.2, 0.7, 1.0, 0.0])
            return base + rng.choice([-1, 1]) * rng.choice(
                [0, 1e-9, 1e-8, 4e-7, 5e-7, 6e-7, 1e-6, 2e-6, 1e-5])
        return rng.random()

    def fake_states(values):
        states = []
        n = len(values)
        for i, v in enumerate(values):
            node = tad.ProbabilisticNode(PR, i, 0, [(1, i)], n, False)
            node.reach_probability = v
            states.append(node)
        return states

    for _ in range(2500):
        n = rng.randint(1, 7)
        values = [random_value() for _ in range(n)]
        states = fake_states(values)
        n_act = rng.choice([0, 1, 1, 2, 2, 3, 4, 6])
        names = ["a", "b", "c", "a", "d"]
        nxt = [(rng.choice(names) if rng.random() < 0.3 else "act%d" % k,
                rng.randrange(n)) for k in range(n_act)]
        floor = rng.choice([6, 6, 6, 0, 1, 2, 3, 5, 7, 8, 12, -1])
        for cls, meth in ((tad.PlayerOne, "get_best_strategies_reachability"),
                          (tad.PlayerTwo, "get_worst_strategies_reachability")):
            def run(cls=cls, meth=meth):
                player = P1 if cls is tad.PlayerOne else P2
                node = cls(player, 0, 0, list(nxt), n, False)
                before = list(node.next_states)
                res = getattr(node, meth)(states, floor)
                again = getattr(node, meth)(states, floor)
                return (res, again, res is again, node.next_states == before,
                        [repr(s.reach_probability) for s in states])
            emit("U", (values, nxt, floor, meth, outcome(run)))

    # a successor index outside the state list / a float precision: same exception
    for bad_floor in (6.0, "6", None):
        states = fake_states([0.5, 1])
        node = tad.PlayerOne(P1, 0, 0, [("x", 1), ("y", 0)], 2, False)
        emit("U", ("badfloor", repr(bad_floor), outcome(
            lambda: node.get_best_strategies_reachability(states, bad_floor))))
        node2 = tad.PlayerTwo(P2, 0, 0, [("x", 1), ("y", 0)], 2, False)
        emit("U", ("badfloor2", repr(bad_floor), outcome(
            lambda: node2.get_worst_strategies_reachability(states, bad_floor))))
    short = fake_states([0.5])
    node = tad.PlayerOne(P1, 0, 0, [("x", 0), ("y", 3)], 5, False)
    emit("U", ("short", outcome(lambda: node.get_best_strategies_reachability(short, 6))))
    node = tad.PlayerTwo(P2, 0, 0, [("x", 0), ("y", 3)], 5, False)
    emit("U", ("short2", outcome(lambda: node.get_worst_strategies_reachability(short, 6))))

    # ------------------------------------------------------------------ group T
    thresholds = [10 ** (-6), 1e-6, 1e-1, 1e-2, 1e-3, 1e-4, 1e-5, 1e-7, 1e-8, 1e-9,
                  1e-12, 1e-15, 0.5, 0.05, 0.3, 2.5e-7, 9.99e-7, 1.0000001e-6, 1, 1.0,
                  True, 2, 9, 10, 11, 99, 100, 101, 1000, 1e3, 10 ** 6, 10 ** 15,
                  10 ** 23, 10 ** 400, 1e300, 5e-324, 1e-300, 0.001, 0.0001,
                  0.1 ** 3, 0.1 ** 6, 0.1 ** 9, 0, 0.0, -1, -1e-6, False,
                  float("inf"), float("nan"), float("-inf"), "1e-6", None, [1], 1j]
    for k in range(-20, 21):
        thresholds.append(10.0 ** k)
        thresholds.append(10 ** k)
        thresholds.append(float("1e%d" % k))
    trng = random.Random(77)
    for _ in range(300):
        thresholds.append(10 ** trng.uniform(-12, 4))
        thresholds.append(trng.choice([1, 2, 5]) * 10.0 ** trng.randint(-10, 3))

    def solver_floor(th):
        s = tad.Solver([], threshold=th)
        return (repr(s.floor), type(s.floor).__name__, repr(s.threshold))

    for th in thresholds:
        emit("T", (repr(th), outcome(lambda: solver_floor(th))))
    emit("T", ("default", outcome(lambda: (tad.Solver([]).floor, tad.Solver([]).threshold))))
    emit("T", ("positional", outcome(lambda: tad.Solver([], 1e-3).floor)))

    def strategies_with_threshold(values, players, nexts, th):
        n = len(values)
        states = []
        for i in range(n):
            if players[i] == PR:
                node = tad.ProbabilisticNode(PR, i, 0, list(nexts[i]), n, False)
            else:
                cls = tad.PlayerOne if players[i] == P1 else tad.PlayerTwo
                node = cls(players[i], i, 0, list(nexts[i]), n, False)
            node.reach_probability = values[i]
            states.append(node)
        solver = tad.Solver(states, threshold=th)
        first = solver._get_reachability_strategies()
        second = solver._get_reachability_strategies()
        return (solver.floor, first, second, [s.next_states for s in states])

    for _ in range(600):
        n = trng.randint(1, 7)
        values = [random_value() for _ in range(n)]
        players = [trng.choice([P1, P2, PR]) for _ in range(n)]
        nexts = []
        for i in range(n):
            k = trng.randint(1, 4)
            if players[i] == PR:
                nexts.append([(1 / k, trng.randrange(n)) for _ in range(k)])
            else:
                nexts.append([("m%d" % j, trng.randrange(n)) for j in range(k)])
        th = trng.choice([1e-6, 1e-6, 1e-1, 1e-2, 1e-3, 1e-4, 1e-8, 0.5, 1, 1000, 3e-5])
        emit("T", (values, players, nexts, repr(th), outcome(
            lambda: strategies_with_threshold(values, players, nexts, th))))

    # ------------------------------------------------------------------ games
    prob_splits = [
        [1], [1.0], [0.5, 0.5], [0.25, 0.75], [0.1, 0.9], [0.1, 0.2, 0.7],
        [0.3, 0.7], [1 / 3, 1 / 3, 1 / 3], [1 / 3, 2 / 3], [0.2, 0.2, 0.2, 0.4],
        [0.125, 0.875], [0.6, 0.3, 0.1], [0.8, 0.125, 0.075], [0.05, 0.95],
        [0.1] * 10, [0.7, 0.1, 0.1, 0.1], [0.15, 0.85], [1 / 7] * 7, [0.01, 0.99],
    ]

    def random_game(rng, n, stopping):
        """A well-formed game.  stopping=True: only probabilistic states own
        backward edges (each with a forward alternative), absorbing states carry
        reward 0, so total rewards converge as well."""
        n_final = rng.choice([1, 1, 2, 3]) if n > 3 else 1
        n_dead = rng.choice([0, 1, 1, 2]) if n - n_final > 2 else 0
        finals = list(range(n - n_final, n))
        dead = list(range(n - n_final - n_dead, n - n_final))
        players, trans, rewards = [], [], []
        for i in range(n):
            if i in finals or i in dead:
                kind = rng.choice([P1, P2, PR])
                players.append(kind)
                trans.append([(rng.choice([1, 1.0]), i)] if kind == PR else [("stay", i)])
                rewards.append(0)
                continue
            kind = rng.choice([P1, P1, P2, P2, PR])
            players.append(kind)
            rewards.append(rng.choice([0, 0, 1, 2, 5, 10]))
            forward = list(range(i + 1, n))
            if kind == PR:
                split = list(rng.choice(prob_splits))
                rng.shuffle(split)
                nxt = []
                for j, p in enumerate(split):
                    if stopping:
                        tgt = rng.choice(forward) if (j == 0 or rng.random() < 0.75) \
                            else rng.randrange(0, n)
                    else:
                        tgt = rng.randrange(0, n)
                    nxt.append((p, tgt))
                trans.append(nxt)
            else:
                k = rng.choice([1, 2, 2, 3, 3, 4, 5])
                nxt = []
                for j in range(k):
                    pool = forward if stopping else list(range(n))
                    tgt = rng.choice(pool)
                    if nxt and rng.random() < 0.15:
                        tgt = nxt[-1][1]          # parallel edge
                    name = "a%d" % j
                    if nxt and rng.random() < 0.08:
                        name = nxt[0][0]          # repeated action name
                    nxt.append((name, tgt))
                trans.append(nxt)
        return dict(rewards=rewards, players=players, transition_list=trans,
                    final_states=finals)

    def reach_prefix(game, prune):
        g = tad.StochasticGame(prune_states=prune, **copy.deepcopy(game))
        g.check_game()
        states = g.init_states()
        solver = tad.Solver(threshold=10 ** (-6), state_list=states)
        strategies, n_it = solver.solve_reachability(
            g.transition_list, g.final_states, g.prune_states)
        again = solver._get_reachability_strategies()
        return (strategies, again, n_it, [s.reach_probability for s in states],
                [s.next_states for s in states], solver.floor)

    # ------------------------------------------------------------------ group R
    rng = random.Random(20404)
    for _ in range(1500):
        game = random_game(rng, rng.randint(2, 10), stopping=False)
        for prune in (True, False):
            emit("R", (game, prune, outcome(lambda: reach_prefix(game, prune))))

    # ------------------------------------------------------------------ group E
    def tie_game(rng, owner):
        """state 0 (owner) chooses among probabilistic gadgets whose success
        probabilities are equal as rationals but summed differently in floats,
        plus sometimes a clearly different gadget."""
        tenths = rng.randint(1, 9)

        def partition(total, parts):
            cuts = sorted(rng.sample(range(1, total), parts - 1)) if total > 1 and parts > 1 else []
            cuts = [0] + cuts + [total]
            return [cuts[i + 1] - cuts[i] for i in range(len(cuts) - 1)]

        gadgets = []
        n_equal = rng.randint(2, 4)
        for _ in range(n_equal):
            parts = partition(tenths, rng.randint(1, min(3, tenths)))
            gadgets.append(parts)
        if rng.random() < 0.6:
            other = rng.choice([t for t in range(0, 11) if t != tenths])
            gadgets.append(partition(other, 1) if other else [])
        rng.shuffle(gadgets)
        n = 1 + len(gadgets) + 2
        good, bad = n - 1, n - 2
        players = [owner] + [PR] * len(gadgets) + [PR, PR]
        trans = [[("g%d" % i, 1 + i) for i in range(len(gadgets))]]
        for parts in gadgets:
            rest = 10 - sum(parts)
            edges = [(p / 10, good) for p in parts]
            if rest:
                edges.append((rest / 10, bad))
            rng.shuffle(edges)
            trans.append(edges)
        trans += [[(1, bad)], [(1, good)]]
        rewards = [rng.choice([0, 1, 3])] + [rng.choice([0, 1, 2]) for _ in gadgets] + [0, 0]
        return dict(rewards=rewards, players=players, transition_list=trans,
                    final_states=[good])

    rng = random.Random(31)
    for _ in range(500):
        game = tie_game(rng, rng.choice([P1, P2]))
        for prune in (True, False):
            emit("E", (game, prune, outcome(lambda: reach_prefix(game, prune))))
            emit("E", ("solve", outcome(
                lambda: tad.StochasticGame(prune_states=prune, **copy.deepcopy(game)).solve())))

    # ------------------------------------------------------------------ group S
    rng = random.Random(555)
    stopping_games = []
    for _ in range(500):
        game = random_game(rng, rng.randint(2, 9), stopping=True)
        stopping_games.append(game)
        for prune in (True, False):
            emit("S", (game, prune, outcome(
                lambda: tad.StochasticGame(prune_states=prune, **copy.deepcopy(game)).solve())))

    # ------------------------------------------------------------------ group M
    base = dict(rewards=[1, 0, 0], players=[P1, PR, PR],
                transition_list=[[("a", 1), ("b", 2)], [(1, 1)], [(1, 2)]],
                final_states=[2])

    def variant(**kw):
        g = copy.deepcopy(base)
        g.update(kw)
        return g

    malformed = [
        variant(transition_list=[[("a", 1)], [(1, 1)]]),
        variant(rewards=[1, 0]),
        variant(rewards=[1, -1, 0]),
        variant(final_states=[3]),
        variant(final_states=[-1]),
        variant(final_states=[]),
        variant(players=[P1, "Player 3", PR]),
        variant(players=[P1, PR]),
        variant(transition_list=[[("a", 1), ("b", 2)], [], [(1, 2)]]),
        variant(transition_list=[(("a", 1),), [(1, 1)], [(1, 2)]]),
        variant(transition_list=[[["a", 1]], [(1, 1)], [(1, 2)]]),
        variant(transition_list=[[("a", 1, 2)], [(1, 1)], [(1, 2)]]),
        variant(transition_list=[[(1, 1)], [(1, 1)], [(1, 2)]]),
        variant(transition_list=[[("a", 1)], [("x", 1)], [(1, 2)]]),
        variant(transition_list=[[("a", 1.0)], [(1, 1)], [(1, 2)]]),
        variant(transition_list=[[("a", 3)], [(1, 1)], [(1, 2)]]),
        variant(transition_list=[[("a", -1)], [(1, 1)], [(1, 2)]]),
        variant(transition_list=[[("a", 1)], [(1, 1)], [(1, 2)]], final_states=[2]),
        variant(players=[P2, PR, PR]),
        variant(players=[P2, PR, PR], final_states=[1]),
        variant(players=[PR, PR, PR], transition_list=[[(0.5, 1), (0.5, 2)], [(1, 1)], [(1, 2)]]),
        variant(players=[PR, PR, PR], transition_list=[[(0.5, 1), (0.7, 2)], [(1, 1)], [(1, 2)]]),
        variant(players=[PR, PR, PR], transition_list=[[(2, 1), (3, 2)], [(1, 1)], [(1, 2)]]),
        variant(players=[PR, PR, PR], transition_list=[[(0.0, 1), (0.0, 2)], [(1, 1)], [(1, 2)]]),
        variant(players=[PR, PR, PR], transition_list=[[(float("nan"), 2)], [(1, 1)], [(1, 2)]]),
        variant(players=[PR, PR, PR], transition_list=[[(float("inf"), 2)], [(1, 1)], [(1, 2)]]),
        variant(players=[P1, PR, PR], transition_list=[[("a", 1)], [(-0.5, 2), (1.5, 1)], [(1, 2)]]),
        variant(players=[P2, P1, PR], transition_list=[[("a", 1), ("a", 2)], [("z", 2), ("z", 0)], [(1, 2)]]),
        variant(rewards=[1.5, 0, 0]),
        variant(final_states=[2, 2, 1]),
        variant(final_states=(2,)),
        variant(final_states=[0]),
        variant(final_states=[0, 1, 2]),
    ]
    for game in malformed:
        for prune in (True, False):
            emit("M", (game, prune, outcome(lambda: reach_prefix(game, prune))))
            emit("M", ("solve", outcome(
                lambda: tad.StochasticGame(prune_states=prune, **copy.deepcopy(game)).solve())))
    # acyclic games with odd probabilities (no cycles: value iteration must stop)
    rng = random.Random(99)
    for _ in range(300):
        n = rng.randint(3, 8)
        players, trans = [], []
        for i in range(n - 1):
            kind = rng.choice([P1, P2, PR])
            players.append(kind)
            k = rng.randint(1, 4)
            if kind == PR:
                trans.append([(rng.choice([0, 0.5, 1, 2, -0.5, 0.3, 1e-7, 1.0000004, True,
                                           0.1, 0.2, 1e-6, 3]),
                               rng.randrange(i + 1, n)) for _ in range(k)])
            else:
                trans.append([("k%d" % j, rng.randrange(i + 1, n)) for j in range(k)])
        players.append(PR)
        trans.append([(1, n - 1)])
        game = dict(rewards=[0] * n, players=players, transition_list=trans,
                    final_states=[n - 1])
        for prune in (True, False):
            emit("M", (game, prune, outcome(lambda: reach_prefix(game, prune))))

    # ------------------------------------------------------------------ group G
    class FakeTime:
        def __init__(self):
            self.now = 1000.0

        def time(self):
            self.now += 0.25
            return self.now

    cr.time = FakeTime()
    rng = random.Random(8)
    pool = stopping_games[:]
    for batch in range(25):
        games = {}
        for j in range(rng.randint(1, 5)):
            r = rng.random()
            if r < 0.7:
                games["g%d_%d" % (batch, j)] = copy.deepcopy(rng.choice(pool))
            elif r < 0.85:
                games["t%d_%d" % (batch, j)] = tie_game(rng, rng.choice([P1, P2]))
            else:
                games["m%d_%d" % (batch, j)] = copy.deepcopy(rng.choice(malformed))

        def run_batch():
            res = cr.run_games(copy.deepcopy(games))
            cr.save_results_to_file(res, "some/dir/batch%d.py" % batch)
            with open(os.path.join("outputs", "batch%d.txt" % batch), "rb") as fh:
                data = fh.read()
            return (res, data)
        emit("G", (sorted(games), outcome(run_batch)))

    emit("Z", "end")
    out.close()


# --------------------------------------------------------------------------- parent
def main():
    if len(sys.argv) == 4 and sys.argv[1] == "--worker":
        worker(sys.argv[2], sys.argv[3])
        return 0
    if len(sys.argv) != 3:
        print("usage: python equiv.py <clean_repo_dir> <patched_repo_dir>")
        return 2
    tmp = tempfile.mkdtemp(prefix="f04_equiv_cmp_")
    outs = []
    procs = []
    env = dict(os.environ, PYTHONHASHSEED="0", PYTHONDONTWRITEBYTECODE="1")
    for tag, repo in (("clean", sys.argv[1]), ("patched", sys.argv[2])):
        path = os.path.join(tmp, tag + ".txt")
        outs.append(path)
        procs.append(subprocess.Popen(
            [sys.executable, os.path.abspath(__file__), "--worker", os.path.abspath(repo), path],
            env=env, stdout=subprocess.PIPE, stderr=subprocess.STDOUT))
    for tag, proc in zip(("clean", "patched"), procs):
        log, _ = proc.communicate()
        if proc.returncode != 0:
            print("DIFFERENT: worker for %s tree failed (exit %s)" % (tag, proc.returncode))
            print(log.decode("utf-8", "replace")[-3000:])
            return 1
    with open(outs[0], encoding="utf-8") as fh:
        a = fh.read().split("\n")
    with open(outs[1], encoding="utf-8") as fh:
        b = fh.read().split("\n")
    timeouts = sum(1 for line in a if "('TIMEOUT',)" in line)
    for i, (x, y) in enumerate(zip(a, b)):
        if x != y:
            print("DIFFERENT at case line %d" % (i + 1))
            print("  clean  : %s" % x[:1500])
            print("  patched: %s" % y[:1500])
            return 1
    if len(a) != len(b):
        print("DIFFERENT: number of cases %d vs %d" % (len(a), len(b)))
        return 1
    if not a or not a[-2].startswith("Z"):
        print("DIFFERENT: workers did not reach the end marker")
        return 1
    print("SAME (%d cases, %d timed out in both)" % (len(a) - 1, timeouts))
    return 0


if __name__ == "__main__":
    sys.exit(main())
