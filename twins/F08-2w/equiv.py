#!/usr/bin/env python
"""Differential test for property C08 (Roborta board -> three generated games).

usage: python equiv.py <clean_repo_dir> <patched_repo_dir>

Both trees are loaded in their own subprocess (module names collide).  Every
worker runs the SAME deterministic list of cases and writes one line per case
(case id + observation); the parent compares the two listings line by line.
Prints SAME / exits 0 when nothing differs, else prints the first difference
and exits 1.

Observations: generated files byte for byte (also the partial file left behind
when the generator raises), the sequence of write() calls on a sink that only
offers write(), return values as repr, exceptions as (type, message), the file
names created by main() / create_sg_from_board, the dictionary read back with
conditionalrewards.read_dict_from_file.
"""
import sys
import os
import subprocess
import tempfile
import json
import hashlib

WORKER_TIMEOUT = 115


# --------------------------------------------------------------------------- worker
def worker(repo, out_path):
    import gc
    import io
    import glob
    import shutil
    import inspect
    import itertools
    import contextlib
    import random as _random
    from fractions import Fraction
    from decimal import Decimal

    repo = os.path.abspath(repo)
    sys.path.insert(0, repo)
    sys.dont_write_bytecode = True
    work = tempfile.mkdtemp(prefix="f08_equiv_")
    os.chdir(work)
    os.mkdir("inputs")

    import roberta_generator as rg
    import stochastic_game_from_roborta_board as sg
    import conditionalrewards as cr
    assert os.path.dirname(os.path.abspath(rg.__file__)) == repo, rg.__file__
    assert os.path.dirname(os.path.abspath(sg.__file__)) == repo, sg.__file__

    out = open(out_path, "w")
    counter = itertools.count()

    def emit(group, desc, obs):
        out.write("%s#%d\t%s\t%s\n" % (group, next(counter), desc, json.dumps(obs)))

    def digest(b):
        return "%d:%s" % (len(b), hashlib.sha1(b).hexdigest())

    def short(x, n=300):
        r = repr(x)
        return r if len(r) <= n else r[:n] + "...<%d>" % len(r)

    def call(fn, *a, **k):
        try:
            return ["ok", repr(fn(*a, **k))]
        except (Exception, SystemExit) as e:
            return ["exc", type(e).__name__, str(e)]

    class Sink:
        """offers write() only; remembers every call"""
        def __init__(self):
            self.calls = []

        def write(self, s):
            self.calls.append(s)

    def file_obs(fn, fname, *a):
        """run fn(fname, *a); observation = outcome + bytes left in fname"""
        if os.path.exists(fname):
            os.remove(fname)
        res = call(fn, fname, *a)
        if res[0] != "ok":
            gc.collect()
        if os.path.exists(fname):
            with open(fname, "rb") as fh:
                data = fh.read()
            res.append(digest(data))
            res.append(data[-60:].decode("latin-1"))
        else:
            res.append("nofile")
        return res

    def inputs_obs():
        names = sorted(glob.glob("inputs/*"))
        obs = []
        for n in names:
            with open(n, "rb") as fh:
                obs.append([n, digest(fh.read())])
            os.remove(n)
        return obs

    rng = _random.Random(80808)
    PROBS = [0.1, 0.5, 0.25, 0.3, 0.9, 1.0 / 3, 0.01, 0.99, 0.7, 0.05]

    # ---- public surface ----------------------------------------------------
    names = ["gen_rnd_board", "get_random_moves", "player_two_transitions",
             "player_one_down_transitions", "player_one_left_right_transitions",
             "prob_tile_break_transitions", "write_preamble", "write_robot_A",
             "prob_robot_down_break_transitions", "prob_robot_left_break_transitions",
             "prob_robot_right_break_transitions", "write_robot_B",
             "player_one_down_left_right_transitions", "prob_light_break_transitions",
             "write_robot_C", "write_robots", "init_parser", "check_input", "prob_to_str",
             "main"]
    for n in names:
        f = getattr(rg, n, None)
        emit("surface", n, [callable(f), str(inspect.signature(f)) if callable(f) else None])
    for n in ["get_max_from_matrix", "create_sg_from_board", "write_robots", "prob_to_str"]:
        f = getattr(sg, n, None)
        emit("surface", "sg." + n, [callable(f), str(inspect.signature(f)) if callable(f) else None])
    for n in ["MOVE_SINTAX", "TILE_SYNTAX", "FOUR_SPACES", "EIGHT_SPACES", "TWELVE_SPACES",
              "SIXTEEN_SPACES"]:
        emit("surface", n, repr(getattr(rg, n, "<missing>")))

    # ---- G1: exhaustive boards with up to four tiles -------------------------
    shapes = [(1, 1), (1, 2), (2, 1), (1, 3), (3, 1), (1, 4), (4, 1), (2, 2)]
    for (length, width) in shapes:
        n = length * width
        all_moves = list(itertools.product(range(4), repeat=n))
        all_loose = list(itertools.product((0, 1), repeat=n))
        if n <= 3:
            layouts = list(itertools.product(all_moves, all_loose))
        else:
            # four tiles: every arrow layout (with a random loose layout) and every loose layout
            # (with 2 random arrow layouts) - arrows and loose tiles feed different builders
            layouts = [(mv, rng.choice(all_loose)) for mv in all_moves]
            layouts += [(mv, lt) for lt in all_loose for mv in rng.sample(all_moves, 2)]
        for mv, lt in layouts:
            moves = [list(mv[r * width:(r + 1) * width]) for r in range(length)]
            loose = [list(lt[r * width:(r + 1) * width]) for r in range(length)]
            rewards = [[rng.randrange(0, 7) for _ in range(width)] for _ in range(length)]
            pt, pr, pl = rng.choice(PROBS), rng.choice(PROBS), rng.choice(PROBS)
            obs = file_obs(rg.write_robots, "g1.py", length, width, moves, rewards, loose,
                           pt, pr, pl)
            emit("G1", "%dx%d mv=%s lt=%s rw=%s p=%s" % (length, width, mv, lt, rewards,
                                                        (pt, pr, pl)), obs)

    # ---- G2: sampled larger boards, read back --------------------------------
    for k in range(48):
        length, width = rng.randrange(1, 7), rng.randrange(1, 7)
        fd = bool(k % 2)
        seed = rng.randrange(0, 10 ** 6)
        board = call(rg.gen_rnd_board, seed, length, width, rng.choice(PROBS),
                     rng.randrange(1, 9), fd)
        emit("G2b", "seed=%d %dx%d fd=%s" % (seed, length, width, fd), board)
        moves, rewards, loose = rg.gen_rnd_board(seed, length, width, 0.3, 6, fd)
        pt, pr, pl = rng.choice(PROBS), rng.choice(PROBS), rng.choice(PROBS)
        obs = file_obs(rg.write_robots, "g2.py", length, width, moves, rewards, loose, pt, pr, pl)
        rb = call(cr.read_dict_from_file, "g2.py")
        obs.append(hashlib.sha1(json.dumps(rb).encode()).hexdigest())
        emit("G2", "seed=%d %dx%d fd=%s" % (seed, length, width, fd), obs)

    # ---- pools for malformed / boundary arguments ------------------------------
    DIM_OK = [0, 1, 1, 2, 2, 3, 3, 4]
    DIM_BAD = [-1, -2, True, False, 2.0, None, "2", [2]]
    MOVE_OK = [0, 1, 2, 3]
    MOVE_BAD = [4, -1, -4, None, "1", 1.0, 3.0, True, False, 2.5, [1], (3,), float("nan"), "v"]
    OFF_OK = [0, 1, 4, 8, 9, 12, 16, 27, 36, 100]
    OFF_BAD = [0.1, 0.5, 1e16, 2.0 ** 53, None, "o", -3, True, Fraction(1, 3), [1], 1.5e300,
               Decimal("0.1")]
    PROB_BAD = [0, 1, 0.0, 1.0, "p", None, Fraction(1, 10), Decimal("0.1"), -0.5, 2, True, [0.1],
                float("nan"), float("inf")]
    WIN = [None, 0, 5, -1, "", "w", [], [0], 0.0, 17, 1, False, True, 0.5, (), (0,), 33, 41]
    LOOSE_OK = [0, 1]
    LOOSE_BAD = [True, False, 1.0, 0.0, 2, -1, "1", None, [1], Fraction(1, 1)]
    REW_BAD = [2.7, -1.5, "3", None, True, "x", Fraction(7, 2), [1], float("nan"), 10 ** 20, -0.0]

    def pick(ok, bad, p_bad):
        return rng.choice(bad) if rng.random() < p_bad else rng.choice(ok)

    def dims(p_bad):
        return pick(DIM_OK, DIM_BAD, p_bad), pick(DIM_OK, DIM_BAD, p_bad)

    def matrix(length, width, ok, bad, p_bad, p_shape):
        rows = length if isinstance(length, int) and length >= 0 else rng.randrange(0, 4)
        cols = width if isinstance(width, int) and width >= 0 else rng.randrange(0, 4)
        rows, cols = int(rows), int(cols)
        if rng.random() < p_shape:
            rows = max(0, rows + rng.choice([-1, 1, 2]))
        m = []
        for _ in range(rows):
            c = cols
            if rng.random() < p_shape:
                c = max(0, cols + rng.choice([-1, 1, 2]))
            m.append([pick(ok, bad, p_bad) for _ in range(c)])
        if rng.random() < p_shape / 4:
            return rng.choice([None, 5, "ab", (), [None]])
        return m

    def off(p_bad):
        return pick(OFF_OK, OFF_BAD, p_bad)

    def prob(p_bad):
        return pick(PROBS, PROB_BAD, p_bad)

    # ---- G3: the transition builders, called directly -------------------------
    for k in range(2400):
        mode = k % 3                       # 0: well-formed, 1: a little off, 2: wild
        pb = [0.0, 0.08, 0.3][mode]
        ps = [0.0, 0.05, 0.2][mode]
        length, width = dims(pb / 2)
        moves = matrix(length, width, MOVE_OK, MOVE_BAD, pb, ps)
        loose = matrix(length, width, LOOSE_OK, LOOSE_BAD, pb, ps)
        o1, o2, o3 = off(pb), off(pb), off(pb)
        if rng.random() < 0.35:
            o3 = o2                        # the "same group" case of the yellow move (game A)
        p = prob(pb)
        win = rng.choice(WIN)
        lose = rng.choice([0, 7, 16, None, "L", 28])
        d = "L=%r W=%r mv=%s lt=%s o=%r,%r,%r p=%r win=%r lose=%r" % (
            length, width, short(moves, 120), short(loose, 120), o1, o2, o3, p, win, lose)
        emit("G3.p2", d, call(rg.player_two_transitions, length, width, moves, o1, o2))
        emit("G3.p1d", d, call(rg.player_one_down_transitions, length, width, o1, win))
        emit("G3.p1d0", d, call(rg.player_one_down_transitions, length, width, o1))
        emit("G3.p1lr", d, call(rg.player_one_left_right_transitions, length, width, moves, o2, o3))
        emit("G3.tile", d, call(rg.prob_tile_break_transitions, length, width, p, loose, o1, lose))
        emit("G3.rdown", d, call(rg.prob_robot_down_break_transitions, length, width, p, o1, win))
        emit("G3.rleft", d, call(rg.prob_robot_left_break_transitions, length, width, p, o1))
        emit("G3.rright", d, call(rg.prob_robot_right_break_transitions, length, width, p, o1))
        emit("G3.p1dlr", d, call(rg.player_one_down_left_right_transitions, length, width, moves,
                                 o1, o2, o3))
        emit("G3.light", d, call(rg.prob_light_break_transitions, length, width, p, o1, o2))

    # no aliasing between the per-tile lists that are returned
    for length, width in [(2, 2), (3, 1), (1, 3), (2, 3)]:
        for code in range(4):
            moves = [[code] * width for _ in range(length)]
            for name, res in [
                    ("p2", rg.player_two_transitions(length, width, moves, 10, 20)),
                    ("p1d", rg.player_one_down_transitions(length, width, 10, 99)),
                    ("p1lr", rg.player_one_left_right_transitions(length, width, moves, 10, 10)),
                    ("p1lr2", rg.player_one_left_right_transitions(length, width, moves, 10, 20)),
                    ("p1dlr", rg.player_one_down_left_right_transitions(length, width, moves,
                                                                        1, 2, 3)),
                    ("rl", rg.prob_robot_left_break_transitions(length, width, 0.1, 4)),
                    ("rr", rg.prob_robot_right_break_transitions(length, width, 0.1, 4)),
                    ("rd", rg.prob_robot_down_break_transitions(length, width, 0.1, 4, 9)),
                    ("lb", rg.prob_light_break_transitions(length, width, 0.1, 4, 9)),
                    ("tb", rg.prob_tile_break_transitions(length, width, 0.1, moves, 4, 9))]:
                ids = [id(x) for x in res]
                emit("G3.alias", "%s %dx%d code=%d" % (name, length, width, code),
                     [type(res).__name__, len(ids) == len(set(ids)),
                      [type(x).__name__ for x in res],
                      [[type(t).__name__ for t in x] for x in res]])

    # ---- G4: writers on a write()-only sink ------------------------------------
    for k in range(450):
        mode = k % 3
        pb = [0.0, 0.06, 0.25][mode]
        ps = [0.0, 0.05, 0.2][mode]
        length, width = dims(pb / 2)
        moves = matrix(length, width, MOVE_OK, MOVE_BAD, pb, ps)
        loose = matrix(length, width, LOOSE_OK, LOOSE_BAD, pb, ps)
        rewards = matrix(length, width, [0, 1, 2, 3, 4, 5, 6], REW_BAD, pb, ps)
        pt, pr, pl = prob(pb), prob(pb), prob(pb)
        d = "L=%r W=%r mv=%s lt=%s rw=%s p=%r,%r,%r" % (
            length, width, short(moves, 120), short(loose, 120), short(rewards, 120), pt, pr, pl)
        for name, fn, args in [
                ("pre", rg.write_preamble, (length, width, moves, rewards, loose)),
                ("A", rg.write_robot_A, (length, width, moves, rewards, loose, pt)),
                ("B", rg.write_robot_B, (length, width, moves, rewards, loose, pt, pr)),
                ("C", rg.write_robot_C, (length, width, moves, rewards, loose, pt, pr, pl))]:
            s = Sink()
            res = call(fn, s, *args)
            blob = json.dumps(s.calls).encode()
            emit("G4." + name, d, res + [len(s.calls), digest(blob), short(s.calls[-2:], 160)])

    # ---- G5: write_robots to a file, malformed included (partial files) -------
    for k in range(400):
        mode = k % 3
        pb = [0.0, 0.06, 0.25][mode]
        ps = [0.0, 0.05, 0.2][mode]
        length, width = dims(pb / 2)
        moves = matrix(length, width, MOVE_OK, MOVE_BAD, pb, ps)
        loose = matrix(length, width, LOOSE_OK, LOOSE_BAD, pb, ps)
        rewards = matrix(length, width, [0, 1, 2, 3, 4, 5, 6], REW_BAD, pb, ps)
        pt, pr, pl = prob(pb), prob(pb), prob(pb)
        d = "L=%r W=%r mv=%s lt=%s rw=%s p=%r,%r,%r" % (
            length, width, short(moves, 120), short(loose, 120), short(rewards, 120), pt, pr, pl)
        emit("G5", d, file_obs(rg.write_robots, "g5.py", length, width, moves, rewards, loose,
                               pt, pr, pl))
    emit("G5", "missing directory", file_obs(rg.write_robots, "nodir/x.py", 1, 1, [[1]], [[1]],
                                             [[0]], 0.1, 0.1, 0.1))

    # ---- G6: main() -----------------------------------------------------------------
    def run_main(argv):
        old = sys.argv
        sys.argv = ["roberta_generator.py"] + argv
        err, outp = io.StringIO(), io.StringIO()
        try:
            with contextlib.redirect_stderr(err), contextlib.redirect_stdout(outp):
                res = call(rg.main)
        finally:
            sys.argv = old
        if res[0] != "ok":
            gc.collect()
        return res + [err.getvalue(), outp.getvalue(), inputs_obs()]

    arg_sets = [[], ["-f"], ["-s", "47", "-w", "5", "-l", "5", "-f"], ["-w", "1"], ["-l", "1"],
                ["-w", "1", "-l", "1", "-f"], ["-s", "-1"], ["-w", "0"], ["-l", "0"], ["-p", "0"],
                ["-p", "1"], ["-q", "0"], ["-q", "1.0"], ["-t", "0"], ["-t", "1"], ["-r", "0"],
                ["-r", "1"], ["-m", "0"], ["-m", "-3"], ["-w", "x"], ["-p", "nan"], ["-q", "nan"],
                ["--bogus"], ["-h"], ["-p", "0.005"], ["-p", "0.025"], ["-q", "0.125"],
                ["-r", "0.985"], ["-t", "0.995"], ["-p", "0.015", "-q", "0.045", "-r", "0.055"],
                ["-m", "1"], ["-m", "40"], ["-s", "0", "-w", "-2", "-l", "-2"],
                ["-p", "inf"], ["-t", "1e-9"], ["-p", "1e-3", "-f"]]
    for _ in range(110):
        a = ["-s", str(rng.randrange(0, 10 ** 6)), "-w", str(rng.randrange(1, 7)),
             "-l", str(rng.randrange(1, 7)), "-p", repr(rng.choice(PROBS)),
             "-q", repr(rng.choice(PROBS)), "-r", repr(round(rng.random(), 3)),
             "-t", repr(round(rng.random(), 3)), "-m", str(rng.randrange(1, 10))]
        if rng.random() < 0.5:
            a.append("--force_down")
        arg_sets.append(a)
    for a in arg_sets:
        emit("G6", " ".join(a), run_main(a))
    shutil.rmtree("inputs")
    emit("G6", "no inputs dir", run_main(["-s", "3"]))
    os.mkdir("inputs")

    # ---- G7: create_sg_from_board ---------------------------------------------------
    fixed = [
        ([[1, 1], [1, 1]], [[1, "a"], [2, 3]], [[0, 0], [0, 0]]),
        ([[1, 1], [1, 1], [1, 1]], [[1], ["a"], []], [[0, 0], [0, 0], [0, 0]]),
        ([[1, 1], [1, 1], [1, 1]], [[1], [], ["a"]], [[0, 0], [0, 0], [0, 0]]),
        ([[1], [2], [0]], [[1], ["a"], []], [[0], [0], [0]]),
        ([[1], [2], [0]], [[1], [None], 5], [[0], [0], [0]]),
        ([[1], ["a"], []], [[1], [2], [3]], [[0], [0], [0]]),
        ([[1], [], ["a"]], [[1], [2], [3]], [[0], [0], [0]]),
        ([], [[1]], [[0]]), ([[]], [[1]], [[0]]), ([[1]], [], [[0]]), ([[1]], [[]], [[0]]),
        ([[3]], [[2]], [[1]]), ([[3.0]], [[2.5]], [[1]]), ([[True]], [[True]], [[True]]),
        ([[1, 3]], [[1, 1.0]], [[0, 1]]), ([[1, 3]], [[1.0, 1]], [[0, 1]]),
        ([[2, 1]], [[True, 1]], [[0, 1]]), ([[2, 1]], [[1, True]], [[0, 1]]),
        (None, [[1]], [[0]]), ([[1]], None, [[0]]), ([[1]], [[1]], None),
        ([[1, 2, 0, 3], [0, 1, 2, 1]], [[5, 0, 1, 2], [0, 0, 3, 1]], [[0, 1, 0, 0], [1, 0, 0, 1]]),
    ]
    for moves, rewards, loose in fixed:
        res = call(sg.create_sg_from_board, moves, rewards, loose, 0.1, 0.1, 0.1)
        if res[0] != "ok":
            gc.collect()
        emit("G7f", "mv=%s rw=%s lt=%s" % (short(moves), short(rewards), short(loose)),
             res + [inputs_obs()])
    for k in range(240):
        mode = k % 3
        pb = [0.0, 0.06, 0.25][mode]
        ps = [0.0, 0.05, 0.2][mode]
        length, width = rng.randrange(0 if mode else 1, 5), rng.randrange(0 if mode else 1, 5)
        moves = matrix(length, width, MOVE_OK[:3] if k % 2 else MOVE_OK, MOVE_BAD, pb, ps)
        loose = matrix(length, width, LOOSE_OK, LOOSE_BAD, pb, ps)
        rewards = matrix(length, width, [0, 1, 2, 3, 4, 5, 6], REW_BAD, pb, ps)
        pt, pr, pl = prob(pb), prob(pb), prob(pb)
        res = call(sg.create_sg_from_board, moves, rewards, loose, pr, pl, pt)
        if res[0] != "ok":
            gc.collect()
        emit("G7", "mv=%s rw=%s lt=%s p=%r,%r,%r" % (short(moves, 120), short(rewards, 120),
                                                      short(loose, 120), pr, pl, pt),
             res + [inputs_obs()])
        emit("G7m", short(rewards, 120), call(sg.get_max_from_matrix, rewards))
        emit("G7m", short(moves, 120), call(sg.get_max_from_matrix, moves))

    # ---- G8: small helpers -------------------------------------------------------------
    for v in [0, 1, 0.1, 0.005, 0.015, 0.025, 0.035, 0.045, 0.125, 0.5, 0.995, 0.985, 1e-9, -0.005,
              -0.015, "a", None, Fraction(1, 8), Fraction(1, 200), Decimal("0.005"), True, 1e300,
              float("nan"), float("inf"), [1]] + [rng.random() for _ in range(150)]:
        emit("G8.pts", repr(v), call(rg.prob_to_str, v))
    vals = [-1, 0, 1, 0.5, 0.0, 1.0, 3, None, "x", float("nan"), True, 0.999, 1e-12, -0.1, 2]
    for _ in range(500):
        a = [rng.choice(vals) if rng.random() < 0.3 else g for g in (0, 3, 3, 0.1, 0.1, 0.3, 0.1, 6)]
        emit("G8.chk", repr(a), call(rg.check_input, *a))
    for _ in range(150):
        length, width = dims(0.1)
        fd = rng.choice([False, True, 0, 1, None])
        seed = rng.choice([0, 1, 47, -1, "s", 2.5, rng.randrange(10 ** 9)])
        args = (seed, length, width, rng.choice(PROBS + [0, 1, None, "p"]),
                rng.choice([6, 1, 0, -1, 3, 2.5, None, 60, 2000]), fd)
        emit("G8.gen", repr(args), call(rg.gen_rnd_board, *args))
        _random.seed(7)
        emit("G8.mov", repr((length, width, fd)), call(rg.get_random_moves, length, width, fd))

    out.close()
    os.chdir("/")
    shutil.rmtree(work, ignore_errors=True)


# --------------------------------------------------------------------------- parent
def main():
    if len(sys.argv) == 4 and sys.argv[1] == "--worker":
        worker(sys.argv[2], sys.argv[3])
        return 0
    if len(sys.argv) != 3:
        print(__doc__)
        return 2
    trees = [os.path.abspath(sys.argv[1]), os.path.abspath(sys.argv[2])]
    tmp = tempfile.mkdtemp(prefix="f08_equiv_out_")
    outs = [os.path.join(tmp, "clean.tsv"), os.path.join(tmp, "patched.tsv")]
    env = dict(os.environ, PYTHONDONTWRITEBYTECODE="1", PYTHONHASHSEED="0")
    procs = [subprocess.Popen([sys.executable, os.path.abspath(__file__), "--worker", t, o],
                              env=env, stdout=subprocess.PIPE, stderr=subprocess.PIPE)
             for t, o in zip(trees, outs)]
    status = []
    for p in procs:
        try:
            so, se = p.communicate(timeout=WORKER_TIMEOUT)
            status.append((p.returncode, se.decode(errors="replace")[-2000:]))
        except subprocess.TimeoutExpired:
            p.kill()
            p.communicate()
            status.append(("timeout", ""))
    if any(s[0] != 0 for s in status):
        print("WORKER FAILURE (clean, patched):", status)
        return 1
    with open(outs[0]) as fa, open(outs[1]) as fb:
        la, lb = fa.read().split("\n"), fb.read().split("\n")
    for n, (a, b) in enumerate(zip(la, lb)):
        if a != b:
            print("DIFFERENT at case %d" % n)
            print("  clean  :", a[:1500])
            print("  patched:", b[:1500])
            return 1
    if len(la) != len(lb):
        print("DIFFERENT number of cases: %d vs %d" % (len(la), len(lb)))
        return 1
    import shutil
    shutil.rmtree(tmp, ignore_errors=True)
    print("SAME (%d cases)" % (len(la) - 1))
    return 0


if __name__ == "__main__":
    sys.exit(main())
