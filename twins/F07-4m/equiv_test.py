#!/usr/bin/env python
"""Differential test for property C07 (backward search / reversed-transition table).

usage: python equiv_test.py <path-to-patched-root> <path-to-clean-root>

Each tree is loaded in its own subprocess (``--worker <root> <out.json>``); the
worker runs a fixed, seeded battery of cases and writes ``[label, outcome]``
pairs, where outcome is the repr() of the result or ``EXC <type>: <message>``.
The parent compares the two lists entry by entry, prints PASS / FAIL and exits
0 / 1.  Solver cases that hit the per-solve time budget in either tree are
skipped (the clean tree does not converge on some non-stopping games).
"""
import json
import os
import subprocess
import sys
import tempfile

SOLVE_BUDGET = 0.25         # seconds per solve()
TIMEOUT = "TIMEOUT"


# --------------------------------------------------------------------------- #
# worker
# --------------------------------------------------------------------------- #
class _Budget(BaseException):
    pass


def _outcome(fn, *args):
    try:
        return repr(fn(*args))
    except _Budget:
        raise
    except RecursionError as exc:
        return "EXC RecursionError: " + str(exc)[:40]
    except Exception as exc:  # noqa: BLE001 - the type and text are the observation
        return "EXC %s: %s" % (type(exc).__name__, exc)


def _random_graph(rng, n, shape):
    """A transition list over n states; labels are actions or probabilities."""
    tl = []
    for u in range(n):
        if shape == "sparse":
            k = rng.choice([0, 1, 1, 2])
        elif shape == "dense":
            k = rng.randint(0, min(n, 6))
        elif shape == "forward":
            k = rng.randint(0, 3)
        else:
            k = rng.randint(0, 3)
        edges = []
        for _ in range(k):
            if shape == "forward" and rng.random() < 0.85:
                v = rng.randint(u, n - 1)
            elif shape == "islands":
                half = n // 2
                v = rng.randrange(0, half) if u < half else rng.randrange(half, n)
            else:
                v = rng.randrange(n)
            label = rng.choice(["a", "b", "c", 0.5, 0.25, 1])
            edges.append((label, v))
            if rng.random() < 0.15:            # parallel edge
                edges.append((rng.choice(["p", 0.125]), v))
            if rng.random() < 0.08:            # self-loop
                edges.append(("self", u))
        tl.append(edges)
    return tl


def _random_finals(rng, n):
    k = rng.choice([1, 1, 2, 3, max(1, n // 2), n])
    finals = [rng.randrange(n) for _ in range(k)]
    if rng.random() < 0.4:                      # repetitions
        finals += [rng.choice(finals) for _ in range(rng.randint(1, 3))]
    rng.shuffle(finals)
    return finals


def _graph_cases(rdfs, rng, out):
    import copy
    shapes = ["sparse", "dense", "forward", "islands", "mixed"]
    for i in range(700):
        n = rng.choice([1, 2, 3, 4, 5, 6, 8, 10, 15, 25, 40])
        tl = _random_graph(rng, n, rng.choice(shapes))
        finals = _random_finals(rng, n)
        tl_before, finals_before = copy.deepcopy(tl), list(finals)
        out.append(["g%d dfs" % i, _outcome(rdfs.reverse_dfs, tl, finals)])
        out.append(["g%d rtl" % i, _outcome(rdfs.reverse_transition_list, tl)])
        out.append(["g%d unmutated" % i, repr((tl == tl_before, finals == finals_before))])
        if i % 5 == 0:
            core = rdfs.reverse_transition_list_core(tl)
            out.append(["g%d core" % i, repr(core)])
            out.append(["g%d l2d" % i, _outcome(rdfs.list_of_tuples_to_dict_of_lists, core)])
            rev = rdfs.reverse_transition_list(tl)
            for start in (finals[0], rng.randrange(n)):
                for pre in (set(), {finals[-1]}, set(range(0, n, 3)), {start}):
                    seen = set(pre)
                    res = _outcome(rdfs.reverse_dfs_from, start, rev, seen)
                    out.append(["g%d from %r %r" % (i, start, sorted(pre)),
                                res + " " + repr(sorted(seen))])
        # other containers for the final states
        if i % 7 == 0:
            out.append(["g%d tuple" % i, _outcome(rdfs.reverse_dfs, tl, tuple(finals))])
            out.append(["g%d set" % i, _outcome(rdfs.reverse_dfs, tl, set(finals))])
            out.append(["g%d dict" % i, _outcome(rdfs.reverse_dfs, tl, dict.fromkeys(finals))])
            out.append(["g%d range" % i, _outcome(rdfs.reverse_dfs, tl, range(n))])
            out.append(["g%d iter" % i, _outcome(rdfs.reverse_dfs, tl, iter(finals))])
            out.append(["g%d tl-tuple" % i, _outcome(
                rdfs.reverse_dfs, tuple(tuple(e) for e in tl), finals)])


def _big_cases(rdfs, rng, out, tmpdir):
    n = 6000
    chain = [[("a", u + 1)] for u in range(n - 1)] + [[(1, n - 1)]]
    out.append(["chain fwd", _outcome(rdfs.reverse_dfs, chain, [n - 1])])
    out.append(["chain mid", _outcome(rdfs.reverse_dfs, chain, [n // 2, 17, n // 2])])
    back = [[(1, 0)]] + [[("a", u - 1)] for u in range(1, n)]
    out.append(["chain back", _outcome(rdfs.reverse_dfs, back, [0])])
    out.append(["chain rtl", _outcome(rdfs.reverse_transition_list, chain)])
    ring = [[("a", (u + 1) % n), (0.5, (u + 7) % n)] for u in range(n)]
    out.append(["ring", _outcome(rdfs.reverse_dfs, ring, [5])])
    star = [[("a", 0)] for _ in range(n)]
    out.append(["star", _outcome(rdfs.reverse_dfs, star, [0])])
    out.append(["star rtl", _outcome(rdfs.reverse_transition_list, star)])
    fan = [[("x", v) for v in range(1, 3000)]] + [[(1, v)] for v in range(1, 3000)]
    out.append(["fan", _outcome(rdfs.reverse_dfs, fan, [2999, 1])])
    # binary tree pointing to the parents, and a comb
    tree = [[(1, 0)]] + [[("up", (u - 1) // 2)] for u in range(1, 4095)]
    out.append(["tree", _outcome(rdfs.reverse_dfs, tree, [0])])
    out.append(["tree leaf", _outcome(rdfs.reverse_dfs, tree, [4094])])
    # the generator's boards, tall ones included
    import roberta_generator as gen
    boards = [(0, 200, 3, False), (1, 150, 2, True), (2, 1, 1, False), (3, 1, 5, True),
              (4, 300, 1, False), (5, 4, 4, False), (6, 2, 2, True), (7, 40, 6, True)]
    for seed, length, width, force_down in boards:
        moves, rewards, loose = gen.gen_rnd_board(seed, length, width, 0.3, 6, force_down)
        name = os.path.join(tmpdir, "board_%d.py" % seed)
        gen.write_robots(name, length, width, moves, rewards, loose, 0.1, 0.1, 0.05)
        with open(name) as handle:
            games = eval(handle.read())
        for gname, game in sorted(games.items()):
            tl, finals = game["transition_list"], game["final_states"]
            label = "board %d %s" % (seed, gname)
            out.append([label + " dfs", _outcome(rdfs.reverse_dfs, tl, finals)])
            out.append([label + " dfs rev", _outcome(
                rdfs.reverse_dfs, tl, list(reversed(finals)) + list(finals))])
            out.append([label + " rtl", _outcome(rdfs.reverse_transition_list, tl)])
            out.append([label + " start", _outcome(rdfs.reverse_dfs, tl, [0])])


def _boundary_cases(rdfs, out):
    dfs, rtl = rdfs.reverse_dfs, rdfs.reverse_transition_list
    g3 = [[("a", 1), ("b", 2)], [(1, 1)], [(0.5, 0), (0.5, 2)]]
    cases = [
        ("empty/empty", [], []),
        ("empty/[0]", [], [0]),
        ("g3/empty", g3, []),
        ("one self", [[(1, 0)]], [0]),
        ("one none", [[]], [0]),
        ("one none dup", [[]], [0, 0, 0]),
        ("all finals", g3, [2, 0, 1, 1]),
        ("two no edges", [[], []], [1]),
        ("parallel", [[("a", 1), ("b", 1), ("c", 1)], [(1, 1)]], [1]),
        ("two preds", [[("a", 1), ("b", 2)], [(1, 3)], [(1, 3)], [(1, 3)], [(1, 0)]], [3]),
        ("diamond deep", [[("a", 1), ("b", 2)], [(1, 3)], [(1, 3)], [(1, 4)], [(1, 4)]], [4]),
        ("unreachable part", [[("a", 0)], [("a", 2)], [("a", 1)], [(1, 3)]], [3]),
        # malformed final states
        ("final too big", g3, [3]),
        ("final too big second", g3, [1, 7, 9]),
        ("two bad finals", g3, [9, 7]),
        ("final negative", g3, [-1]),
        ("final str", g3, ["1"]),
        ("final float", g3, [1.0]),
        ("final float frac", g3, [1.5]),
        ("final bool", g3, [True]),
        ("final None", g3, [None]),
        ("final unhashable", g3, [[1]]),
        ("final unhashable later", g3, [2, [1]]),
        ("finals None", g3, None),
        ("finals int", g3, 2),
        ("finals str", g3, "12"),
        # malformed transition lists
        ("tl None", None, [0]),
        ("tl int", 5, [0]),
        ("entry int", [[("a", 1)], [5]], [1]),
        ("entry triple", [[("a", 1, 2)], []], [1]),
        ("entry single", [[("a",)], []], [1]),
        ("entry str pair", [["ab"], []], [1]),
        ("entry str long", [["abc"], []], [1]),
        ("row None", [None, []], [1]),
        ("row int", [3, []], [1]),
        ("row dict", [{("a", 1): 0}, []], [1]),
        ("target too big", [[("a", 5)], []], [1]),
        ("target too big final", [[("a", 5)], []], [5]),
        ("target negative final", [[("a", -1)], []], [-1]),
        ("target str", [[("a", "x")], []], ["x"]),
        ("target str other final", [[("a", "x")], [("b", 0)]], [0]),
        ("target float", [[("a", 1.0)], [("b", 1)]], [1]),
        ("target bool", [[("a", True)], [("b", False)]], [1]),
        ("target None", [[("a", None)], []], [None]),
        ("target unhashable", [[("a", [1])], []], [1]),
        ("unhashable then bad entry", [[("a", [1])], [5]], [1]),
        ("bad entry then unhashable", [[5], [("a", [1])]], [1]),
        ("unhashable and bad final", [[("a", [1])], []], [9]),
        ("bad entry and bad finals", [[5]], None),
    ]
    for label, tl, finals in cases:
        out.append(["b dfs " + label, _outcome(dfs, tl, finals)])
        out.append(["b rtl " + label, _outcome(rtl, tl)])
    out.append(["b dfs generator tl", _outcome(dfs, (row for row in g3), [1])])
    out.append(["b rtl generator tl", _outcome(rtl, (row for row in g3))])
    out.append(["b dfs exhausted finals", _outcome(dfs, g3, iter([]))])

    # helpers called directly
    l2d, core, add = (rdfs.list_of_tuples_to_dict_of_lists, rdfs.reverse_transition_list_core,
                      rdfs.add_missing_states)
    for label, arg in [
            ("empty", []), ("pairs", [(1, 99), (1, 98), (2, 97), (1, 90)]),
            ("triples", [(1, 2, 3), (1, 4, 5)]), ("short", [(1,)]), ("short unhashable", [([1],)]),
            ("unhashable", [([1], 2)]), ("lists", [[1, 2], [1, 3]]), ("strings", ["ab", "ac"]),
            ("int", [5]), ("None", None), ("dict items", [{0: 1, 1: 2}]), ("dict item bad", [{}]),
            ("tuple arg", ((3, 1), (2, 1), (3, 0))), ("mixed keys", [(1, 0), (1.0, 1), (True, 2)])]:
        out.append(["h l2d " + label, _outcome(l2d, arg)])
    for label, arg in [("empty", []), ("rows", [[("a", 1)], [], [(0.5, 0), (0.5, 0)]]),
                       ("None", None), ("bad row", [[1]]), ("tuple rows", ((("a", 0),),))]:
        out.append(["h core " + label, _outcome(core, arg)])
    for label, d, n in [
            ("empty 0", {}, 0), ("empty 3", {}, 3), ("neg", {1: [0]}, -2), ("keep", {2: [0], 0: [2]}, 4),
            ("extra keys", {7: [1], "x": [0]}, 2), ("float n", {}, 2.0), ("None n", {}, None),
            ("bool key", {True: [0]}, 3), ("float key", {2.0: [1]}, 3), ("str n", {}, "3")]:
        def run(d=d, n=n):
            arg = dict(d)
            res = add(arg, n)
            return res, res is arg, list(res) == list(arg)
        out.append(["h add " + label, _outcome(run)])

    def distinct_lists():
        res = add({}, 3)
        res[0].append("mark")
        return res
    out.append(["h add distinct lists", _outcome(distinct_lists)])

    def rtl_distinct_lists():
        res = rtl([[], [], [("a", 0)]])
        res[1].append("mark")
        return res
    out.append(["h rtl distinct lists", _outcome(rtl_distinct_lists)])


def _random_game(rng):
    import tad
    n = rng.randint(2, 9)
    n_final = rng.choice([1, 1, 2, 3])
    finals = rng.sample(range(1, n), min(n_final, n - 1))
    dead = [s for s in range(1, n) if s not in finals and rng.random() < 0.15]
    players, tl, rewards = [], [], []
    reward_choices = [0] if rng.random() < 0.5 else [0, 0, 1, 2, 5]
    for u in range(n):
        if u in finals or u in dead:
            players.append(tad.PROBABILISTIC)
            tl.append([(1, u)])
            rewards.append(0)
            continue
        player = rng.choice([tad.PLAYER_1, tad.PLAYER_2, tad.PROBABILISTIC])
        players.append(player)
        rewards.append(rng.choice(reward_choices))
        k = rng.randint(1, 3)
        # mostly forward, some back edges (cycles), ties on purpose
        targets = [rng.randint(u + 1, n - 1) if (u + 1 < n and rng.random() < 0.75)
                   else rng.randrange(n) for _ in range(k)]
        if player == tad.PROBABILISTIC:
            probs = {1: [1], 2: [0.5, 0.5], 3: [0.5, 0.25, 0.25]}[k]
            tl.append(list(zip(probs, targets)))
        else:
            tl.append([("act%d" % j, t) for j, t in enumerate(targets)])
    if rng.random() < 0.3:
        finals = finals + [rng.choice(finals)]
        rng.shuffle(finals)
    return dict(rewards=rewards, players=players, transition_list=tl, final_states=finals)


def _solver_cases(rng, out):
    import copy
    import signal
    import tad

    def on_alarm(signum, frame):
        raise _Budget()
    signal.signal(signal.SIGALRM, on_alarm)

    def solve(game, prune):
        g = copy.deepcopy(game)
        sg = tad.StochasticGame(prune_states=prune, **g)
        signal.setitimer(signal.ITIMER_REAL, SOLVE_BUDGET)
        try:
            res = _outcome(sg.solve)
        except _Budget:
            return TIMEOUT
        finally:
            signal.setitimer(signal.ITIMER_REAL, 0)
        return res + " | " + repr(g == game)

    for i in range(130):
        game = _random_game(rng)
        for prune in (True, False):
            out.append(["s%d prune=%s" % (i, prune), solve(game, prune)])

    base = dict(rewards=[1, 0, 0], players=[tad.PLAYER_1, tad.PROBABILISTIC, tad.PROBABILISTIC],
                transition_list=[[("a", 1), ("b", 2)], [(1, 1)], [(1, 2)]], final_states=[1])
    for label, change in [
            ("ok", {}), ("final oob", {"final_states": [3]}), ("finals empty", {"final_states": []}),
            ("finals dup", {"final_states": [1, 1, 2]}), ("no reach", {"final_states": [1],
             "transition_list": [[("a", 2)], [(1, 1)], [(1, 2)]]}),
            ("missing row", {"transition_list": [[("a", 1)], [], [(1, 2)]]}),
            ("bad target", {"transition_list": [[("a", 4)], [(1, 1)], [(1, 2)]]})]:
        game = dict(base, **change)
        for prune in (True, False):
            out.append(["s malformed %s prune=%s" % (label, prune), solve(game, prune)])

    # Solver.solve_reachability called directly
    def direct(finals, prune):
        sg = tad.StochasticGame(prune_states=prune, **copy.deepcopy(base))
        solver = tad.Solver(state_list=sg.init_states())
        res = solver.solve_reachability(sg.transition_list, finals, prune)
        return res, [s.reach_probability for s in solver.state_list]
    for finals in ([1], [], [2, 1], (1,), None, [5]):
        for prune in (True, False):
            out.append(["s direct %r %s" % (finals, prune), _outcome(direct, finals, prune)])


def worker(root, out_path):
    import logging
    import random
    sys.path.insert(0, root)
    os.chdir(root)
    logging.disable(logging.CRITICAL)
    sys.setrecursionlimit(1000)
    import reverse_dfs as rdfs
    assert os.path.dirname(os.path.abspath(rdfs.__file__)) == os.path.abspath(root)
    out = []
    tmpdir = tempfile.mkdtemp(prefix="c07_boards_")
    _graph_cases(rdfs, random.Random(20260704), out)
    _big_cases(rdfs, random.Random(7), out, tmpdir)
    _boundary_cases(rdfs, out)
    _solver_cases(random.Random(99), out)
    with open(out_path, "w") as handle:
        json.dump(out, handle)


# --------------------------------------------------------------------------- #
# parent
# --------------------------------------------------------------------------- #
def _run(root, out_path):
    proc = subprocess.run(
        [sys.executable, os.path.abspath(__file__), "--worker", os.path.abspath(root), out_path],
        stdout=subprocess.PIPE, stderr=subprocess.STDOUT, text=True,
        env=dict(os.environ, PYTHONDONTWRITEBYTECODE="1", PYTHONHASHSEED="0"))
    if proc.returncode != 0:
        print("worker for %s crashed:\n%s" % (root, proc.stdout))
        return None
    with open(out_path) as handle:
        return json.load(handle)


def main(argv):
    if len(argv) == 4 and argv[1] == "--worker":
        worker(argv[2], argv[3])
        return 0
    if len(argv) != 3:
        print(__doc__)
        return 2
    patched_root, clean_root = argv[1], argv[2]
    with tempfile.TemporaryDirectory(prefix="c07_equiv_") as tmp:
        patched = _run(patched_root, os.path.join(tmp, "patched.json"))
        clean = _run(clean_root, os.path.join(tmp, "clean.json"))
    if patched is None or clean is None:
        print("FAIL")
        return 1
    problems, skipped = [], 0
    if [p[0] for p in patched] != [c[0] for c in clean]:
        problems.append("the two trees produced different case lists")
    for (label, got), (_, want) in zip(patched, clean):
        if TIMEOUT in (got, want):
            skipped += 1
            continue
        if got != want:
            problems.append("%s\n   clean  : %s\n   patched: %s" % (label, want[:300], got[:300]))
    print("%d cases compared, %d skipped on the time budget" % (len(clean) - skipped, skipped))
    if problems:
        for text in problems[:25]:
            print("DIFF " + text)
        print("FAIL (%d differences)" % len(problems))
        return 1
    print("PASS")
    return 0


if __name__ == "__main__":
    sys.exit(main(sys.argv))
