#!/usr/bin/env python
"""Differential test for property C13 (results do not depend on how the game is written down).

usage: python equiv.py <clean_repo_dir> <patched_repo_dir>

Both trees are loaded in their own subprocess (the module names collide), run the SAME
deterministic set of cases and print one line per case (a repr).  The parent compares the
two streams line by line, prints `SAME` and exits 0 when nothing differs, prints the first
difference and exits 1 otherwise.

Solves that may not terminate are cut off by a deterministic cap on the number of
"iteration" log records (tad logs one per sweep); the state reached at the cut-off is
compared as well, so "both cut off" counts as same only if the partial results agree.
"""
import hashlib
import os
import random
import signal
import subprocess
import sys
import tempfile

NAN = float("nan")
INF = float("inf")
P1, P2, PR = "Player 1", "Player 2", "Probabilistic"


# ----------------------------------------------------------------------------------------------
# child side
# ----------------------------------------------------------------------------------------------
class CutOff(Exception):
    pass


class CaseTimeout(Exception):
    pass


class LogShim:
    """Stands in for the `logging` module inside tad: hashes every record, counts sweeps."""

    def __init__(self, real):
        self._real = real
        self.reset(10 ** 9)

    def reset(self, cap):
        self._hash = hashlib.sha256()
        self._n = 0
        self._iterations = 0
        self._cap = cap

    def digest(self):
        return "%d:%s" % (self._n, self._hash.hexdigest()[:16])

    def __getattr__(self, name):
        return getattr(self._real, name)

    def _record(self, level, msg):
        self._n += 1
        self._hash.update(("%s|%s\n" % (level, msg)).encode())

    def debug(self, msg, *args):
        self._record("D", msg)
        if isinstance(msg, str) and msg.startswith("iteration"):
            self._iterations += 1
            if self._iterations > self._cap:
                raise CutOff("cut off after %d sweeps" % self._cap)

    def info(self, msg, *args):
        self._record("I", msg)

    def getLogger(self, *args):
        return self

    def getEffectiveLevel(self):
        return self._real.DEBUG


def describe(call):
    try:
        return "OK " + repr(call())
    except CutOff as exc:
        return "CUT " + str(exc)
    except CaseTimeout:
        return "TIMEOUT"
    except RecursionError:
        return "EXC RecursionError"
    except Exception as exc:  # noqa: BLE001 - the type and the message are the observation
        return "EXC %s: %s" % (type(exc).__name__, exc)


def snapshot(state_list):
    if state_list is None:
        return None
    return [(type(s).__name__, s.idx, s.next_states, s.reach_probability, s.expected_rewards,
             s.expected_rewards_min_reach, s.expected_reach_min_rewards) for s in state_list]


# ------------------------------------------------------------------ random well-formed games
ACTIONS = ["a", "b", "c", "d", "e", "left", "right", "down", "alfa_1", "alfa_2"]
DYADIC = [[1], [0.5, 0.5], [0.25, 0.75], [0.5, 0.25, 0.25], [0.25, 0.25, 0.25, 0.25],
          [0.125, 0.875], [0.5, 0.125, 0.375]]
DECIMAL = [[0.1, 0.9], [0.8, 0.1, 0.1], [0.3, 0.3, 0.4], [0.6, 0.2, 0.2], [0.8, 0.125, 0.075],
           [0.05, 0.95], [1 / 3, 1 / 3, 1 / 3], [0.7, 0.3]]


def random_game(rng, n=None, stopping=True):
    """A random game.  With stopping=True every cycle runs through a probabilistic state
    that leaks to an absorbing zero-reward state, so value iteration converges."""
    n = n or rng.randint(3, 9)
    n_final = rng.choice([1, 1, 2, 3]) if n > 4 else 1
    finals = rng.sample(range(1, n), min(n_final, n - 1))
    if rng.random() < 0.04:
        finals[0] = 0
    sink = None
    if rng.random() < 0.6:
        rest = [s for s in range(1, n) if s not in finals]
        if rest:
            sink = rng.choice(rest)
    absorbing = [s for s in range(n) if s == sink or (s in finals and rng.random() < 0.9)]
    if not absorbing:
        absorbing = [finals[0]]
    exits = [s for s in absorbing if s in finals] * 3 + absorbing
    players = [rng.choice([P1, P2, PR, PR]) for _ in range(n)]
    for s in absorbing:
        players[s] = PR if s in finals else rng.choice([PR, P2, P1])
    safe = [s for s in range(n) if players[s] == PR or s in absorbing]
    rewards, transitions = [], []
    for s in range(n):
        kind = players[s]
        if s in absorbing:
            rewards.append(0 if stopping else rng.choice([0, 0, 1]))
            transitions.append([(1, s)] if kind == PR else [("stay", s)])
            continue
        rewards.append(rng.choice([0, 0, 1, 1, 2, 3, 5, 10, 0.5, 2.0]))
        if kind == PR:
            probs = list(rng.choice(DYADIC + DECIMAL))
            rng.shuffle(probs)
            targets = [rng.randrange(n) for _ in probs]
            if rng.random() < 0.25 and len(targets) > 1:
                targets[0] = targets[1]          # parallel edges
            if stopping:
                targets[rng.randrange(len(targets))] = rng.choice(exits)
            transitions.append(list(zip(probs, targets)))
        else:
            k = rng.randint(1, 4)
            names = rng.sample(ACTIONS, k)
            if rng.random() < 0.12 and k > 1:
                names[0] = names[1]              # one action name used twice
            pool = safe if stopping else range(n)
            targets = [rng.choice(pool) for _ in range(k)]
            if rng.random() < 0.3 and k > 1:
                targets[-1] = targets[0]         # parallel edges
            transitions.append(list(zip(names, targets)))
    return {"rewards": rewards, "players": players, "transition_list": transitions,
            "final_states": finals}


def symmetric_game(rng):
    """Games with exact ties: several identical branches under a chooser."""
    branches = rng.randint(2, 4)
    chooser = rng.choice([P1, P2])
    mid = rng.choice([P1, P2, PR])
    # 0 chooser, 1..b branch heads, then good, bad
    good, bad = branches + 1, branches + 2
    r = rng.choice([0, 1, 2, 2.0])
    rewards = [rng.choice([0, 1, 3])] + [r] * branches + [0, 0]
    players = [chooser] + [mid] * branches + [PR, PR]
    p = rng.choice([0.5, 0.25, 0.8, 0.1])
    t = [[(ACTIONS[i], i + 1) for i in range(branches)]]
    for i in range(branches):
        if mid == PR:
            t.append([(p, good), (1 - p, bad)] if rng.random() < 0.7 else [(1 - p, bad), (p, good)])
        else:
            t.append([("x", good), ("y", bad)] if rng.random() < 0.7 else [("y", bad), ("x", good)])
    t += [[(1, good)], [(1, bad)]]
    if rng.random() < 0.3:                      # make one branch strictly different
        i = rng.randint(1, branches)
        rewards[i] = rewards[i] + 1
    return {"rewards": rewards, "players": players, "transition_list": t, "final_states": [good]}


def transformed(game, rng):
    """Another presentation of the same game: permute states (0 fixed), reorder, rename."""
    n = len(game["players"])
    perm = list(range(1, n))
    rng.shuffle(perm)
    perm = [0] + perm                           # old -> new
    names = sorted({a for t in game["transition_list"] for a, _ in t if isinstance(a, str)})
    fresh = ["z%d" % i for i in range(len(names))]
    rng.shuffle(fresh)
    rename = dict(zip(names, fresh)) if rng.random() < 0.7 else {}
    rewards, players, transitions = [None] * n, [None] * n, [None] * n
    for old in range(n):
        new = perm[old]
        rewards[new] = game["rewards"][old]
        players[new] = game["players"][old]
        trans = [(rename.get(a, a) if isinstance(a, str) else a, perm[t])
                 for a, t in game["transition_list"][old]]
        mode = rng.random()
        if mode < 0.4:
            rng.shuffle(trans)
        elif mode < 0.6:
            trans.reverse()
        transitions[new] = trans
    finals = [perm[f] for f in game["final_states"]]
    rng.shuffle(finals)
    return {"rewards": rewards, "players": players, "transition_list": transitions,
            "final_states": finals}


def malformed_games(rng):
    base = random_game(random.Random(4242), n=6)

    def variant(**changes):
        g = {k: (list(v) if isinstance(v, list) else v) for k, v in base.items()}
        g["transition_list"] = [list(t) for t in base["transition_list"]]
        g.update(changes)
        return g

    out = [base]
    out.append(variant(rewards=base["rewards"][:-1]))
    out.append(variant(rewards=base["rewards"] + [1]))
    out.append(variant(players=base["players"][:-1]))
    out.append(variant(transition_list=base["transition_list"][:-1]))
    out.append(variant(rewards=[-1] + base["rewards"][1:]))
    out.append(variant(rewards=[NAN] * 6))
    out.append(variant(rewards=[1, NAN, 2, NAN, 0, NAN]))
    out.append(variant(rewards=[INF, 1, 1, 1, 1, 1]))
    out.append(variant(rewards=[True, False, 1, 1, 1, 1]))
    out.append(variant(rewards=[]))
    out.append(variant(final_states=[]))
    out.append(variant(final_states=[6]))
    out.append(variant(final_states=[-1]))
    out.append(variant(final_states=[0]))
    out.append(variant(final_states=[0, 1, 2, 3, 4, 5]))
    out.append(variant(final_states=[2, 2, 2]))
    out.append(variant(final_states=(3, 1)))
    out.append(variant(final_states=[1.0]))
    out.append(variant(final_states=["1"]))
    out.append(variant(final_states=None))
    out.append(variant(players=["Player 3"] + base["players"][1:]))
    out.append(variant(players=[None] * 6))
    for idx in range(6):
        for bad in ([], None, (), "ab", [("a",)], [("a", 1, 2)], [["a", 1]], [(1, "a")],
                    [("a", 1.0)], [("a", 6)], [("a", -1)], [(0.5, 1), (0.5, 6)], [(None, 1)],
                    [("a", 1), 7], [(NAN, 1)], [(INF, 1), (0.5, 2)], [(-0.5, 1), (1.5, 2)],
                    [(0.2, 1)], [(0.7, 1), (0.7, 2)], [(True, 1)], [("a", True)], [(2, 3)],
                    [("", 0)], [(0, 1), (0, 2)], [(0.0, 1), (1, 2)]):
            t = [list(x) for x in base["transition_list"]]
            t[idx] = bad
            out.append(variant(transition_list=t))
    # NaN / inf in otherwise sensible random games
    for k in range(60):
        g = random_game(rng)
        kind = k % 4
        if kind == 0:
            g["rewards"][rng.randrange(len(g["rewards"]))] = NAN
        elif kind == 1:
            g["rewards"] = [NAN if rng.random() < 0.5 else r for r in g["rewards"]]
        elif kind == 2:
            s = rng.randrange(len(g["players"]))
            if g["players"][s] == PR:
                g["transition_list"][s] = [(NAN, t) for _, t in g["transition_list"][s]]
            else:
                g["rewards"][s] = INF
        else:
            s = rng.randrange(len(g["players"]))
            if g["players"][s] == PR:
                g["transition_list"][s] = [(p * 2 - 0.5, t) for p, t in g["transition_list"][s]]
            else:
                g["rewards"][s] = NAN
        out.append(g)
    return out


def run_solve(tad, shim, game, prune, cap):
    import copy
    g = copy.deepcopy(game)
    before = repr(g)
    shim.reset(cap)
    captured = {}
    sg = tad.StochasticGame(prune_states=prune, **g)
    original_init = sg.init_states

    def capturing_init():
        captured["states"] = original_init()
        return captured["states"]

    sg.init_states = capturing_init
    counted = describe(sg.count_transitions)
    result = describe(sg.solve)
    return "%s | %s | %s | log=%s | untouched=%s" % (
        counted, result, snapshot(captured.get("states")), shim.digest(), repr(g) == before)


# ------------------------------------------------------------------ direct calls on the nodes
VALUES = [0, 0.0, -0.0, 1, 1.0, 0.5, 0.25, 0.3333333, 0.33333334, 0.9999996, 0.9999994,
          0.4999995, 0.5000005, 2, 2.0, 3.5, 7, 1e-7, 1e-9, -1, -0.5, NAN, INF, -INF, True, 0.75]
TAME = [0, 0.0, 1, 1.0, 0.5, 0.25, 0.3333333, 0.33333334, 0.9999996, 2, 2.0, 3.5, 7, 0.75]


def node_cases(tad, shim, rng, count):
    lines = []
    for case in range(count):
        game = random_game(rng, n=rng.randint(2, 8), stopping=False)
        n = len(game["players"])
        finals = game["final_states"]
        try:
            sg = tad.StochasticGame(prune_states=True, **game)
            states = sg.init_states()
        except Exception as exc:  # noqa: BLE001
            lines.append("nodes %d init EXC %s: %s" % (case, type(exc).__name__, exc))
            continue
        pool = VALUES if case % 3 else TAME
        narrow = rng.sample(pool, rng.randint(1, 3)) if rng.random() < 0.5 else pool
        for s in states:
            s.reach_probability = rng.choice(narrow)
            s.expected_rewards = rng.choice(narrow)
            s.expected_rewards_min_reach = rng.choice(narrow)
            s.expected_reach_min_rewards = rng.choice(narrow)
        out = []
        for s in states:
            out.append(describe(lambda: s.value_iteration_reach(states)))
            out.append(describe(lambda: s.value_iteration_rewards(states)))
            if s.player == P1:
                for floor in (6, 0, 2):
                    out.append(describe(lambda: s.get_best_strategies_reachability(states, floor)))
                    out.append(describe(lambda: s.get_best_strategies_total_rewards(states, floor)))
            if s.player == P2:
                for floor in (6, 0, 2):
                    out.append(describe(lambda: s.get_worst_strategies_reachability(states, floor)))
                    out.append(describe(lambda: s.get_worst_strategies_total_rewards(states, floor)))
                acts = [a for a, _ in s.next_states]
                for strategies in ([], acts, acts[:1], acts[-1:], ["nope"], rng.sample(acts, rng.randint(0, len(acts)))):
                    out.append(describe(lambda: s._expected_rewards_min_reach(states, strategies)))
        lines.append("nodes %d %s %s" % (case, snapshot(states), out))
        # mutating calls, each on a fresh set of nodes carrying the same values
        for what in ("prune_paths", "prune_reach", "remove_path", "solver"):
            fresh = tad.StochasticGame(prune_states=True, **game).init_states()
            for f, s in zip(fresh, states):
                f.reach_probability = s.reach_probability
                f.expected_rewards = s.expected_rewards
                f.expected_rewards_min_reach = s.expected_rewards_min_reach
                f.expected_reach_min_rewards = s.expected_reach_min_rewards
            out = []
            if what == "prune_paths":
                for f in fresh:
                    if f.player != P2:
                        out.append(describe(lambda: f.prune_paths(fresh)))
            elif what == "prune_reach":
                for f in fresh:
                    if f.player == P1:
                        acts = [a for a, _ in f.next_states]
                        pick = rng.sample(acts, rng.randint(0, len(acts))) + rng.choice([[], ["zz"]])
                        out.append(describe(lambda: f.prune_paths_reachability(pick)))
            elif what == "remove_path":
                for f in fresh:
                    if f.player != P2 and f.next_states:
                        victim = rng.choice(f.next_states + [("ghost", 0)])
                        out.append(describe(lambda: f.remove_path(victim)))
            else:
                shim.reset(40)
                solver = tad.Solver(state_list=fresh, threshold=rng.choice([10 ** -6, 10 ** -3, 0.5]))
                out.append(describe(lambda: solver.floor))
                out.append(describe(solver._get_reachability_strategies))
                out.append(describe(solver._get_total_rewards_strategies))
                strategies = solver._get_reachability_strategies()
                out.append(describe(lambda: solver.prune_reachability(strategies)))
                step = rng.choice(["paths", "states", "both", "none"])
                if step == "paths":
                    out.append(describe(solver.prune_paths))
                elif step == "states":
                    out.append(describe(solver.prune_states))
                elif step == "both":
                    out.append(describe(solver.prune_stochastich_game))
                out.append(step)
                out.append(snapshot(fresh))
                order = [i for i in range(n) if i not in finals]
                if rng.random() < 0.5:
                    rng.shuffle(order)
                out.append(describe(lambda: solver.value_iteration_reachability(order, rng.random() < 0.5)))
                out.append(describe(solver.solve_total_rewards))
                out.append(shim.digest())
            lines.append("nodes %d %s %s %s" % (case, what, out, snapshot(fresh)))
    return lines


# ------------------------------------------------------------------ reverse_dfs module
def rdfs_cases(rdfs, rng, count):
    lines = []
    keys = [0, 1, 2, 3, 4, 5, 1.0, True, "a", "b", None, (1, 2), 7, -1]
    for case in range(count):
        n = rng.randint(1, 9)
        tl = []
        for s in range(n):
            k = rng.randint(0, 4)
            tl.append([(rng.choice(["a", "b", 0.5, 1]), rng.randrange(n)) for _ in range(k)])
        flavour = case % 10
        if flavour == 7 and tl[0]:
            tl[0][0] = (tl[0][0][0], n + rng.randint(0, 2))       # edge to a missing state
        if flavour == 8:
            tl[rng.randrange(n)] = rng.choice([None, 5, [("a",)], [("a", 1, 2)], [7], "ab", [("a", [1])]])
        if flavour == 9:
            tl = tuple(tuple(t) for t in tl)
        finals = [rng.randrange(n) for _ in range(rng.randint(0, 3))]
        if case % 13 == 0:
            finals = tuple(finals)
        if case % 17 == 0:
            finals = list(finals) + [n + 1]
        if case % 19 == 0:
            finals = [float(f) for f in finals]
        out = [describe(lambda: rdfs.reverse_transition_list_core(tl)),
               describe(lambda: rdfs.reverse_transition_list(tl)),
               describe(lambda: rdfs.reverse_dfs(tl, finals)),
               describe(lambda: rdfs.reverse_dfs(tl, iter(finals))),
               describe(lambda: rdfs.reverse_dfs(tl, set(finals)))]
        pairs = [(rng.choice(keys), rng.choice(keys)) for _ in range(rng.randint(0, 8))]
        if case % 11 == 0:
            pairs.append(([1], 2))
        if case % 23 == 0:
            pairs.append((1,))
        if case % 29 == 0:
            pairs.append((1, 2, 3))
        out.append(describe(lambda: rdfs.list_of_tuples_to_dict_of_lists(pairs)))
        out.append(describe(lambda: rdfs.list_of_tuples_to_dict_of_lists(tuple(pairs))))
        out.append(describe(lambda: rdfs.list_of_tuples_to_dict_of_lists(iter(pairs))))
        d = {}
        for key in rng.sample([5, 3, 0, 8, 1.0, True, "x", 2], rng.randint(0, 5)):
            d[key] = [rng.randrange(5)]
        number = rng.choice([0, 1, 3, 6, 9, -2])

        def add_missing():
            result = rdfs.add_missing_states(d, number)
            return result, result is d, [v is w for v in result.values() for w in result.values()].count(True)

        out.append(describe(add_missing))
        out.append(describe(lambda: rdfs.add_missing_states(d, 2.5)))

        def dfs_from():
            rev = rdfs.reverse_transition_list(tl)
            visited = set(rng.sample(range(n), rng.randint(0, n)))
            start = rng.randrange(n + 1)
            answer = rdfs.reverse_dfs_from(start, rev, visited)
            return answer, sorted(visited, key=repr), rev

        out.append(describe(dfs_from))
        lines.append("rdfs %d %s" % (case, out))
    return lines


# ------------------------------------------------------------------ whole program on files
def file_cases(tree, inputs_dir, tad, shim):
    import conditionalrewards as cr
    lines = []
    ticks = [0.0]

    def fake_time():
        ticks[0] += 0.25
        return ticks[0]

    import types
    cr.time = types.SimpleNamespace(time=fake_time)
    wanted = ["example_17_08.py", "example_games.py", "paper_games.py", "manual_1_game_a.py",
              "robot_1_w1_l2_r6_rb10_lb5_tb10_lt0.py",
              "robot_1_w2_l1_r6_rb10_lb5_tb10_lt0.py",
              "robot_manual_0_w4_l4_r6_rb10_lb5_tb10_lt30.py"]
    work = tempfile.mkdtemp(prefix="equiv_f13_")
    os.makedirs(os.path.join(work, "outputs"))
    os.makedirs(os.path.join(work, "inputs"))
    os.chdir(work)
    paths = [os.path.join(inputs_dir, name) for name in wanted]
    # freshly generated boards (same generator output in both trees; new inputs for the solver)
    import roberta_generator as gen
    for seed, length, width, force_down in ((23, 4, 3, False), (5, 3, 5, True)):
        moves, rewards, loose = gen.gen_rnd_board(seed, length, width, 0.3, 6, force_down)
        name = os.path.join(work, "inputs", "gen_%d_%d_%d.py" % (seed, length, width))
        gen.write_robots(name, length, width, moves, rewards, loose, 0.1, 0.1, 0.05)
        paths.append(name)
    for path in paths:
        if not os.path.exists(path):
            lines.append("file %s missing" % os.path.basename(path))
            continue
        shim.reset(5000)
        ticks[0] = 0.0

        def whole():
            games = cr.read_dict_from_file(path)
            results = cr.run_games(games)
            cr.save_results_to_file(results, path)
            out_name = os.path.join("outputs", os.path.basename(path).split(".")[0] + ".txt")
            with open(out_name, "rb") as handle:
                data = handle.read()
            return hashlib.sha256(data).hexdigest(), len(data), results

        lines.append("file %s %s log=%s" % (os.path.basename(path), describe(whole), shim.digest()))
        if os.environ.get("EQUIV_TIMING"):
            import time as _t
            sys.stderr.write("%s whole done %.1f\n" % (os.path.basename(path), _t.time()))
        # the same games in another presentation
        rng = random.Random(len(path))
        try:
            games = cr.read_dict_from_file(path)
        except Exception:  # noqa: BLE001
            continue
        for name in sorted(games):
            game = {k: v for k, v in games[name].items() if k != "prune_states"}
            if len(game["players"]) > 400:
                continue
            other = transformed(game, rng)
            for prune in ((True, False) if len(game["players"]) <= 100 else (True,)):
                lines.append("file %s %s T %s %s" % (os.path.basename(path), name, prune,
                                                      run_solve(tad, shim, other, prune, 5000)))
    os.chdir(tempfile.gettempdir())
    import shutil
    shutil.rmtree(work, ignore_errors=True)
    return lines


def on_alarm(signum, frame):
    raise CaseTimeout()


def child(tree, inputs_dir):
    sys.path.insert(0, tree)
    sys.dont_write_bytecode = True
    import logging as real_logging
    import tad
    import reverse_dfs as rdfs
    shim = LogShim(real_logging)
    tad.logging = shim
    signal.signal(signal.SIGALRM, on_alarm)
    out = sys.stdout

    import time as _time
    t0 = _time.time()

    def emit(lines, label=None):
        if label and os.environ.get("EQUIV_TIMING"):
            sys.stderr.write("%s done at %.1fs\n" % (label, _time.time() - t0))
        for line in lines:
            out.write(line.replace("\n", "\\n") + "\n")

    # 1. random stopping games and other presentations of them, both pruning modes
    rng = random.Random(20240613)
    for case in range(520):
        if case % 5 == 4:
            game = symmetric_game(rng)
        elif case % 50 == 7:
            game = random_game(rng, n=rng.randint(25, 45))
        else:
            game = random_game(rng, stopping=(case % 9 != 0))
        presentations = [game] + [transformed(game, rng) for _ in range(2 if case % 2 else 1)]
        for k, g in enumerate(presentations):
            for prune in (True, False):
                signal.alarm(20)
                try:
                    line = run_solve(tad, shim, g, prune, 250)
                except CaseTimeout:
                    line = "TIMEOUT"
                finally:
                    signal.alarm(0)
                emit(["game %d.%d prune=%s %s" % (case, k, prune, line)])

    # 2. malformed descriptions: exception type and message
    rng = random.Random(77)
    for k, g in enumerate(malformed_games(rng)):
        for prune in (True, False):
            signal.alarm(20)
            try:
                line = run_solve(tad, shim, g, prune, 120)
            except CaseTimeout:
                line = "TIMEOUT"
            finally:
                signal.alarm(0)
            emit(["malformed %d prune=%s %s" % (k, prune, line)])

    # 3. direct calls on nodes / solver with arbitrary values (ties, NaN, inf, negatives)
    emit(node_cases(tad, shim, random.Random(31337), 450), "games+malformed")

    # 4. reverse_dfs module
    emit(rdfs_cases(rdfs, random.Random(99), 600), "nodes")

    # 5. whole program on input files and generated boards, report files byte for byte
    signal.alarm(100)
    try:
        emit(file_cases(tree, inputs_dir, tad, shim), "rdfs")
    except CaseTimeout:
        emit(["files TIMEOUT"])
    finally:
        signal.alarm(0)
    out.flush()


# ----------------------------------------------------------------------------------------------
# parent side
# ----------------------------------------------------------------------------------------------
def main():
    if len(sys.argv) == 4 and sys.argv[1] == "--child":
        child(os.path.abspath(sys.argv[2]), os.path.abspath(sys.argv[3]))
        return 0
    if len(sys.argv) != 3:
        print("usage: python equiv.py <clean_repo_dir> <patched_repo_dir>")
        return 2
    clean, patched = os.path.abspath(sys.argv[1]), os.path.abspath(sys.argv[2])
    inputs_dir = os.path.join(clean, "inputs")
    env = dict(os.environ, PYTHONDONTWRITEBYTECODE="1", PYTHONHASHSEED="0")
    procs = []
    for tree in (clean, patched):
        procs.append(subprocess.Popen(
            [sys.executable, os.path.abspath(__file__), "--child", tree, inputs_dir],
            stdout=subprocess.PIPE, stderr=subprocess.PIPE, env=env,
            cwd=tempfile.gettempdir(), text=True))
    outs = []
    for proc in procs:
        try:
            stdout, stderr = proc.communicate(timeout=115)
        except subprocess.TimeoutExpired:
            for p in procs:
                p.kill()
            print("DIFFERENT: a child did not finish in time")
            return 1
        if proc.returncode != 0:
            print("DIFFERENT: child failed (%s)\n%s" % (proc.returncode, stderr[-2000:]))
            return 1
        outs.append(stdout.splitlines())
    a, b = outs
    for number, (x, y) in enumerate(zip(a, b)):
        if x != y:
            print("DIFFERENT at case line %d" % number)
            print("clean  :", x[:3000])
            print("patched:", y[:3000])
            return 1
    if len(a) != len(b):
        print("DIFFERENT: %d lines vs %d lines" % (len(a), len(b)))
        return 1
    if len(a) < 1000:
        print("DIFFERENT: too few cases ran (%d)" % len(a))
        return 1
    print("SAME")
    print("(%d case lines compared)" % len(a), file=sys.stderr)
    return 0


if __name__ == "__main__":
    sys.exit(main())
