#!/usr/bin/env python
"""Behavioural equivalence check for two checkouts of the conditional rewards tool.

usage: python equiv.py <repo-root-A> <repo-root-B>

Each root is exercised in its own interpreter (a "worker" subprocess running in a
temporary directory, byte-code writing disabled).  The worker imports tad.py /
conditionalrewards.py from that root, runs a fixed, seeded battery of cases and prints
one line per observation.  The two transcripts are compared line by line.

Observations cover StochasticGame (check_game, count_transitions, init_states, solve),
Node construction / check_next_states, and every Solver method, on
  * hand-written games and edge cases,
  * the small game files shipped in inputs/ (through conditionalrewards.run_games),
  * a few hundred seeded random stopping games (both pruning modes, repeated solves,
    caller-data immutability, log transcript at DEBUG and INFO level),
  * several hundred malformed descriptions derived from the random games.
Exceptions are recorded as (type, message).  Floats are compared by repr (bit exact).
"""
import copy
import hashlib
import logging
import os
import random
import subprocess
import sys
import tempfile

P1 = "Player 1"
P2 = "Player 2"
PR = "Probabilistic"

SMALL_INPUT_FILES = [
    "example_17_08.py", "example_games.py", "paper_games.py", "manual_1_game_a.py",
    "manual_arrow_bottom.py", "robot_1_w1_l2_r6_rb10_lb5_tb10_lt0.py",
    "robot_1_w2_l1_r6_rb10_lb5_tb10_lt0.py", "robot_1_w2_l2_r6_rb10_lb5_tb10_lt0.py",
    "robot_999132423_w3_l3_r6_rb1_lb2_tb10_lt30.py",
    "robot_999132423_w3_l3_r6_rb1_lb2_tb10_lt30_force_down.py",
]


# --------------------------------------------------------------------------- games

def hand_written_games():
    games = {}
    games["game_5_5"] = dict(
        rewards=[0, 2, 5 / 3, 0, 0, 0, 0, 0],
        players=[P1, P2, P2, PR, PR, PR, PR, PR],
        transition_list=[[("alfa", 1), ("beta", 2)], [(" ", 3)], [(" ", 4)],
                         [(0.5, 5), (0.5, 6)], [(0.75, 6), (0.25, 7)],
                         [(1, 5)], [(1, 6)], [(1, 7)]],
        final_states=[6])
    games["game_5_4"] = dict(
        rewards=[0, 0, 100, 1, 0, 0, 0],
        players=[P2, PR, PR, P1, PR, PR, PR],
        transition_list=[[("beta", 1), ("alfa", 2)], [(1 / 4, 4), (3 / 4, 3)],
                         [(1 / 2, 5), (1 / 2, 6)], [("delta", 4), ("gamma", 5)],
                         [(1, 4)], [(1, 5)], [(1, 6)]],
        final_states=[5])
    # a single final state
    games["single_final"] = dict(rewards=[0], players=[PR], transition_list=[[(1, 0)]],
                                 final_states=[0])
    games["single_final_p1"] = dict(rewards=[0], players=[P1],
                                    transition_list=[[("a", 0)]], final_states=[0])
    # initial state cannot reach the final state
    games["no_solution"] = dict(rewards=[1, 0, 0], players=[P1, PR, PR],
                                transition_list=[[("a", 1)], [(1, 1)], [(1, 2)]],
                                final_states=[2])
    # several dead successors at several positions of a probabilistic state
    games["many_dead"] = dict(
        rewards=[1, 0, 0, 0, 2, 0],
        players=[PR, PR, PR, PR, P1, PR],
        transition_list=[[(0.1, 1), (0.2, 5), (0.1, 2), (0.3, 4), (0.2, 3), (0.1, 5)],
                         [(1, 1)], [(1, 2)], [(1, 3)],
                         [("x", 1), ("y", 5), ("z", 2), ("w", 5)], [(1, 5)]],
        final_states=[5])
    # player 2 can avoid the target: value 0 everywhere but the final state
    games["p2_avoids"] = dict(rewards=[1, 1, 0, 0], players=[P2, PR, PR, PR],
                              transition_list=[[("go", 1), ("no", 3)], [(0.5, 2), (0.5, 3)],
                                               [(1, 2)], [(1, 3)]],
                              final_states=[2])
    # ties for both players, duplicate action names, final state that is not absorbing
    games["ties"] = dict(
        rewards=[0, 3, 3, 1, 0, 0],
        players=[P1, P2, P2, PR, PR, PR],
        transition_list=[[("a", 1), ("b", 2), ("a", 3)], [("l", 3), ("r", 3)],
                         [("l", 3), ("r", 4)], [(0.5, 4), (0.5, 5)], [(1, 4)], [(1, 5)]],
        final_states=[4])
    games["final_not_absorbing"] = dict(
        rewards=[1, 2, 0, 0], players=[PR, P1, PR, PR],
        transition_list=[[(0.5, 1), (0.5, 3)], [("f", 2), ("g", 3)], [(1, 2)], [(1, 3)]],
        final_states=[1, 2, 2])
    # loops through probabilistic states
    games["loop"] = dict(
        rewards=[1, 1, 0, 0], players=[PR, P2, PR, PR],
        transition_list=[[(0.5, 0), (0.25, 1), (0.25, 3)], [("back", 0), ("on", 2)],
                         [(1, 2)], [(1, 3)]],
        final_states=[2])
    # unreachable states of every kind (exercise prune_states)
    games["unreachable"] = dict(
        rewards=[1, 0, 4, 5, 6, 0, 0],
        players=[P1, PR, P2, PR, P1, PR, P1],
        transition_list=[[("a", 1), ("b", 5)], [(1, 1)], [("u", 3), ("v", 1)],
                         [(0.5, 2), (0.5, 1)], [("q", 3), ("r", 5)], [(1, 5)], [("s", 5)]],
        final_states=[1])
    # zero probability edge and integer probabilities, bool successor index
    games["zero_prob_edge"] = dict(
        rewards=[1, 0, 0], players=[PR, PR, PR],
        transition_list=[[(0.0, 1), (1.0, 2)], [(1, True)], [(1, 2)]],
        final_states=[1])
    games["zero_prob_edge_b"] = dict(
        rewards=[1, 0, 0], players=[PR, PR, PR],
        transition_list=[[(0.0, 2), (1.0, 1)], [(1, 1)], [(1, 2)]],
        final_states=[1])
    games["tuples_not_lists"] = dict(
        rewards=(1, 0, 0), players=(P1, PR, PR),
        transition_list=([("a", 1), ("b", 2)], [(1, 1)], [(1, 2)]),
        final_states=(2,))
    # chains of unreachable states: prune_states needs several rounds
    games["unreachable_chain"] = dict(
        rewards=[1, 0, 2, 3, 4, 5, 0, 6],
        players=[PR, PR, PR, PR, P2, P1, PR, P1],
        transition_list=[[(0.5, 1), (0.5, 6)], [(1, 1)], [(1, 3)], [(0.5, 4), (0.5, 6)],
                         [("m", 1), ("n", 6)], [("p", 2), ("q", 6)], [(1, 6)],
                         [("only_dead", 6)]],
        final_states=[1])
    games["unreachable_chain_b"] = dict(
        rewards=[0, 0, 1, 1, 1, 1, 0],
        players=[P1, PR, P2, PR, P2, PR, PR],
        transition_list=[[("a", 1), ("b", 6)], [(1, 1)], [("x", 1)], [(1.0, 2)],
                         [("y", 3), ("z", 1)], [(0.25, 4), (0.75, 6)], [(1, 6)]],
        final_states=[1])
    return games


def random_game(rng):
    """A random stopping game: player states only move to higher indices, probabilistic
    states move to a higher index with positive probability, trailing states are absorbing
    with reward 0."""
    n = rng.randint(2, 9)
    n_term = rng.randint(1, min(3, n - 1))
    inner = n - n_term
    rewards, players, trans = [], [], []
    names = ["a", "b", "c", "d", " ", "alfa"]
    for i in range(inner):
        kind = rng.choice([P1, P2, PR, PR])
        k = rng.randint(1, 4)
        if kind == PR:
            targets = [rng.randrange(i + 1, n)]
            weights = [rng.choice([1, 2, 3])]
            for _ in range(k - 1):
                targets.append(rng.randrange(0, n) if rng.random() < 0.4
                               else rng.randrange(i + 1, n))
                weights.append(rng.choice([0, 1, 1, 2, 3]) if rng.random() < 0.3
                               else rng.choice([1, 2, 3]))
            total = sum(weights)
            edges = [(w / total, t) for w, t in zip(weights, targets)]
            if total == weights[0] and rng.random() < 0.5:
                edges = [(1, t) if p == 1.0 else (0, t) for p, t in edges]
            rng.shuffle(edges)
        else:
            edges = []
            for j in range(k):
                action = rng.choice(names) if rng.random() < 0.15 else "act%d" % j
                edges.append((action, rng.randrange(i + 1, n)))
        players.append(kind)
        trans.append(edges)
        rewards.append(rng.choice([0, 0, 1, 2, 5 / 3, 3.5, 10, 0.1]))
    for i in range(inner, n):
        kind = rng.choice([PR, PR, PR, P1, P2])
        players.append(kind)
        trans.append([(1, i)] if kind == PR else [("stay", i)])
        rewards.append(0)
    terminals = list(range(inner, n))
    finals = rng.sample(terminals, rng.randint(1, len(terminals)))
    if inner > 1 and rng.random() < 0.15:
        finals.append(rng.randrange(1, inner))
    if rng.random() < 0.1:
        finals.append(finals[0])
    if rng.random() < 0.5:
        finals.sort()
    return dict(rewards=rewards, players=players, transition_list=trans, final_states=finals)


class Weird:
    def __repr__(self):
        return "<Weird>"


def malformations(game, rng):
    """Yield (label, malformed copy of game)."""
    n = len(game["players"])

    def mutated(label, fn):
        g = copy.deepcopy(game)
        fn(g)
        return label, g

    s = rng.randrange(n)            # a state
    e = rng.randrange(len(game["transition_list"][s]))   # one of its transitions

    def set_edge(value):
        def fn(g):
            g["transition_list"][s][e] = value(g["transition_list"][s][e])
        return fn

    out = [
        mutated("rewards_short", lambda g: g["rewards"].pop()),
        mutated("rewards_long", lambda g: g["rewards"].append(1)),
        mutated("rewards_empty", lambda g: g.__setitem__("rewards", [])),
        mutated("rewards_none", lambda g: g.__setitem__("rewards", None)),
        mutated("reward_negative", lambda g: g["rewards"].__setitem__(s, -1)),
        mutated("reward_negative_float", lambda g: g["rewards"].__setitem__(s, -0.5)),
        mutated("reward_str", lambda g: g["rewards"].__setitem__(s, "1")),
        mutated("reward_none", lambda g: g["rewards"].__setitem__(s, None)),
        mutated("players_short", lambda g: g["players"].pop()),
        mutated("players_long", lambda g: g["players"].append(PR)),
        mutated("player_unknown", lambda g: g["players"].__setitem__(s, "Player 3")),
        mutated("player_lowercase", lambda g: g["players"].__setitem__(s, "player 1")),
        mutated("player_none", lambda g: g["players"].__setitem__(s, None)),
        mutated("player_int", lambda g: g["players"].__setitem__(s, 1)),
        mutated("player_list", lambda g: g["players"].__setitem__(s, [P1])),
        mutated("player_swapped_kind", lambda g: g["players"].__setitem__(
            s, PR if g["players"][s] != PR else P1)),
        mutated("transitions_short", lambda g: g["transition_list"].pop()),
        mutated("transitions_long", lambda g: g["transition_list"].append([(1, 0)])),
        mutated("transitions_none", lambda g: g.__setitem__("transition_list", None)),
        mutated("state_no_transitions", lambda g: g["transition_list"].__setitem__(s, [])),
        mutated("state_transitions_none", lambda g: g["transition_list"].__setitem__(s, None)),
        mutated("state_transitions_tuple",
                lambda g: g["transition_list"].__setitem__(s, tuple(g["transition_list"][s]))),
        mutated("state_transitions_dict",
                lambda g: g["transition_list"].__setitem__(s, {"a": 1})),
        mutated("state_transitions_str", lambda g: g["transition_list"].__setitem__(s, "ab")),
        mutated("state_transitions_int", lambda g: g["transition_list"].__setitem__(s, 3)),
        mutated("edge_list", set_edge(lambda t: list(t))),
        mutated("edge_triple", set_edge(lambda t: t + (0,))),
        mutated("edge_single", set_edge(lambda t: t[:1])),
        mutated("edge_empty", set_edge(lambda t: ())),
        mutated("edge_none", set_edge(lambda t: None)),
        mutated("edge_str", set_edge(lambda t: "ab")),
        mutated("edge_label_none", set_edge(lambda t: (None, t[1]))),
        mutated("edge_label_int", set_edge(lambda t: (1, t[1]))),
        mutated("edge_label_float", set_edge(lambda t: (0.5, t[1]))),
        mutated("edge_label_str", set_edge(lambda t: ("0.5", t[1]))),
        mutated("edge_label_bool", set_edge(lambda t: (True, t[1]))),
        mutated("edge_label_tuple", set_edge(lambda t: ((1,), t[1]))),
        mutated("edge_target_float", set_edge(lambda t: (t[0], float(t[1])))),
        mutated("edge_target_str", set_edge(lambda t: (t[0], str(t[1])))),
        mutated("edge_target_none", set_edge(lambda t: (t[0], None))),
        mutated("edge_target_negative", set_edge(lambda t: (t[0], -1))),
        mutated("edge_target_n", set_edge(lambda t: (t[0], n))),
        mutated("edge_target_big", set_edge(lambda t: (t[0], n + 7))),
        mutated("edge_swapped", set_edge(lambda t: (t[1], t[0]))),
        mutated("edge_weird", set_edge(lambda t: (Weird(), Weird()))),
        mutated("finals_empty", lambda g: g.__setitem__("final_states", [])),
        mutated("finals_none", lambda g: g.__setitem__("final_states", None)),
        mutated("final_negative", lambda g: g["final_states"].append(-1)),
        mutated("final_negative_first", lambda g: g["final_states"].insert(0, -2)),
        mutated("final_n", lambda g: g["final_states"].append(n)),
        mutated("final_big_first", lambda g: g["final_states"].insert(0, n + 3)),
        mutated("final_str", lambda g: g["final_states"].append("0")),
        mutated("final_float", lambda g: g["final_states"].append(0.0)),
        mutated("final_none", lambda g: g["final_states"].append(None)),
        mutated("two_errors", lambda g: (g["rewards"].__setitem__(s, -3),
                                         g["players"].__setitem__(s, "nobody"))),
        mutated("two_errors_b", lambda g: (g["final_states"].append(n),
                                           g["transition_list"].__setitem__(s, []))),
        mutated("two_errors_c", lambda g: (g["transition_list"].__setitem__(0, []),
                                           g["transition_list"].__setitem__(
                                               n - 1, [(1, n)]))),
    ]
    return out


# --------------------------------------------------------------------------- worker

class Recorder(logging.Handler):
    def __init__(self):
        super().__init__(level=logging.DEBUG)
        self.lines = []

    def emit(self, record):
        self.lines.append("%s:%s" % (record.levelname, record.getMessage()))

    def take(self):
        lines, self.lines = self.lines, []
        digest = hashlib.md5("\n".join(lines).encode("utf-8", "replace")).hexdigest()
        return "%d lines md5 %s" % (len(lines), digest)


def worker(root):
    sys.dont_write_bytecode = True
    sys.path.insert(0, root)
    workdir = tempfile.mkdtemp(prefix="equiv_worker_")
    os.chdir(workdir)
    import tad
    import reverse_dfs
    import conditionalrewards

    recorder = Recorder()
    root_logger = logging.getLogger()
    root_logger.addHandler(recorder)
    root_logger.setLevel(logging.DEBUG)

    out = sys.stdout

    def emit(case, value):
        out.write("%s\t%s\n" % (case, value))

    def attempt(fn):
        try:
            return "OK %r" % (fn(),)
        except RecursionError:
            raise
        except Exception as exc:       # noqa: recorded, compared between the two roots
            return "EXC %s: %s" % (type(exc).__name__, exc)

    def dump_states(state_list):
        return [(type(st).__name__, st.player, st.idx, st.reward, st.is_final_node,
                 st.next_states, st.reach_probability, st.expected_rewards,
                 st.expected_rewards_min_reach, st.expected_reach_min_rewards, st.num_states)
                for st in state_list]

    def game_object(game, prune):
        g = copy.deepcopy(game)
        return tad.StochasticGame(prune_states=prune, **g), g

    def observe_solve(case, game, level=logging.DEBUG):
        """solve in both modes, twice through the same object, inputs untouched, logs."""
        root_logger.setLevel(level)
        for prune in (True, False):
            sgame, given = game_object(game, prune)
            before = repr(given)
            emit("%s/prune=%s/count" % (case, prune), attempt(sgame.count_transitions))
            emit("%s/prune=%s/solve" % (case, prune), attempt(sgame.solve))
            emit("%s/prune=%s/log" % (case, prune), recorder.take())
            emit("%s/prune=%s/untouched" % (case, prune), repr(given) == before)
            emit("%s/prune=%s/attrs" % (case, prune), repr(
                (sgame.rewards, sgame.players, sgame.transition_list, sgame.final_states,
                 sgame.num_states, sgame.prune_states)))
            emit("%s/prune=%s/solve_again" % (case, prune), attempt(sgame.solve))
            sgame.prune_states = not prune
            emit("%s/prune=%s/solve_flipped" % (case, prune), attempt(sgame.solve))
            recorder.take()
        root_logger.setLevel(logging.DEBUG)

    def observe_validation(case, game):
        sgame, _ = game_object(game, True)
        emit(case + "/check_game", attempt(sgame.check_game))
        emit(case + "/count", attempt(sgame.count_transitions))
        emit(case + "/init_states",
             attempt(lambda: dump_states(sgame.init_states())))
        emit(case + "/log", recorder.take())

    def observe_solver_steps(case, game, threshold):
        """Drive the Solver method by method, dumping the node state after each step."""
        for prune in (True, False):
            tag = "%s/thr=%r/prune=%s" % (case, threshold, prune)
            sgame, given = game_object(game, prune)
            try:
                sgame.check_game()
                state_list = sgame.init_states()
            except Exception as exc:
                emit(tag + "/init", "EXC %s: %s" % (type(exc).__name__, exc))
                continue
            emit(tag + "/init", repr(dump_states(state_list)))
            if threshold is None:
                solver = tad.Solver(state_list)
            else:
                solver = tad.Solver(state_list, threshold=threshold)
            emit(tag + "/floor", repr((solver.threshold, solver.floor)))
            reach = reverse_dfs.reverse_dfs(given["transition_list"], given["final_states"])
            emit(tag + "/vi_reach", attempt(
                lambda: solver.value_iteration_reachability(reach, prune)))
            emit(tag + "/vi_reach/states", repr(dump_states(state_list)))
            emit(tag + "/vi_reach/log", recorder.take())
            strategies = solver._get_reachability_strategies()
            emit(tag + "/reach_strategies", repr(strategies))
            emit(tag + "/solve_reachability", attempt(lambda: solver.solve_reachability(
                given["transition_list"], given["final_states"], prune)))
            emit(tag + "/solve_reachability/states", repr(dump_states(state_list)))
            emit(tag + "/prune_reachability",
                 attempt(lambda: solver.prune_reachability(strategies)))
            emit(tag + "/prune_reachability/states", repr(dump_states(state_list)))
            if prune:
                emit(tag + "/prune_paths", attempt(solver.prune_paths))
                emit(tag + "/prune_paths/states", repr(dump_states(state_list)))
                emit(tag + "/prune_states", attempt(solver.prune_states))
                emit(tag + "/prune_states/states", repr(dump_states(state_list)))
                emit(tag + "/prune_game", attempt(solver.prune_stochastich_game))
                emit(tag + "/prune_game/states", repr(dump_states(state_list)))
            else:
                # unusual order: drop unreachable states without removing dead branches
                emit(tag + "/prune_states_only", attempt(solver.prune_states))
                emit(tag + "/prune_states_only/states", repr(dump_states(state_list)))
            emit(tag + "/vi_rewards", attempt(solver.value_iteration_total_rewards))
            emit(tag + "/vi_rewards/states", repr(dump_states(state_list)))
            emit(tag + "/vi_rewards/log", recorder.take())
            emit(tag + "/reward_strategies", repr(solver._get_total_rewards_strategies()))
            emit(tag + "/solve_total_rewards", attempt(solver.solve_total_rewards))
            emit(tag + "/final/states", repr(dump_states(state_list)))
            emit(tag + "/untouched", repr(given))
            recorder.take()

    # ---- 1. hand written games
    hand = hand_written_games()
    for name, game in hand.items():
        observe_solve("hand/" + name, game)
        observe_solve("hand-info/" + name, game, level=logging.INFO)
        observe_validation("hand/" + name, game)
        for thr in (None, 1e-3, 1e-9, 0.5, 1, 2):
            observe_solver_steps("hand/" + name, game, thr)

    # ---- 2. solver entry points with unusual arguments
    sgame, given = game_object(hand["game_5_5"], True)
    state_list = sgame.init_states()
    solver = tad.Solver(state_list)
    for finals in ([], (), None, [6], [6, 6], [5, 6]):
        emit("solver/solve_reachability/finals=%r" % (finals,), attempt(
            lambda: solver.solve_reachability(given["transition_list"], finals, True)))
        emit("solver/solve_reachability/finals=%r/states" % (finals,),
             repr(dump_states(state_list)))
    for reach in ([], [0], [0, 1, 2, 3, 4], [4, 3, 2, 1, 0], [0, 0, 3], range(8)):
        sgame, given = game_object(hand["game_5_5"], True)
        state_list = sgame.init_states()
        solver = tad.Solver(state_list, threshold=1e-4)
        for prune in (True, False):
            emit("solver/vi_reach/%r/%s" % (reach, prune), attempt(
                lambda: solver.value_iteration_reachability(reach, prune)))
            emit("solver/vi_reach/%r/%s/states" % (reach, prune),
                 repr(dump_states(state_list)))
        emit("solver/vi_reach/%r/strategies" % (reach,),
             repr(solver._get_reachability_strategies()))
    emit("solver/empty/reach", attempt(
        lambda: tad.Solver([])._get_reachability_strategies()))
    emit("solver/empty/rewards", attempt(lambda: tad.Solver([]).solve_total_rewards()))
    emit("solver/empty/prune", attempt(lambda: tad.Solver([]).prune_stochastich_game()))
    emit("solver/empty/vi_reach", attempt(
        lambda: tad.Solver([]).value_iteration_reachability([], False)))
    emit("solver/empty/vi_reach_prune", attempt(
        lambda: tad.Solver([]).value_iteration_reachability([], True)))
    # a state list whose order differs from the state indices
    nodes = [
        tad.ProbabilisticNode(player=PR, idx=2, reward=0, next_states=[(1, 0)],
                              num_states=3, is_final_node=True),
        tad.PlayerOne(player=P1, idx=0, reward=1, next_states=[("a", 0), ("b", 2)],
                      num_states=3, is_final_node=False),
        tad.PlayerTwo(player=P2, idx=1, reward=2, next_states=[("c", 0), ("d", 1)],
                      num_states=3, is_final_node=False),
    ]
    solver = tad.Solver(nodes)
    emit("solver/permuted/reach", attempt(solver._get_reachability_strategies))
    emit("solver/permuted/rewards", attempt(solver._get_total_rewards_strategies))
    emit("solver/permuted/prune_states", attempt(solver.prune_states))
    emit("solver/permuted/states", repr(dump_states(nodes)))
    recorder.take()

    # ---- 3. Node construction
    node_classes = [("ProbabilisticNode", tad.ProbabilisticNode), ("PlayerOne", tad.PlayerOne),
                    ("PlayerTwo", tad.PlayerTwo), ("Node", tad.Node)]
    next_state_samples = [
        [(0.5, 1), (0.5, 2)], [("a", 1), ("b", 2)], [], None, (("a", 1),), "ab", 5,
        [("a", 1), ["b", 2]], [("a", 1, 2)], [("a",)], [()], [None], ["ab"],
        [(1, 1)], [(True, 1)], [(None, 1)], [("a", 1.0)], [("a", "1")], [("a", None)],
        [("a", -1)], [("a", 3)], [("a", 2)], [("a", True)], [(0.5, -1)], [(0.5, 3)],
        [(0.5, 2.0)], [("a", 0), (0.5, 1)], [(0.5, 0), ("a", 1)], [(float("nan"), 1)],
        [(Weird(), 1)], [("a", Weird())], [(0.5, 1), (0.5, 9)], [("a", 1), ("b", 9)],
        {("a", 1): 1}, [{"a": 1}], [("a", 1), None], [(2, 0)], [(-1, 0)],
    ]
    for cname, cls in node_classes:
        for player in (P1, P2, PR, "Other", None):
            for i, sample in enumerate(next_state_samples):
                for final in (False, True):
                    given = copy.deepcopy(sample)

                    def build():
                        node = cls(player=player, idx=1, reward=2, next_states=given,
                                   num_states=3, is_final_node=final)
                        return dump_states([node])[0], node.next_states is given
                    emit("node/%s/%r/%d/%s" % (cname, player, i, final), attempt(build))
                    emit("node/%s/%r/%d/%s/given" % (cname, player, i, final), repr(given))
    a = tad.PlayerOne(player=P1, idx=0, reward=1, next_states=[("a", 0)], num_states=1)
    b = tad.PlayerOne(player=P1, idx=0, reward=1, next_states=[("a", 0)], num_states=1)
    c = tad.PlayerTwo(player=P2, idx=0, reward=1, next_states=[("a", 0)], num_states=1)
    emit("node/eq", repr((a == b, a == c, a != b)))
    # check_next_states called again on an existing node after tampering
    a.next_states = [("a", 0), ("b", 1)]
    emit("node/recheck", attempt(a.check_next_states))
    a.num_states = 2
    emit("node/recheck2", attempt(a.check_next_states))
    a.player = PR
    emit("node/recheck3", attempt(a.check_next_states))

    # ---- 4. shipped input files through the batch runner
    root_logger.setLevel(logging.INFO)
    for file_name in SMALL_INPUT_FILES:
        path = os.path.join(root, "inputs", file_name)
        if not os.path.exists(path):
            emit("inputs/" + file_name, "missing")
            continue
        games = conditionalrewards.read_dict_from_file(path)
        before = repr(games)
        results = conditionalrewards.run_games(games)
        for name, result in results.items():
            result = dict(result)
            result.pop("total_time")
            emit("inputs/%s/%s" % (file_name, name), repr(result))
        emit("inputs/%s/log" % file_name, "skipped (contains timings)")
        recorder.take()
        for game in games.values():
            game.pop("prune_states", None)
        emit("inputs/%s/untouched" % file_name, repr(games) == before)
        os.makedirs("outputs", exist_ok=True)
        for result in results.values():
            result["total_time"] = 0
        conditionalrewards.save_results_to_file(results, path)
        with open(os.path.join("outputs", file_name.split(".")[0] + ".txt")) as fh:
            emit("inputs/%s/report" % file_name,
                 hashlib.md5(fh.read().encode()).hexdigest())

    root_logger.setLevel(logging.DEBUG)

    # ---- 5. random stopping games
    rng = random.Random(20261004)
    random_games = [random_game(rng) for _ in range(320)]
    for i, game in enumerate(random_games):
        level = logging.DEBUG if i % 4 else logging.INFO
        observe_solve("random/%d" % i, game, level=level)
        if i % 8 == 0:
            observe_solver_steps("random/%d" % i, game, None)
        if i % 40 == 0:
            observe_solver_steps("random/%d" % i, game, 1e-3)
            observe_solver_steps("random/%d" % i, game, 1e-8)

    # ---- 6. malformed descriptions, also through the batch runner
    mrng = random.Random(77)
    for i, game in enumerate(random_games[:24] + list(hand.values())[:4]):
        for label, bad in malformations(game, mrng):
            case = "malformed/%d/%s" % (i, label)
            observe_validation(case, bad)
            for prune in (True, False):
                sgame, given = game_object(bad, prune)
                before = repr(given)
                emit("%s/solve/%s" % (case, prune), attempt(sgame.solve))
                emit("%s/solve/%s/untouched" % (case, prune), repr(given) == before)
                emit("%s/solve/%s/log" % (case, prune), recorder.take())

            def batch():
                results = conditionalrewards.run_games({"g": copy.deepcopy(bad)})
                for result in results.values():
                    result.pop("total_time")
                return results
            emit(case + "/batch", attempt(batch))
            recorder.take()
    out.flush()


# --------------------------------------------------------------------------- driver

def run_worker(root):
    env = dict(os.environ)
    env["PYTHONDONTWRITEBYTECODE"] = "1"
    env["PYTHONHASHSEED"] = "0"
    env.pop("PYTHONPATH", None)
    proc = subprocess.run(
        [sys.executable, "-B", os.path.abspath(__file__), "--worker", os.path.abspath(root)],
        stdout=subprocess.PIPE, stderr=subprocess.PIPE, env=env, timeout=3000,
        universal_newlines=True)
    return proc


def main(argv):
    if len(argv) == 3 and argv[1] == "--worker":
        worker(argv[2])
        return 0
    if len(argv) != 3:
        print("usage: equiv.py <repo-root-A> <repo-root-B>")
        return 2
    proc_a = run_worker(argv[1])
    proc_b = run_worker(argv[2])
    if proc_a.returncode != 0 and proc_b.returncode != 0 and not proc_a.stdout:
        print("DIFFERENT: both workers crashed before producing output")
        print(proc_a.stderr[-2000:])
        return 1
    if proc_a.returncode != proc_b.returncode:
        print("DIFFERENT: worker exit codes %d vs %d" % (proc_a.returncode, proc_b.returncode))
        print((proc_a.stderr if proc_a.returncode else proc_b.stderr)[-3000:])
        return 1
    if proc_a.returncode != 0:
        print("DIFFERENT (inconclusive): both workers failed")
        print(proc_a.stderr[-2000:])
        return 1
    lines_a = proc_a.stdout.split("\n")
    lines_b = proc_b.stdout.split("\n")
    for idx, (line_a, line_b) in enumerate(zip(lines_a, lines_b)):
        if line_a != line_b:
            print("DIFFERENT at observation %d" % idx)
            print("A: " + line_a[:3000])
            print("B: " + line_b[:3000])
            return 1
    if len(lines_a) != len(lines_b):
        print("DIFFERENT: %d vs %d observations" % (len(lines_a), len(lines_b)))
        return 1
    if len(lines_a) < 1000:
        print("DIFFERENT (inconclusive): only %d observations" % len(lines_a))
        return 1
    print("%d observations compared" % (len(lines_a) - 1))
    print("SAME")
    return 0


if __name__ == "__main__":
    sys.exit(main(sys.argv))
