#!/usr/bin/env python
"""Differential test for roberta_generator.py (property C15: random boards are
reproducible, in range, honour their parameters; bad parameter sets are refused
with ValueError before anything is written).

usage: python equiv.py <clean_repo_dir> <patched_repo_dir>

Each tree is loaded in its own subprocess (worker mode).  The worker runs a
fixed, deterministic list of cases and prints one line per case; the parent
compares the two transcripts line by line.  Prints SAME / exits 0 when nothing
differs, otherwise prints the first difference and exits 1.
"""
import sys
import os
import subprocess

WORKER_TIMEOUT = 110


# --------------------------------------------------------------------------
# worker
# --------------------------------------------------------------------------
def worker(repo):
    import contextlib
    import hashlib
    import inspect
    import io
    import itertools
    import random
    import shutil
    import tempfile
    from decimal import Decimal
    from fractions import Fraction

    repo = os.path.abspath(repo)
    sys.path.insert(0, repo)
    import roberta_generator as rg

    out = sys.stdout
    rng = random.Random(20240515)       # private stream for the case generation
    nan = float("nan")
    inf = float("inf")
    counter = [0]

    def emit(tag, case, result):
        counter[0] += 1
        out.write("%06d %s %r => %s\n" % (counter[0], tag, case, result))

    def state_digest():
        return hashlib.sha256(repr(random.getstate()).encode()).hexdigest()[:16]

    def outcome(fn, *args, **kwargs):
        try:
            res = fn(*args, **kwargs)
        except BaseException as exc:      # noqa: also SystemExit
            return "EXC %s %r" % (type(exc).__name__, str(exc))
        return "RET %r types=%s" % (res, type_sig(res))

    def type_sig(obj):
        # exact types matter (ints vs bools vs floats inside the board)
        if isinstance(obj, (list, tuple)):
            inner = sorted({type_sig(x) for x in obj})
            return type(obj).__name__ + "<" + ",".join(inner) + ">"
        return type(obj).__name__

    # ---------------------------------------------------------------- 0
    # public surface: signatures of the functions the property is anchored in
    for name in ("gen_rnd_board", "get_random_moves", "check_input", "prob_to_str",
                 "main", "init_parser", "write_robots"):
        emit("sig", name, str(inspect.signature(getattr(rg, name))))
    emit("const", "MOVE_SINTAX", repr(rg.MOVE_SINTAX))
    emit("const", "TILE_SYNTAX", repr(rg.TILE_SYNTAX))

    # ---------------------------------------------------------------- A
    # gen_rnd_board: boundary grid + random sample + malformed arguments
    seeds = [0, 1, 2, 40, 47, 51, 999132423, 2 ** 64 + 5, -3, True, 3.5, "abc", b"xy"]
    sizes = [0, 1, 2, 3, 4, 5, 8, 13, -1, True]
    probs = [0.0, 1e-9, 0.1, 0.3, 0.5, 0.999, 1.0, 1.5, -0.2, nan, 0, 1, True]
    rewards = [1, 2, 3, 6, 10, 52, 53, 60, 1021, 1022, 1023, 1074, 1075, 2000,
               0, -1, -2, -5, -1023, -1024, -1025, -1026, 2.5, 0.5, True, False]

    def run_board(args, kwargs=None):
        kwargs = kwargs or {}
        random.seed(123456789)          # known global state before the call
        res = outcome(rg.gen_rnd_board, *args, **kwargs)
        emit("board", (args, kwargs), res + " state=" + state_digest())

    # (1) exhaustive small boundary product
    for seed, length, width, fd in itertools.product(
            [0, 47, -3], [0, 1, 2, 3, -1], [0, 1, 2, 3, -1], [False, True]):
        for prob, mr in [(0.3, 6), (0.5, 1), (0.999, 10)]:
            run_board((seed, length, width, prob, mr, fd))
    # (2) every reward bound / every probability, on a few shapes
    for mr in rewards:
        for (length, width) in [(1, 1), (3, 4), (0, 3), (3, 0), (2, 7)]:
            for fd in (False, True):
                run_board((7, length, width, 0.3, mr, fd))
    for prob in probs:
        for (length, width) in [(1, 1), (4, 3), (1, 9), (9, 1)]:
            for fd in (False, True):
                run_board((11, length, width, prob, 6, fd))
    # (3) defaults / keywords / truthy force_down values
    for seed in seeds:
        run_board((seed, 3, 3, 0.3))
        run_board((seed, 3, 3, 0.3, 4))
        run_board((seed,), dict(length=2, width=5, prob_loose_tile=0.4, force_down=True))
        run_board((), dict(seed=seed, width=2, length=4, prob_loose_tile=0.2, max_reward=3))
    for fd in (0, 1, 2, "", "yes", None, [], [0]):
        run_board((5, 3, 4, 0.3, 6, fd))
    # (4) reproducibility: same call twice from different global states
    for seed in (0, 47, 999132423):
        for fd in (False, True):
            random.seed(1)
            a = outcome(rg.gen_rnd_board, seed, 5, 5, 0.3, 6, fd)
            random.seed(2)
            random.random()
            b = outcome(rg.gen_rnd_board, seed, 5, 5, 0.3, 6, fd)
            emit("repro", (seed, fd), "%s|%s|%s" % (a == b, a, b))
    # (5) random sample over the whole quantifier
    for _ in range(2600):
        seed = rng.choice(seeds) if rng.random() < 0.3 else rng.randrange(0, 10 ** rng.randrange(1, 12))
        length = rng.choice(sizes) if rng.random() < 0.25 else rng.randrange(1, 15)
        width = rng.choice(sizes) if rng.random() < 0.25 else rng.randrange(1, 15)
        prob = rng.choice(probs) if rng.random() < 0.3 else rng.random()
        mr = rng.choice(rewards) if rng.random() < 0.3 else rng.randrange(1, 40)
        fd = rng.random() < 0.5
        run_board((seed, length, width, prob, mr, fd))
    # (6) a few big boards (committed sizes)
    for (seed, length, width, fd) in [(40, 10, 20, True), (47, 10, 40, False), (47, 10, 40, True),
                                      (51, 10, 40, True), (3, 60, 50, True), (3, 1, 500, True),
                                      (3, 500, 1, True), (3, 500, 1, False)]:
        run_board((seed, length, width, 0.3, 6, fd))
    # (7) malformed arguments: type + message + order of detection
    bad = [None, "3", 2.0, 2.5, [2], (1,), nan, inf, Fraction(3, 1), Decimal(2), b"2", 3j]
    for b in bad:
        if b is not None and b == b:    # seed None / nan = entropy / id-based hash: not comparable
            run_board((b, 2, 2, 0.3, 6, False))
        run_board((1, b, 2, 0.3, 6, False))
        run_board((1, 2, b, 0.3, 6, True))
        run_board((1, 2, b, 0.3, 6, False))
        run_board((1, 2, 2, b, 6, False))
        run_board((1, 2, 2, 0.3, b, True))
        run_board((1, 0, 2, 0.3, b, True))       # bad reward never evaluated
        run_board((1, 2, 0, 0.3, b, False))
        run_board((1, 2, 0, b, 6, False))
        run_board((1, 0, b, 0.3, 6, False))      # bad width never evaluated
    for a, b in itertools.permutations(bad[:6], 2):
        run_board((1, a, b, 0.3, 6, False))
        run_board((1, 2, a, 0.3, b, True))
        run_board((1, 2, 2, a, b, True))
        run_board(([1], a, 2, 0.3, b, True))
    run_board(())
    run_board((1, 2, 3))
    run_board((1, 2, 3, 0.3, 6, False, 1))
    run_board((1, 2, 3, 0.3), dict(bogus=1))

    # ---------------------------------------------------------------- B
    # get_random_moves directly, from a known global state
    def run_moves(seed, length, width, fd):
        random.seed(seed)
        res = outcome(rg.get_random_moves, length, width, fd)
        emit("moves", (seed, length, width, fd), res + " state=" + state_digest())

    for seed, length, width, fd in itertools.product(
            [0, 1, 47], [0, 1, 2, 5, -1], [0, 1, 2, 3, 7, -1, -2], [False, True, 0, 1, "x", None]):
        run_moves(seed, length, width, fd)
    for _ in range(800):
        run_moves(rng.randrange(0, 10 ** 6), rng.randrange(0, 20), rng.randrange(1, 20),
                  rng.random() < 0.6)
    for b in bad:
        run_moves(3, b, 2, True)
        run_moves(3, 2, b, True)
        run_moves(3, 2, b, False)
        run_moves(3, 0, b, True)
    # frequency of forced downs: one-column boards with force_down are all 3
    for length in (1, 2, 9):
        run_moves(9, length, 1, True)

    # ---------------------------------------------------------------- C
    # check_input: every boundary of the eight checks, and the order of the checks
    int_vals = [-2, -1, 0, 1, 2, 10 ** 30, -10 ** 30, True, False, 0.0, -0.0, 0.5, -0.5,
                nan, inf, -inf, None, "1", [1], Fraction(-1, 3), Decimal("0")]
    prob_vals = [-1, -1e-300, -5e-324, 0, 0.0, -0.0, 5e-324, 1e-300, 0.1, 0.5,
                 1 - 2 ** -53, 1, 1.0, 1 + 2 ** -52, 2, nan, inf, -inf, True, False,
                 None, "0.5", [0.5], Fraction(1, 2), Fraction(1, 1), Fraction(0, 1),
                 Decimal("0.5"), Decimal("1"), Decimal("NaN")]
    names = ["seed", "width", "length", "prob_robot_break", "prob_light_break",
             "prob_loose_tile", "prob_tile_break", "max_reward"]
    is_prob = [False, False, False, True, True, True, True, False]
    good = [0, 3, 3, 0.1, 0.1, 0.3, 0.1, 6]

    def run_check(args, kwargs=None):
        kwargs = kwargs or {}
        emit("check", (args, kwargs), outcome(rg.check_input, *args, **kwargs))

    run_check(tuple(good))
    run_check((), dict(zip(names, good)))
    # single parameter varied
    for i in range(8):
        for v in (prob_vals if is_prob[i] else int_vals):
            args = list(good)
            args[i] = v
            run_check(tuple(args))
            run_check((), dict(zip(names, args)))
    # two parameters wrong at once: the first failing check decides
    bad_int = [-1, 0, None, nan, "1"]
    bad_prob = [0, 1, -0.5, 1.5, None, nan, "x"]
    for i, j in itertools.combinations(range(8), 2):
        for vi in (bad_prob if is_prob[i] else bad_int):
            for vj in (bad_prob if is_prob[j] else bad_int):
                args = list(good)
                args[i] = vi
                args[j] = vj
                run_check(tuple(args))
    # random mixtures
    for _ in range(2500):
        args = []
        for i in range(8):
            if rng.random() < 0.7:
                args.append(good[i])
            else:
                args.append(rng.choice(prob_vals if is_prob[i] else int_vals))
        run_check(tuple(args))
    # arity / keyword errors
    run_check(())
    run_check(tuple(good[:7]))
    run_check(tuple(good) + (1,))
    run_check(tuple(good[:7]), dict(max_rewards=6))
    run_check(tuple(good), dict(seed=1))

    # ---------------------------------------------------------------- D
    for v in [0, 0.0, 0.004, 0.005, 0.015, 0.025, 0.05, 0.1, 0.3, 0.29, 0.999, 0.995, 1e-9,
              nan, inf, None, "a", True, Fraction(1, 3), 0.125, 0.135, 0.145]:
        emit("p2s", v, outcome(rg.prob_to_str, v))
    for _ in range(200):
        v = rng.random()
        emit("p2s", v, outcome(rg.prob_to_str, v))

    # ---------------------------------------------------------------- E
    # main(): in-process with patched argv, in a scratch directory
    scratch = tempfile.mkdtemp(prefix="f15_equiv_")
    os.chdir(scratch)

    def snapshot():
        items = []
        for root, dirs, files in os.walk("."):
            dirs.sort()
            for d in dirs:
                items.append(os.path.join(root, d) + "/")
            for f in sorted(files):
                p = os.path.join(root, f)
                with open(p, "rb") as fh:
                    data = fh.read()
                items.append("%s:%d:%s" % (p, len(data), hashlib.sha256(data).hexdigest()))
        return sorted(items)

    def run_main(argv, with_inputs=True):
        for entry in os.listdir("."):
            shutil.rmtree(entry) if os.path.isdir(entry) else os.remove(entry)
        if with_inputs:
            os.mkdir("inputs")
        old_argv = sys.argv
        sys.argv = ["roberta_generator.py"] + list(argv)
        so, se = io.StringIO(), io.StringIO()
        random.seed(99)
        try:
            with contextlib.redirect_stdout(so), contextlib.redirect_stderr(se):
                res = outcome(rg.main)
        finally:
            sys.argv = old_argv
        emit("main", (argv, with_inputs),
             "%s stdout=%r stderr=%r files=%r state=%s"
             % (res, so.getvalue(), se.getvalue(), snapshot(), state_digest()))

    run_main([])
    run_main([], with_inputs=False)
    run_main(["-f"])
    run_main(["--force_down", "-s", "47", "-w", "5", "-l", "5"])
    run_main(["-h"])
    run_main(["--bogus"])
    run_main(["-w", "3.5"])
    run_main(["-s", "x"])
    run_main(["-p", "abc"])
    # committed names
    run_main(["-s", "999132423", "-p", "0.01", "-q", "0.02"])
    run_main(["-s", "999132423", "-p", "0.01", "-q", "0.02", "-f"])
    run_main(["-s", "1", "-w", "1", "-l", "2", "-q", "0.05", "-t", "0.001"])
    run_main(["-s", "1", "-w", "2", "-l", "1", "-q", "0.05", "-t", "0.001"])
    run_main(["-s", "40", "-w", "20", "-l", "10", "-f"])
    # every boundary of every check, long and short option
    for opt, vals in [
        ("--seed", ["-1", "0", "1", "-0", "123456789012345678901234567890"]),
        ("-s", ["-1", "0"]),
        ("--width", ["-1", "0", "1", "2"]),
        ("-w", ["0", "1"]),
        ("--length", ["-1", "0", "1", "2"]),
        ("-l", ["0", "1"]),
        ("--max_reward", ["-1", "0", "1", "2", "60", "1100"]),
        ("-m", ["0", "1"]),
    ]:
        for v in vals:
            run_main([opt + "=" + v] if opt.startswith("--") else [opt, v])
            run_main([opt + "=" + v, "-f"] if opt.startswith("--") else [opt, v, "-f"])
    pvals = ["-0.1", "-1e-300", "0", "0.0", "-0.0", "5e-324", "1e-9", "0.004", "0.005", "0.5",
             "0.995", "0.9999999999999999", "1", "1.0", "1.0000000000000002", "2", "nan",
             "inf", "-inf", "1e-400"]
    for opt in ["--prob_robot_break", "-p", "--prob_light_break", "-q",
                "--prob_tile_break", "-r", "--prob_loose_tile", "-t"]:
        for v in pvals:
            run_main([opt + "=" + v] if opt.startswith("--") else [opt, v])
    # several wrong at once: first failing check decides, nothing written
    run_main(["-s", "-1", "-w", "0", "-l", "0", "-p", "0", "-q", "1", "-t", "2", "-r", "-1", "-m", "0"])
    run_main(["-w", "0", "-l", "0", "-m", "0"])
    run_main(["-l", "0", "-m", "0", "-r", "1"])
    run_main(["-m", "0", "-r", "1", "-t", "0"])
    run_main(["-m", "0", "-t", "0", "-q", "0"])
    run_main(["-m", "0"], with_inputs=False)
    run_main(["-t", "nan"], with_inputs=False)
    # random accepted (and some rejected) parameter sets
    for _ in range(170):
        argv = ["-s", str(rng.randrange(0, 10 ** rng.randrange(1, 10))),
                "-w", str(rng.randrange(0 if rng.random() < 0.05 else 1, 7)),
                "-l", str(rng.randrange(0 if rng.random() < 0.05 else 1, 7)),
                "-m", str(rng.randrange(0 if rng.random() < 0.05 else 1, 12))]
        for o in "pqrt":
            if rng.random() < 0.6:
                argv += ["-" + o, repr(round(rng.random(), rng.randrange(1, 5)))]
        if rng.random() < 0.5:
            argv.append("-f")
        run_main(argv)

    # the script as a process: exit status, last stderr line, files
    def run_script(argv):
        for entry in os.listdir("."):
            shutil.rmtree(entry) if os.path.isdir(entry) else os.remove(entry)
        os.mkdir("inputs")
        p = subprocess.run([sys.executable, os.path.join(repo, "roberta_generator.py")] + argv,
                           capture_output=True, text=True, timeout=60,
                           env=dict(os.environ, PYTHONDONTWRITEBYTECODE="1"))
        last = p.stderr.strip().splitlines()[-1:] if p.stderr.strip() else []
        emit("script", argv, "rc=%d stdout=%r last=%r files=%r"
             % (p.returncode, p.stdout, last, snapshot()))

    for argv in [[], ["-f"], ["-s", "-1"], ["-w", "0"], ["-l", "0"], ["-p", "0"], ["-q", "1"],
                 ["-t", "1"], ["-r", "0"], ["-m", "0"], ["-t", "nan"],
                 ["-s", "47", "-w", "10", "-l", "5", "-f"], ["-s", "47", "-w", "10", "-l", "5"]]:
        run_script(argv)

    os.chdir("/")
    shutil.rmtree(scratch, ignore_errors=True)
    out.write("DONE %d\n" % counter[0])
    out.flush()


# --------------------------------------------------------------------------
# parent
# --------------------------------------------------------------------------
def run_worker(repo):
    env = dict(os.environ, PYTHONDONTWRITEBYTECODE="1", PYTHONHASHSEED="0")
    p = subprocess.run([sys.executable, os.path.abspath(__file__), "--worker", repo],
                       capture_output=True, text=True, timeout=WORKER_TIMEOUT, env=env)
    return p.returncode, p.stdout.splitlines(), p.stderr


def main():
    if len(sys.argv) == 3 and sys.argv[1] == "--worker":
        worker(sys.argv[2])
        return 0
    if len(sys.argv) != 3:
        print("usage: python equiv.py <clean_repo_dir> <patched_repo_dir>")
        return 2
    from concurrent.futures import ThreadPoolExecutor
    with ThreadPoolExecutor(2) as ex:
        fa = ex.submit(run_worker, sys.argv[1])
        fb = ex.submit(run_worker, sys.argv[2])
        (rca, la, ea), (rcb, lb, eb) = fa.result(), fb.result()
    for tag, rc, lines, err in (("clean", rca, la, ea), ("patched", rcb, lb, eb)):
        if rc != 0 or not lines or not lines[-1].startswith("DONE"):
            print("DIFF: %s worker did not finish (rc=%s)\n%s" % (tag, rc, err[-2000:]))
            return 1
    for i, (a, b) in enumerate(zip(la, lb)):
        if a != b:
            print("DIFF at line %d\n clean  : %s\n patched: %s" % (i + 1, a[:3000], b[:3000]))
            return 1
    if len(la) != len(lb):
        print("DIFF: transcript lengths differ: %d vs %d" % (len(la), len(lb)))
        return 1
    print("SAME (%d cases)" % (len(la) - 1))
    return 0


if __name__ == "__main__":
    sys.exit(main())
