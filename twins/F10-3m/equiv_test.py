#!/usr/bin/env python
"""Behavioural equivalence check for property C10.

usage: python equiv_test.py <path-to-patched-root> <path-to-clean-root>

"Solving a game never changes the rewards, players, transition lists or final
states the caller passed in, and solving the same description again - through
the same object or a fresh one, in either pruning mode, in any order - returns
identical results."

Both trees are loaded in separate subprocesses (this same file, --worker mode).
Each worker runs the same deterministic battery and dumps one text record per
case; the parent compares the records.  The battery:

 * several hundred random well-formed games (cycles through probabilistic
   states, several finals, dead states, ties, zero / tiny / near-1
   probabilities, int and float rewards), each solved through a SEQUENCE of
   solves on the very same description (fresh object or same object, pruned or
   unpruned, flag toggled on a live object); after every solve the result (or
   exception type + message), the repr of the caller's description, the
   identity of the caller's inner lists and the equality with a snapshot are
   recorded;
 * node level probes: init_states (node fields, aliasing with the caller's
   lists), remove_path on every removable entry (node list, old list object,
   caller's list), prune_paths / prune_paths_reachability, the Solver pruning
   pipeline step by step;
 * boundary and malformed descriptions (exception type and message);
 * the batch driver: run_games on dicts of games (result dicts without the wall
   clock, the caller's dict afterwards, a second run on the same dict) and the
   report written by save_results_to_file, byte for byte.

Every solve has a deterministic budget (a logging handler counts the
"iteration N" debug records and raises after LIMIT of them - the clean tree
does not converge on some non-stopping games) and a wall clock backstop.
Prints PASS and exits 0 when nothing differs, FAIL (with the first differing
cases) otherwise.
"""
import copy
import json
import os
import random
import signal
import subprocess
import sys
import tempfile
import time

ITERATION_LIMIT = 250
WALL_CLOCK = 20


# --------------------------------------------------------------------------- #
# worker side
# --------------------------------------------------------------------------- #

class Budget(Exception):
    pass


class WallClock(Exception):
    pass


def _install_budget():
    import logging

    class Handler(logging.Handler):
        count = 0
        limit = ITERATION_LIMIT

        def emit(self, record):
            msg = record.msg
            if not isinstance(msg, str):
                return
            if msg.startswith("Initializing stochastic game"):
                Handler.count = 0
            elif msg.startswith("iteration "):
                Handler.count += 1
                if Handler.count > Handler.limit:
                    Handler.count = 0
                    raise Budget("iteration budget exceeded")

    root = logging.getLogger()
    root.setLevel(logging.DEBUG)
    root.addHandler(Handler())
    return Handler


def _alarm(signum, frame):
    raise WallClock("wall clock exceeded")


def guarded(fn, *args, **kwargs):
    """repr of the result, or exception type + message."""
    signal.setitimer(signal.ITIMER_REAL, WALL_CLOCK)
    try:
        return "OK " + repr(fn(*args, **kwargs))
    except RecursionError:
        return "EXC RecursionError"
    except Exception as exc:  # noqa: BLE001 - we want everything
        return "EXC %s: %s" % (type(exc).__name__, exc)
    finally:
        signal.setitimer(signal.ITIMER_REAL, 0)


# ----------------------------- game generation ------------------------------ #

ACTIONS = ["a", "b", "c", "d", "e"]


def _probabilities(rng, k):
    scheme = rng.random()
    if k == 1:
        return [rng.choice([1, 1.0, 1, 1.0, 0.5, 1e-9])] if scheme < 0.1 else [rng.choice([1, 1.0])]
    if scheme < 0.35:
        table = {2: [[0.5, 0.5], [0.25, 0.75], [0.1, 0.9], [0.3, 0.7]],
                 3: [[0.5, 0.25, 0.25], [0.2, 0.3, 0.5], [0.1, 0.1, 0.8]],
                 4: [[0.25, 0.25, 0.25, 0.25], [0.1, 0.2, 0.3, 0.4]]}
        probs = list(rng.choice(table[k]))
        rng.shuffle(probs)
        return probs
    if scheme < 0.7:
        raw = [rng.random() + 0.01 for _ in range(k)]
        total = sum(raw)
        return [x / total for x in raw]
    if scheme < 0.8:
        tiny = rng.choice([1e-9, 1e-7, 1e-6, 1e-3])
        rest = [(1 - tiny) / (k - 1)] * (k - 1)
        probs = [tiny] + rest
        rng.shuffle(probs)
        return probs
    if scheme < 0.9:
        # a zero probability edge next to a proper distribution
        rest = _probabilities(rng, k - 1)
        probs = [0.0 if rng.random() < 0.5 else 0] + rest
        rng.shuffle(probs)
        return probs
    if scheme < 0.95:
        # does not sum to one (sloppy input, still accepted by the checks)
        return [round(rng.random(), 2) for _ in range(k)]
    return [1] + [0] * (k - 1)


def random_game(rng):
    n = rng.choice([1, 2, 2, 3, 3, 4, 4, 5, 5, 6, 6, 7, 8, 9, 10, 12])
    style = rng.random()
    n_final = min(n, rng.choice([1, 1, 1, 2, 2, 3]))
    finals = rng.sample(range(n), n_final)
    if rng.random() < 0.1:
        finals = finals + [finals[0]]            # duplicate entry
    dead = set()
    if n > 2 and rng.random() < 0.5:
        candidates = [s for s in range(1, n) if s not in finals]
        rng.shuffle(candidates)
        dead = set(candidates[:rng.choice([1, 1, 2])])
    players, transitions, rewards = [], [], []
    for s in range(n):
        if s in finals and rng.random() < 0.75:
            players.append("Probabilistic")
            transitions.append([(rng.choice([1, 1.0]), s)])
        elif s in dead:
            kind = rng.choice(["Probabilistic", "Player 1", "Player 2"])
            players.append(kind)
            others = sorted(dead)
            tgt = rng.choice(others)
            if kind == "Probabilistic":
                transitions.append([(1, tgt)] if rng.random() < 0.6
                                   else [(0.5, s), (0.5, tgt)])
            else:
                transitions.append([(rng.choice(ACTIONS), tgt)])
        else:
            if style < 0.15:
                kind = "Probabilistic"
            elif style < 0.25:
                kind = rng.choice(["Player 1", "Player 2"])
            else:
                kind = rng.choice(["Probabilistic", "Probabilistic", "Player 1",
                                   "Player 1", "Player 2"])
            players.append(kind)
            k = rng.choice([1, 2, 2, 3, 3, 4])
            if rng.random() < 0.6:
                k = min(k, n)
                targets = rng.sample(range(n), k)
            else:
                targets = [rng.randrange(n) for _ in range(k)]   # repeats allowed
            if rng.random() < 0.3 and finals:
                targets[rng.randrange(k)] = rng.choice(finals)
            if kind == "Probabilistic":
                probs = _probabilities(rng, k)
                transitions.append(list(zip(probs, targets)))
            else:
                if rng.random() < 0.05:
                    acts = [rng.choice(ACTIONS) for _ in range(k)]     # duplicate names
                else:
                    acts = rng.sample(ACTIONS, k)
                transitions.append(list(zip(acts, targets)))
    reward_style = rng.random()
    for s in range(n):
        if reward_style < 0.2:
            rewards.append(0)
        elif reward_style < 0.6:
            rewards.append(rng.choice([0, 0, 1, 1, 2, 3, 5]))
        elif reward_style < 0.8:
            rewards.append(rng.choice([0, 0.5, 1.25, 2, 1e-7, 3.75]))
        elif reward_style < 0.9:
            rewards.append(rng.choice([0, 1, 10 ** 6, 10 ** 25, 7]))
        else:
            rewards.append(0 if (s in dead or s in finals) else rng.choice([1, 2, 2, 4]))
    # rewards collected forever make value iteration diverge: keep most finals
    # and dead states free of reward so that most solves actually return
    if rng.random() < 0.85:
        for s in set(finals):
            rewards[s] = 0
    if rng.random() < 0.7:
        for s in dead:
            rewards[s] = 0
    if rng.random() < 0.4:
        for s in range(n):
            if players[s] != "Probabilistic" and s not in finals:
                rewards[s] = 0
    return {"rewards": rewards, "players": players,
            "transition_list": transitions, "final_states": finals}


FIXED_SEQUENCES = ["PpUu", "UuPp", "PUPU", "PtT", "UtT", "PPp", "UPu", "PpTt"]


def random_sequence(rng, i):
    if i % 3 == 0:
        return FIXED_SEQUENCES[(i // 3) % len(FIXED_SEQUENCES)]
    return "".join(rng.choice("PUput") for _ in range(rng.choice([2, 3, 4, 5])))


# ------------------------------- the probes --------------------------------- #

def describe(desc, inner_ids, snapshot):
    tl = desc.get("transition_list")
    same_ids = None
    if isinstance(tl, list):
        same_ids = [id(x) for x in tl] == inner_ids
    return "desc=%r same_inner_lists=%r equals_snapshot=%r" % (
        desc, same_ids, desc == snapshot)


def run_sequence(tad, desc, sequence):
    """All solves work on the caller's description `desc` itself."""
    out = []
    snapshot = copy.deepcopy(desc)
    tl = desc.get("transition_list")
    inner_ids = [id(x) for x in tl] if isinstance(tl, list) else None
    last = None
    for op in sequence:
        if op in "PU" or last is None:
            prune = op in "Ppt"
            # (the batch driver leaves a prune_states key in the caller's dict)
            kwargs = {k: v for k, v in desc.items() if k != "prune_states"}
            made = guarded(lambda: tad.StochasticGame(prune_states=prune, **kwargs) and None)
            if made != "OK None":
                out.append("%s construct %s" % (op, made))
                continue
            last = tad.StochasticGame(prune_states=prune, **kwargs)
        elif op in "tT":
            last.prune_states = not last.prune_states
        res = guarded(last.solve)
        out.append("%s prune=%r %s" % (op, last.prune_states, res))
        out.append("   " + describe(desc, inner_ids, snapshot))
        out.append("   obj_alias=%r" % (
            [getattr(last, k, None) is desc.get(k) for k in
             ("rewards", "players", "transition_list", "final_states")],))
    return out


def node_record(node, caller_list):
    return (type(node).__name__, node.idx, node.player, node.reward, node.is_final_node,
            node.reach_probability, node.expected_rewards, node.expected_rewards_min_reach,
            node.expected_reach_min_rewards, node.num_states, repr(node.next_states),
            node.next_states is caller_list)


def all_next_states(nodes):
    return repr([n.next_states for n in nodes])


def probe_nodes(tad, desc, handler, rng):
    out = []
    work = copy.deepcopy(desc)
    game = tad.StochasticGame(**work)
    try:
        nodes = game.init_states()
    except Exception as exc:  # noqa: BLE001
        out.append("init_states EXC %s: %s" % (type(exc).__name__, exc))
        return out
    tl = work["transition_list"]
    out.append("init_states %r" % ([node_record(n, tl[i]) for i, n in enumerate(nodes)],))
    out.append("init_states desc_equal=%r" % (work == desc,))

    # remove_path on every removable entry, each time on fresh nodes
    for i, n in enumerate(nodes):
        if not hasattr(n, "remove_path"):
            out.append("node %d has no remove_path" % i)
            continue
        for k in range(len(n.next_states) + 1):
            w2 = copy.deepcopy(desc)
            fresh = tad.StochasticGame(**w2).init_states()
            node = fresh[i]
            held = node.next_states
            if k < len(held):
                victim = held[k]
            else:
                victim = ("zz", 0) if node.player != "Probabilistic" else (0.123456, 0)
            res = guarded(node.remove_path, victim)
            out.append("remove_path node=%d k=%d %s now=%r held=%r held_is_now=%r caller=%r"
                       % (i, k, res, node.next_states, held, held is node.next_states,
                          w2["transition_list"][i]))
            # a second removal on the already reduced node
            if node.next_states:
                res = guarded(node.remove_path, node.next_states[-1])
                out.append("   again %s now=%r caller_equal=%r" % (
                    res, node.next_states, w2 == desc))

    # prune_paths / prune_paths_reachability with hand-set reach probabilities
    for trial in range(2):
        w3 = copy.deepcopy(desc)
        fresh = tad.StochasticGame(**w3).init_states()
        for n in fresh:
            n.reach_probability = rng.choice([0, 0, 0.0, 0.5, 1, 0.25, 1e-12])
        for n in fresh:
            if hasattr(n, "prune_paths_reachability") and trial == 1:
                acts = [a for a, _ in n.next_states]
                keep = [a for a in acts if rng.random() < 0.6]
                out.append("prune_paths_reachability %d %s -> %r" % (
                    n.idx, guarded(n.prune_paths_reachability, keep), n.next_states))
            if hasattr(n, "prune_paths"):
                held = n.next_states
                out.append("prune_paths %d %s -> %r held=%r" % (
                    n.idx, guarded(n.prune_paths, fresh), n.next_states, held))
        out.append("prune probes caller_equal=%r" % (w3 == desc,))

    # the solver pipeline step by step, in both modes
    for prune in (True, False):
        w4 = copy.deepcopy(desc)
        fresh = tad.StochasticGame(**w4).init_states()
        solver = tad.Solver(state_list=fresh)
        handler.count = 0
        res = guarded(solver.solve_reachability, w4["transition_list"],
                      w4["final_states"], prune)
        out.append("pipeline prune=%r reach %s" % (prune, res))
        if not res.startswith("OK"):
            continue
        strategies = solver._get_reachability_strategies()
        out.append("   prune_reachability %s %s" % (
            guarded(solver.prune_reachability, strategies), all_next_states(fresh)))
        out.append("   prune_paths %s %s" % (guarded(solver.prune_paths), all_next_states(fresh)))
        out.append("   prune_states %s %s" % (guarded(solver.prune_states), all_next_states(fresh)))
        out.append("   prune_stochastich_game %s %s" % (
            guarded(solver.prune_stochastich_game), all_next_states(fresh)))
        handler.count = 0
        out.append("   total_rewards %s" % guarded(solver.solve_total_rewards))
        out.append("   values %r" % ([(n.reach_probability, n.expected_rewards,
                                        n.expected_rewards_min_reach,
                                        n.expected_reach_min_rewards) for n in fresh],))
        out.append("   caller_equal=%r" % (w4 == desc,))
    return out


# --------------------------- malformed descriptions -------------------------- #

def malformed_cases():
    P1, P2, PR = "Player 1", "Player 2", "Probabilistic"
    base = lambda: {"rewards": [1, 2, 0], "players": [P1, PR, PR],  # noqa: E731
                    "transition_list": [[("a", 1), ("b", 2)], [(0.5, 0), (0.5, 2)], [(1, 2)]],
                    "final_states": [2]}
    cases = []

    def add(name, **changes):
        d = base()
        d.update(changes)
        cases.append((name, d))

    add("base")
    add("no finals", final_states=[])
    add("finals tuple", final_states=(2,))
    add("finals set", final_states={2})
    add("finals dup", final_states=[2, 2, 1])
    add("finals out of range", final_states=[3])
    add("finals negative", final_states=[-1])
    add("finals float", final_states=[2.0])
    add("finals bool", final_states=[True])
    add("finals none", final_states=None)
    add("finals unhashable", final_states=[[2]])
    add("all final", final_states=[0, 1, 2])
    add("initial final", final_states=[0])
    add("rewards short", rewards=[1, 2])
    add("rewards long", rewards=[1, 2, 3, 4])
    add("rewards negative", rewards=[1, -2, 0])
    add("rewards float", rewards=[0.5, 2.25, 0.0])
    add("rewards tuple", rewards=(1, 2, 0))
    add("rewards empty", rewards=[])
    add("rewards str", rewards=["1", "2", "0"])
    add("rewards none entry", rewards=[1, None, 0])
    add("players short", players=[P1, PR])
    add("players long", players=[P1, PR, PR, PR])
    add("players unknown", players=[P1, "Player 3", PR])
    add("players lower", players=["player 1", PR, PR])
    add("players none", players=[P1, None, PR])
    add("players unhashable", players=[P1, [PR], PR])
    add("players tuple", players=(P1, PR, PR))
    add("players all p2", players=[P2, PR, PR])
    add("players empty", players=[], rewards=[], transition_list=[], final_states=[])
    add("players empty finals 0", players=[], rewards=[], transition_list=[], final_states=[0])
    add("tl short", transition_list=[[("a", 1)], [(1, 2)]])
    add("tl long", transition_list=[[("a", 1)], [(1, 2)], [(1, 2)], [(1, 2)]])
    add("tl tuple outer", transition_list=([("a", 1), ("b", 2)], [(0.5, 0), (0.5, 2)], [(1, 2)]))
    add("tl empty state 0", transition_list=[[], [(0.5, 0), (0.5, 2)], [(1, 2)]])
    add("tl empty state 2", transition_list=[[("a", 1)], [(1, 2)], []])
    add("tl none state", transition_list=[[("a", 1)], None, [(1, 2)]])
    add("tl tuple state", transition_list=[(("a", 1),), [(1, 2)], [(1, 2)]])
    add("tl dict state", transition_list=[{"a": 1}, [(1, 2)], [(1, 2)]])
    add("tl int state", transition_list=[5, [(1, 2)], [(1, 2)]])
    add("tl str state", transition_list=["ab", [(1, 2)], [(1, 2)]])
    add("tl list entries", transition_list=[[["a", 1]], [(1, 2)], [(1, 2)]])
    add("tl triple", transition_list=[[("a", 1, 2)], [(1, 2)], [(1, 2)]])
    add("tl single", transition_list=[[("a",)], [(1, 2)], [(1, 2)]])
    add("tl empty tuple", transition_list=[[()], [(1, 2)], [(1, 2)]])
    add("tl action int", transition_list=[[(1, 1)], [(1, 2)], [(1, 2)]])
    add("tl action none", transition_list=[[(None, 1)], [(1, 2)], [(1, 2)]])
    add("tl prob str", transition_list=[[("a", 1)], [("x", 2)], [(1, 2)]])
    add("tl prob none", transition_list=[[("a", 1)], [(None, 2)], [(1, 2)]])
    add("tl prob bool", transition_list=[[("a", 1)], [(True, 2)], [(1, 2)]])
    add("tl prob complex", transition_list=[[("a", 1)], [(1j, 2)], [(1, 2)]])
    add("tl prob negative", transition_list=[[("a", 1)], [(-0.5, 0), (1.5, 2)], [(1, 2)]])
    add("tl prob nan", transition_list=[[("a", 1)], [(float("nan"), 0), (0.5, 2)], [(1, 2)]])
    add("tl prob inf", transition_list=[[("a", 1)], [(float("inf"), 2)], [(1, 2)]])
    add("tl target str", transition_list=[[("a", "1")], [(1, 2)], [(1, 2)]])
    add("tl target float", transition_list=[[("a", 1.0)], [(1, 2)], [(1, 2)]])
    add("tl target bool", transition_list=[[("a", True)], [(1, 2)], [(1, 2)]])
    add("tl target none", transition_list=[[("a", None)], [(1, 2)], [(1, 2)]])
    add("tl target high", transition_list=[[("a", 3)], [(1, 2)], [(1, 2)]])
    add("tl target negative", transition_list=[[("a", -1)], [(1, 2)], [(1, 2)]])
    add("tl second entry bad", transition_list=[[("a", 1), ("b", 7)], [(1, 2)], [(1, 2)]])
    add("tl last state bad", transition_list=[[("a", 1)], [(1, 2)], [(1, "2")]])
    add("tl dup actions", transition_list=[[("a", 1), ("a", 2)], [(1, 2)], [(1, 2)]])
    add("tl empty action", transition_list=[[("", 1), ("b", 2)], [(1, 2)], [(1, 2)]])
    add("tl shared inner list",
        transition_list=(lambda shared: [[("a", 1)], shared, shared])([(1, 2)]))
    add("unreachable final", transition_list=[[("a", 0)], [(1, 1)], [(1, 2)]])
    add("zero reach initial", transition_list=[[("a", 0), ("b", 0)], [(1, 2)], [(1, 2)]])
    add("p2 avoids", players=[P2, PR, PR],
        transition_list=[[("a", 1), ("b", 0)], [(1, 2)], [(1, 2)]])
    add("one state", rewards=[0], players=[PR], transition_list=[[(1, 0)]], final_states=[0])
    add("one state p1", rewards=[3], players=[P1], transition_list=[[("a", 0)]], final_states=[0])
    add("one state p2", rewards=[3], players=[P2], transition_list=[[("a", 0)]], final_states=[0])
    # figure 5.5 like game (pruning removes transitions)
    cases.append(("fig55", {
        "rewards": [0, 1, 2, 0, 0, 3],
        "players": [P1, PR, PR, PR, PR, P2],
        "transition_list": [[("a", 1), ("b", 2), ("c", 5)], [(0.5, 3), (0.5, 4)],
                            [(0.2, 3), (0.3, 4), (0.5, 2)], [(1, 3)], [(1, 4)],
                            [("x", 1), ("y", 4)]],
        "final_states": [3]}))
    extra = base()
    extra["prune_states"] = False
    cases.append(("extra prune key", extra))
    missing = base()
    del missing["rewards"]
    cases.append(("missing rewards key", missing))
    unknown = base()
    unknown["colour"] = "red"
    cases.append(("unknown key", unknown))
    return cases


def probe_malformed(tad, name, desc):
    out = []
    snapshot = copy.deepcopy(desc)
    for prune in (True, False, True):
        def attempt():
            kwargs = dict(desc)
            kwargs.setdefault("prune_states", prune)
            return tad.StochasticGame(**kwargs).solve()
        out.append("solve prune=%r %s" % (prune, guarded(attempt)))
        out.append("   desc=%r equal=%r" % (desc, desc == snapshot))

    def build():
        return tad.StochasticGame(**desc)
    for method in ("check_game", "count_transitions", "init_states"):
        def call():
            obj = build()
            res = getattr(obj, method)()
            if method == "init_states":
                return [node_record(n, None) for n in res]
            return res
        out.append("%s %s" % (method, guarded(call)))
        out.append("   desc equal=%r" % (desc == snapshot,))
    return out


# ------------------------------- batch driver -------------------------------- #

def strip_times(results):
    cleaned = {}
    ok = True
    for name, res in results.items():
        res = dict(res)
        t = res.pop("total_time", None)
        ok = ok and isinstance(t, float) and t >= 0
        cleaned[name] = res
    return "times_ok=%r %r" % (ok, cleaned)


def probe_driver(cr, games, tag, workdir):
    out = []
    snapshot = copy.deepcopy(games)
    inner = {k: [id(x) for x in v["transition_list"]]
             for k, v in games.items()
             if isinstance(v, dict) and isinstance(v.get("transition_list"), list)}
    results = None
    for attempt in (1, 2):
        try:
            signal.setitimer(signal.ITIMER_REAL, 3 * WALL_CLOCK)
            results = cr.run_games(games)
            out.append("run %d %s" % (attempt, strip_times(results)))
            out.append("   key order %r" % ([list(r) for r in results.values()],))
        except Exception as exc:  # noqa: BLE001
            out.append("run %d EXC %s: %s" % (attempt, type(exc).__name__, exc))
        finally:
            signal.setitimer(signal.ITIMER_REAL, 0)
        out.append("   games after=%r" % (games,))
        without_flag = {k: ({kk: vv for kk, vv in v.items() if kk != "prune_states"}
                            if isinstance(v, dict) else v) for k, v in games.items()}
        out.append("   description intact=%r same_inner_lists=%r" % (
            without_flag == {k: ({kk: vv for kk, vv in v.items() if kk != "prune_states"}
                                 if isinstance(v, dict) else v) for k, v in snapshot.items()},
            inner == {k: [id(x) for x in v["transition_list"]]
                      for k, v in games.items()
                      if isinstance(v, dict) and isinstance(v.get("transition_list"), list)}))
    if results is not None:
        fixed = copy.deepcopy(results)
        for i, res in enumerate(fixed.values()):
            res["total_time"] = 0.125 * i
        for file_name in ("inputs/%s.py" % tag, "deep/er/%s.v2.py" % tag, tag):
            target = os.path.join(workdir, "outputs", tag.split(".")[0] + ".txt")
            if os.path.exists(target):
                os.remove(target)
            res = guarded(cr.save_results_to_file, fixed, file_name)
            data = None
            if os.path.exists(target):
                with open(target, "rb") as fh:
                    data = fh.read()
            out.append("report %s %s %r" % (file_name, res, data))
    return out


# --------------------------------- worker ------------------------------------ #

def worker(root, out_path):
    root = os.path.abspath(root)
    sys.path.insert(0, root)
    workdir = tempfile.mkdtemp(prefix="c10_equiv_")
    os.makedirs(os.path.join(workdir, "outputs"))
    os.chdir(workdir)
    sys.setrecursionlimit(3000)
    import tad
    import conditionalrewards as cr
    assert os.path.abspath(tad.__file__).startswith(root), tad.__file__
    assert os.path.abspath(cr.__file__).startswith(root), cr.__file__
    handler = _install_budget()
    signal.signal(signal.SIGALRM, _alarm)

    records = []

    def emit(case, lines):
        records.append([case, "\n".join(lines)])

    rng = random.Random(20261004)
    games = []
    for i in range(330):
        desc = random_game(rng)
        seq = random_sequence(rng, i)
        games.append(desc)
        probe_rng = random.Random(i)
        emit("game %d seq %s" % (i, seq), run_sequence(tad, desc, seq))
        if i % 2 == 0:
            emit("game %d nodes" % i, probe_nodes(tad, desc, handler, probe_rng))
        # the description must be reusable after everything above
        emit("game %d final solve" % i, run_sequence(tad, desc, "UP"))

    for name, desc in malformed_cases():
        emit("malformed %s" % name, probe_malformed(tad, name, desc))
        if name in ("base", "fig55", "all final", "tl dup actions", "tl shared inner list",
                    "p2 avoids", "one state p1"):
            emit("malformed %s nodes" % name,
                 probe_nodes(tad, desc, handler, random.Random(7)))
            emit("malformed %s seq" % name, run_sequence(tad, desc, "PpUuPtT"))

    # batch driver: dicts made of random games, the malformed ones, bundled inputs
    handler.limit = 4 * ITERATION_LIMIT
    drng = random.Random(99)
    for i in range(40):
        chosen = drng.sample(range(len(games)), drng.choice([1, 2, 3]))
        batch = {"g%d" % j: copy.deepcopy(games[j]) for j in chosen}
        emit("driver random %d" % i, probe_driver(cr, batch, "batch%d" % i, workdir))
    bad = dict(malformed_cases())
    for i, names in enumerate([["base", "zero reach initial", "fig55"],
                               ["unreachable final", "base"],
                               ["no finals", "one state"],
                               ["tl empty state 0", "p2 avoids"],
                               ["extra prune key"], ["missing rewards key", "base"],
                               ["base", "unknown key"], ["tl none state"],
                               ["players unknown", "rewards negative", "tl target high"]]):
        batch = {n.replace(" ", "_"): copy.deepcopy(bad[n]) for n in names}
        emit("driver malformed %d" % i, probe_driver(cr, batch, "bad%d" % i, workdir))
    emit("driver empty", probe_driver(cr, {}, "empty", workdir))
    emit("driver non-dict game", ["%s" % guarded(cr.run_games, {"x": [1, 2]})])
    for fname in ("paper_games.py", "example_games.py", "example_17_08.py",
                  "manual_1_game_a.py", "robot_1_w1_l2_r6_rb10_lb5_tb10_lt0.py",
                  "robot_1_w2_l1_r6_rb10_lb5_tb10_lt0.py",
                  "robot_1_w2_l2_r6_rb10_lb5_tb10_lt0.py"):
        path = os.path.join(root, "inputs", fname)
        if not os.path.exists(path):
            emit("driver file %s" % fname, ["missing"])
            continue
        loaded = cr.read_dict_from_file(path)
        emit("driver file %s" % fname, probe_driver(cr, loaded, fname[:-3], workdir))
        # and the library directly, twice on the same loaded description
        for gname, desc in loaded.items():
            emit("file %s game %s" % (fname, gname), run_sequence(tad, desc, "PpUu"))

    # report writing without an outputs directory
    os.rename(os.path.join(workdir, "outputs"), os.path.join(workdir, "outputs_gone"))
    emit("report no dir", [guarded(cr.save_results_to_file, {}, "inputs/x.py")])

    with open(out_path, "w") as fh:
        json.dump(records, fh)


# --------------------------------- parent ------------------------------------ #

def main():
    if len(sys.argv) == 4 and sys.argv[1] == "--worker":
        worker(sys.argv[2], sys.argv[3])
        return 0
    if len(sys.argv) != 3:
        print(__doc__)
        return 2
    patched, clean = sys.argv[1], sys.argv[2]
    tmp = tempfile.mkdtemp(prefix="c10_equiv_out_")
    outs = [os.path.join(tmp, "patched.json"), os.path.join(tmp, "clean.json")]
    env = dict(os.environ, PYTHONDONTWRITEBYTECODE="1", PYTHONHASHSEED="0")
    started = time.time()
    procs = [subprocess.Popen([sys.executable, os.path.abspath(__file__), "--worker", root, out],
                              env=env, stdout=subprocess.PIPE, stderr=subprocess.PIPE, text=True)
             for root, out in zip((patched, clean), outs)]
    failed = False
    for label, proc in zip(("patched", "clean"), procs):
        so, se = proc.communicate()
        if proc.returncode != 0:
            failed = True
            print("worker for %s tree crashed (exit %s)\n%s\n%s" % (
                label, proc.returncode, so[-2000:], se[-4000:]))
    if failed:
        print("FAIL")
        return 1
    with open(outs[0]) as fh:
        got = json.load(fh)
    with open(outs[1]) as fh:
        want = json.load(fh)
    differences = []
    if [c for c, _ in got] != [c for c, _ in want]:
        differences.append(("case lists differ", "", ""))
    for (case, a), (_, b) in zip(got, want):
        if a != b:
            differences.append((case, a, b))
    solved = sum(r.count(" OK (") for _, r in want)
    budget = sum(r.count("EXC Budget") for _, r in want)
    wall = sum(r.count("EXC WallClock") for _, r in want) + sum(
        r.count("EXC WallClock") for _, r in got)
    broken = sum(r.count("equals_snapshot=False") + r.count("same_inner_lists=False")
                 + r.count("caller_equal=False") for _, r in want)
    print("%d cases, %d solves returned, %d hit the iteration budget, %d wall clock hits, "
          "%d records where the clean tree altered a description, %.1fs"
          % (len(want), solved, budget, wall, broken, time.time() - started))
    if differences:
        for case, a, b in differences[:5]:
            print("-" * 70)
            print("DIFFERENCE in case:", case)
            la, lb = a.split("\n"), b.split("\n")
            for x, y in zip(la, lb):
                if x != y:
                    print("  patched:", x[:1500])
                    print("  clean  :", y[:1500])
                    break
            else:
                print("  record lengths differ: %d vs %d lines" % (len(la), len(lb)))
        print("%d differing cases" % len(differences))
        print("FAIL")
        return 1
    if wall:
        print("warning: wall clock backstop was hit; comparison may be timing dependent")
    print("PASS")
    return 0


if __name__ == "__main__":
    sys.exit(main())
