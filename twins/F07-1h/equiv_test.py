#!/usr/bin/env python
"""
Equivalence / property test for property C07 (backward search).

usage: python equiv_test.py <path-to-patched-root> <path-to-clean-root>

The parent process builds a deterministic battery of inputs, an independent
oracle for the well-formed ones, and runs the SAME battery in two subprocesses,
one per tree (same module names, separate interpreters).  Observed per case:
  * reverse_dfs(transition_list, final_states)           (value or exception)
  * reverse_transition_list(transition_list)             (items, in order)
  * reverse_transition_list_core(transition_list)
  * reverse_dfs_from(...) effect on a caller-supplied visited set
  * list_of_tuples_to_dict_of_lists / add_missing_states on plain data
  * whether the inputs were mutated
plus, for a few small input files, conditionalrewards.run_games (everything but
the wall-clock time).  PASS = no difference between the trees and no
disagreement of the patched tree with the oracle.
"""
import os
import pickle
import random
import subprocess
import sys
import tempfile
from collections import deque

N_RANDOM = 700


# --------------------------------------------------------------------------- worker
def describe(call):
    try:
        return ("ok", call())
    except RecursionError:
        return ("exc", "RecursionError", "")
    except Exception as e:  # noqa
        return ("exc", type(e).__name__, repr(e.args))


def worker(root, cases_file, out_file):
    sys.path.insert(0, root)
    os.chdir(root)
    import copy
    import reverse_dfs as R
    assert os.path.dirname(os.path.abspath(R.__file__)) == os.path.abspath(root)
    with open(cases_file, "rb") as f:
        battery = pickle.load(f)
    results = {}
    for name, tl, finals in battery["cases"]:
        tl0, finals0 = copy.deepcopy(tl), copy.deepcopy(finals)
        res = {}
        res["dfs"] = describe(lambda: R.reverse_dfs(tl, finals))
        if res["dfs"][0] == "ok":
            res["dfs_type"] = type(res["dfs"][1]).__name__
        res["table"] = describe(lambda: list(R.reverse_transition_list(tl).items()))
        res["table_type"] = describe(lambda: type(R.reverse_transition_list(tl)).__name__)
        res["core"] = describe(lambda: R.reverse_transition_list_core(tl))
        # two calls must not share anything
        res["dfs_again"] = describe(lambda: R.reverse_dfs(tl, finals))

        def from_effect():
            table = R.reverse_transition_list(tl)
            out = []
            for seed_visited in (set(), set(list(table)[::3])):
                visited = set(seed_visited)
                rets = [R.reverse_dfs_from(f, table, visited) for f in finals]
                out.append((rets, sorted(visited, key=repr)))
            return out
        res["from"] = describe(from_effect)
        res["mutated"] = (tl != tl0) or (finals != finals0)
        results[name] = res

    helpers = []
    for tuples in battery["tuple_lists"]:
        helpers.append(describe(lambda: list(R.list_of_tuples_to_dict_of_lists(tuples).items())))
    for d, n in battery["missing"]:
        def run():
            dd = copy.deepcopy(d)
            back = R.add_missing_states(dd, n)
            return (back is dd, list(back.items()))
        helpers.append(describe(run))
    results["__helpers__"] = helpers

    # the solver / driver on top of the search
    import logging
    logging.disable(logging.CRITICAL)
    import conditionalrewards as C
    driver = {}
    for file_name in battery["input_files"]:
        games = C.read_dict_from_file(os.path.join(battery["clean_root"], "inputs", file_name))
        out = C.run_games(games)
        for g in out.values():
            g.pop("total_time", None)
        driver[file_name] = repr(sorted(out.items()))
    results["__driver__"] = driver

    with open(out_file, "wb") as f:
        pickle.dump(results, f)


# --------------------------------------------------------------------------- inputs
def label(rng, k):
    return rng.choice(["a", "b", "alfa", 0.5, 1, 1 / 3, 0.25])


def random_graph(rng):
    n = rng.choice([1, 1, 2, 2, 3, 4, 5, 6, 7, 8, 10, 12, 15, 20, 30, 40])
    shape = rng.choice(["sparse", "dense", "dag", "cyclic", "islands", "loops", "parallel"])
    tl = []
    for u in range(n):
        if shape == "sparse":
            k = rng.choice([0, 1, 1, 2])
        elif shape == "dense":
            k = rng.randint(0, n + 2)
        else:
            k = rng.randint(0, 3)
        edges = []
        for j in range(k):
            if shape == "dag":
                if u == n - 1:
                    break
                v = rng.randint(u + 1, n - 1)
            elif shape == "islands":
                half = n // 2
                v = rng.randrange(0, max(half, 1)) if u < half else rng.randrange(half, n)
            elif shape == "loops":
                v = u if rng.random() < 0.5 else rng.randrange(n)
            else:
                v = rng.randrange(n)
            edges.append((label(rng, j), v))
            if shape == "parallel" and rng.random() < 0.6:
                edges.append((label(rng, j), v))
                if rng.random() < 0.3:
                    edges.append((label(rng, j), v))
        if shape == "cyclic":
            edges.append((1, (u + 1) % n))
        tl.append(edges)
    k = rng.choice([1, 1, 1, 2, 3, n])
    finals = [rng.randrange(n) for _ in range(max(1, min(k, n + 2)))]
    if rng.random() < 0.3:
        finals = finals + [rng.choice(finals) for _ in range(rng.randint(1, 3))]
    rng.shuffle(finals)
    return tl, finals


def chain(n, forward=True):
    if forward:
        return [[(1, i + 1)] for i in range(n - 1)] + [[(1, n - 1)]]
    return [[(1, 0)]] + [[(1, i - 1)] for i in range(1, n)]


def grid(width, length):
    """ every cell goes left / right / down; the last row goes to a winning state """
    n = width * length
    tl = []
    for r in range(length):
        for c in range(width):
            e = []
            if c > 0:
                e.append(("l", r * width + c - 1))
            if c < width - 1:
                e.append(("r", r * width + c + 1))
            e.append(("d", (r + 1) * width + c if r < length - 1 else n))
            tl.append(e)
    tl.append([(1, n)])         # winning state
    tl.append([(1, n + 1)])     # loosing state, reaches nothing
    return tl, [n]


def generator_games(clean_root, tmp):
    """ tall boards written by the (clean) generator: the three games of each file """
    sys.path.insert(0, clean_root)
    import roberta_generator as G
    sys.path.pop(0)
    cases = []
    for seed, width, length, force_down in [(7, 3, 200, False), (8, 3, 200, True),
                                            (9, 1, 150, True), (3, 1, 1, False),
                                            (4, 6, 1, True), (5, 2, 60, False)]:
        moves, rewards, loose = G.gen_rnd_board(seed, length, width, 0.3, 6, force_down)
        file_name = os.path.join(tmp, "board_%d_%d_%d.py" % (seed, width, length))
        G.write_robots(file_name, length, width, moves, rewards, loose, 0.1, 0.1, 0.1)
        with open(file_name) as f:
            games = eval(f.read())
        for gname, game in games.items():
            cases.append(("board s%d w%d l%d %s" % (seed, width, length, gname),
                          game["transition_list"], list(game["final_states"])))
    del sys.modules["roberta_generator"]
    return cases


def build_battery(clean_root, tmp):
    rng = random.Random(20240707)
    cases = []
    for i in range(N_RANDOM):
        tl, finals = random_graph(rng)
        cases.append(("random %d" % i, tl, finals))

    # --- boundary, well formed
    cases.append(("single state self loop", [[(1, 0)]], [0]))
    cases.append(("single state no edge", [[]], [0]))
    cases.append(("two states, one edge into final", [[("a", 1)], []], [1]))
    cases.append(("two states, edge out of final only", [[], [("a", 0)]], [1]))
    cases.append(("all final", [[(1, 1)], [(1, 2)], [(1, 0)]], [2, 0, 1, 1, 0]))
    cases.append(("diamond (two predecessors paths)",
                  [[("a", 1), ("b", 2)], [(1, 3)], [(1, 3)], [(1, 3)]], [3]))
    cases.append(("diamond, deeper",
                  [[("a", 1), ("b", 2)], [(1, 3)], [(1, 3)], [(1, 4)], [(1, 4)], [(1, 0)]], [4]))
    cases.append(("parallel edges into final", [[("a", 1), ("b", 1), ("c", 1)], [(1, 1)]], [1]))
    cases.append(("two finals sharing a predecessor",
                  [[("a", 1), ("b", 2)], [(1, 1)], [(1, 2)], [(1, 0)]], [2, 1]))
    cases.append(("second final is a predecessor of the first",
                  [[(1, 1)], [(1, 2)], [(1, 2)]], [2, 1, 2]))
    cases.append(("final reaches final through non final",
                  [[(1, 1)], [(1, 2)], [(1, 2)], [(1, 0)]], [0, 2]))
    cases.append(("finals as tuple", [[(1, 1)], [(1, 2)], [(1, 2)]], (2,)))
    cases.append(("transition lists as tuples", ((("a", 1),), ((1, 1),)), [1]))
    cases.append(("complete graph 60",
                  [[(1, v) for v in range(60)] for _ in range(60)], [59, 3]))
    cases.append(("star into final", [[(1, 0)]] + [[(1, 0)] for _ in range(300)], [0]))
    cases.append(("star out of final", [[(1, v) for v in range(1, 300)]] + [[] for _ in range(299)], [0]))
    for n in (1000, 5000, 20000):
        cases.append(("forward chain %d" % n, chain(n, True), [n - 1]))
        cases.append(("backward chain %d" % n, chain(n, False), [0]))
        cases.append(("forward chain %d, final in the middle" % n, chain(n, True), [n // 2]))
        cases.append(("forward chain %d, every 7th final, reversed order" % n, chain(n, True),
                      list(range(0, n, 7))[::-1]))
    ring = [[(1, (i + 1) % 3000)] for i in range(3000)]
    cases.append(("ring 3000", ring, [1234]))
    for w, l in [(3, 200), (1, 400), (200, 3), (5, 5)]:
        tl, finals = grid(w, l)
        cases.append(("grid %dx%d" % (w, l), tl, finals))
    big = random.Random(5)
    n = 4000
    tl = [[(1, big.randrange(n)) for _ in range(big.choice([0, 1, 1, 2]))] for _ in range(n)]
    cases.append(("sparse random 4000", tl, [big.randrange(n) for _ in range(5)]))
    cases.extend(generator_games(clean_root, tmp))

    # --- outside the quantifier (must still behave the same: value or exception)
    cases.append(("MALFORMED empty finals", [[(1, 1)], [(1, 1)]], []))
    cases.append(("MALFORMED no state at all, no final", [], []))
    cases.append(("MALFORMED no state at all, final 0", [], [0]))
    cases.append(("MALFORMED final out of range", [[(1, 1)], [(1, 1)]], [5]))
    cases.append(("MALFORMED final out of range after a good one", [[(1, 1)], [(1, 1)]], [1, 5, 7]))
    cases.append(("MALFORMED negative final", [[(1, 1)], [(1, 1)]], [-1]))
    cases.append(("MALFORMED target out of range", [[(1, 4)], [(1, 1)]], [1]))
    cases.append(("MALFORMED target out of range and final", [[(1, 4)], [(1, 0)]], [4]))
    cases.append(("MALFORMED negative target", [[(1, -1)], [(1, 0)]], [0]))
    cases.append(("MALFORMED triple transition", [[(1, 1, 2)], [(1, 1)]], [1]))
    cases.append(("MALFORMED bare target", [[1], [(1, 1)]], [1]))
    cases.append(("MALFORMED string states", [[(1, "x")], [(1, 1)]], [1]))
    cases.append(("MALFORMED string final", [[(1, "x")], [(1, 1)]], ["x"]))
    cases.append(("MALFORMED float states", [[(1, 1.0)], [(1, 1)]], [1.0]))
    cases.append(("MALFORMED unhashable final", [[(1, 1)], [(1, 1)]], [[1]]))

    tuple_lists = [
        [], [(1, 99), (1, 98), (2, 97), (2, 96), (3, 95), (1, 90)], [(0, 0), (0, 0)],
        [(1, 2, 3), (1, 4, 5)], [[1, 2], [1, 3]], [(1,)], ((5, 1), (4, 1), (5, 1)),
    ]
    missing = [({}, 0), ({}, 3), ({2: [1]}, 3), ({7: [0]}, 2), ({0: [], 1: [0]}, 2), ({1: [1]}, -1)]
    input_files = ["example_17_08.py", "example_games.py", "paper_games.py", "manual_1_game_a.py",
                   "robot_1_w1_l2_r6_rb10_lb5_tb10_lt0.py", "robot_1_w2_l1_r6_rb10_lb5_tb10_lt0.py",
                   "robot_1_w2_l2_r6_rb10_lb5_tb10_lt0.py",
                   "robot_999132423_w3_l3_r6_rb1_lb2_tb10_lt30.py",
                   "robot_999132423_w3_l3_r6_rb1_lb2_tb10_lt30_force_down.py",
                   "robot_47_w5_l5_r6_rb10_lb10_tb10_lt30.py"]
    return {"cases": cases, "tuple_lists": tuple_lists, "missing": missing,
            "input_files": input_files, "clean_root": clean_root}


# --------------------------------------------------------------------------- oracle
def oracle(tl, finals):
    """ independent of the product: breadth first over predecessor sets """
    n = len(tl)
    preds = [set() for _ in range(n)]
    count = {}
    for u, edges in enumerate(tl):
        for _, v in edges:
            preds[v].add(u)
            count[(v, u)] = count.get((v, u), 0) + 1
    seen = set(finals)
    queue = deque(seen)
    while queue:
        v = queue.popleft()
        for u in preds[v]:
            if u not in seen:
                seen.add(u)
                queue.append(u)
    reaching = sorted(seen - set(finals))
    table = {v: sorted(u for u in preds[v] for _ in range(count[(v, u)])) for v in range(n)}
    return reaching, table


def naive_oracle(tl, finals):
    """ second opinion for small graphs: fixed point on the forward relation """
    good = set(finals)
    changed = True
    while changed:
        changed = False
        for u, edges in enumerate(tl):
            if u not in good and any(v in good for _, v in edges):
                good.add(u)
                changed = True
    return sorted(good - set(finals))


# --------------------------------------------------------------------------- main
def run_worker(root, cases_file, tmp, tag):
    out_file = os.path.join(tmp, "out_%s.pkl" % tag)
    env = dict(os.environ, PYTHONDONTWRITEBYTECODE="1", PYTHONHASHSEED="0")
    proc = subprocess.run([sys.executable, os.path.abspath(__file__), "--worker",
                           os.path.abspath(root), cases_file, out_file],
                          env=env, stdout=subprocess.PIPE, stderr=subprocess.STDOUT, text=True)
    if proc.returncode != 0:
        print(proc.stdout)
        print("FAIL: worker for %s crashed" % tag)
        sys.exit(1)
    with open(out_file, "rb") as f:
        return pickle.load(f)


def main():
    if len(sys.argv) == 5 and sys.argv[1] == "--worker":
        worker(sys.argv[2], sys.argv[3], sys.argv[4])
        return
    if len(sys.argv) != 3:
        print(__doc__)
        sys.exit(2)
    patched_root, clean_root = os.path.abspath(sys.argv[1]), os.path.abspath(sys.argv[2])
    sys.setrecursionlimit(1000)
    sys.dont_write_bytecode = True
    problems = []
    with tempfile.TemporaryDirectory() as tmp:
        battery = build_battery(clean_root, tmp)
        cases_file = os.path.join(tmp, "cases.pkl")
        with open(cases_file, "wb") as f:
            pickle.dump(battery, f)
        patched = run_worker(patched_root, cases_file, tmp, "patched")
        clean = run_worker(clean_root, cases_file, tmp, "clean")

    n_oracle = 0
    for name, tl, finals in battery["cases"]:
        p, c = patched[name], clean[name]
        for key in sorted(set(p) | set(c)):
            if p.get(key) != c.get(key):
                problems.append("%s: %s differs\n   patched: %.300r\n   clean  : %.300r"
                                % (name, key, p.get(key), c.get(key)))
        if p["mutated"]:
            problems.append("%s: patched tree mutated its inputs" % name)
        if name.startswith("MALFORMED"):
            continue
        # the property itself, on the patched tree
        n_oracle += 1
        reaching, table = oracle(tl, finals)
        if p["dfs"] != ("ok", reaching) or p["dfs_type"] != "list":
            problems.append("%s: patched reverse_dfs disagrees with the oracle: %.300r vs %.300r"
                            % (name, p["dfs"], reaching))
        if p["dfs_again"] != p["dfs"]:
            problems.append("%s: second call differs from the first" % name)
        if len(tl) <= 40 and p["dfs"] != ("ok", naive_oracle(tl, finals)):
            problems.append("%s: patched reverse_dfs disagrees with the naive oracle" % name)
        if p["table"][0] != "ok" or dict(p["table"][1]) != table \
                or len(p["table"][1]) != len(table) or p["table_type"] != ("ok", "dict"):
            problems.append("%s: patched reversed table disagrees with the oracle" % name)
    if patched["__helpers__"] != clean["__helpers__"]:
        problems.append("helper functions differ: %r vs %r"
                        % (patched["__helpers__"], clean["__helpers__"]))
    for file_name in battery["input_files"]:
        if patched["__driver__"][file_name] != clean["__driver__"][file_name]:
            problems.append("run_games differs on %s" % file_name)

    print("%d cases compared between the trees, %d of them also against the oracle, "
          "%d input files solved" % (len(battery["cases"]), n_oracle, len(battery["input_files"])))
    if problems:
        for line in problems[:40]:
            print(line)
        print("FAIL (%d problems)" % len(problems))
        sys.exit(1)
    print("PASS")


if __name__ == "__main__":
    main()
