#!/usr/bin/env python
"""Equivalence test for property C17 (generated file names identify the parameters).

usage: python equiv_test.py <path-to-patched-root> <path-to-clean-root>

Both trees are loaded in separate subprocesses (this same file, run with
--worker <root> <out.json>).  Every worker runs the same deterministic list of
cases in a private temporary working directory and records, per case,

  * the value returned / the exception type and message / the SystemExit code,
  * what was printed on stdout and stderr,
  * the complete listing of the working directory afterwards: relative path of
    every file plus the sha256 of its bytes (so the file NAMES and the file
    CONTENTS are both compared byte for byte),
  * a digest of the state of the global `random` generator after the call.

The parent compares the two records and prints PASS (exit 0) when nothing
differs, FAIL (exit 1) plus the first differences otherwise.

Cases (aimed at the quantifier "all accepted parameter sets, in particular
every probability k/100 for k = 1..99"):
  A. prob_to_str on k/100 (k = 0..100, written as a literal, as a division and
     as k*0.01), k/1000, halves (x.5 percentages, banker's rounding), random
     floats, ints, bools, Fractions, Decimals, numpy scalars, nan, +-inf, huge
     values, negative values and non-numbers (TypeError).
  B. check_input on a grid around every boundary, including nan, inf, bools,
     and wrongly typed values.
  C. roberta_generator.main() in process with a patched sys.argv: the full
     sweep k = 1..99 for each of the four probabilities, with and without
     --force_down; random parameter sets (width 1, length 1, tiny and near-1
     probabilities, large max_reward, large seeds); rejected sets (0, 1,
     negatives, nan, inf); argparse errors; short options; missing inputs/
     directory (the error message carries the file name).
  D. stochastic_game_from_roborta_board.create_sg_from_board on random boards
     (with / without a "down" move, 1xN, Nx1), the whole-percent sweep,
     probabilities outside (0,1), nan, ragged / empty / malformed boards.
  E. `python roberta_generator.py ...` as a real script (the observe_at of the
     property) for a handful of parameter sets, and init_parser defaults.
"""
import hashlib
import json
import os
import subprocess
import sys
import tempfile


# --------------------------------------------------------------------------- #
# worker
# --------------------------------------------------------------------------- #

def _listing(top):
    out = []
    for dirpath, dirnames, filenames in os.walk(top):
        dirnames.sort()
        for name in sorted(filenames):
            full = os.path.join(dirpath, name)
            with open(full, "rb") as handle:
                digest = hashlib.sha256(handle.read()).hexdigest()
            out.append([os.path.relpath(full, top), digest])
        if not filenames and not dirnames:
            out.append([os.path.relpath(dirpath, top) + os.sep, "<empty dir>"])
    out.sort()
    return out


def _clear(top, keep_inputs=True):
    import shutil
    for name in os.listdir(top):
        full = os.path.join(top, name)
        if os.path.isdir(full):
            shutil.rmtree(full)
        else:
            os.unlink(full)
    if keep_inputs:
        os.mkdir(os.path.join(top, "inputs"))


def _worker(root, out_path):
    import contextlib
    import io
    import random
    from decimal import Decimal
    from fractions import Fraction

    sys.dont_write_bytecode = True
    sys.path.insert(0, root)
    work = tempfile.mkdtemp(prefix="c17_work_")
    os.chdir(work)
    os.mkdir("inputs")

    import roberta_generator as rg
    import stochastic_game_from_roborta_board as sb

    assert os.path.dirname(os.path.abspath(rg.__file__)) == os.path.abspath(root), rg.__file__
    assert os.path.dirname(os.path.abspath(sb.__file__)) == os.path.abspath(root), sb.__file__

    records = []

    def rnd_digest():
        return hashlib.sha256(repr(random.getstate()).encode()).hexdigest()[:16]

    def run(label, func, *args, fs=False, **kwargs):
        """Call func, record the outcome (and the directory when fs is set)."""
        out, err = io.StringIO(), io.StringIO()
        rec = {"label": label}
        try:
            with contextlib.redirect_stdout(out), contextlib.redirect_stderr(err):
                value = func(*args, **kwargs)
            rec["result"] = repr(value)
        except SystemExit as exc:
            rec["exit"] = repr(exc.code)
        except BaseException as exc:  # noqa: BLE001 - we record everything
            rec["exception"] = [type(exc).__name__, str(exc)]
        rec["stdout"] = out.getvalue()
        rec["stderr"] = err.getvalue()
        if fs:
            rec["files"] = _listing(work)
            rec["random"] = rnd_digest()
        records.append(rec)
        return rec

    # ------------------------------------------------------------------ A --
    values = []
    for k in range(0, 101):
        values.append(("lit", float("0.%02d" % k) if k < 100 else 1.0))
        values.append(("div", k / 100))
        values.append(("mul", k * 0.01))
        values.append(("int%", k))
    for k in range(0, 1001, 7):
        values.append(("milli", k / 1000))
    for k in range(0, 100):
        values.append(("half", (k + 0.5) / 100))
        values.append(("half2", k / 100 + 0.005))
    gen = random.Random(1234)
    for _ in range(400):
        values.append(("rnd", gen.random()))
    for _ in range(100):
        values.append(("rnd-wide", gen.uniform(-5, 5)))
    for _ in range(50):
        values.append(("rnd-tiny", gen.random() * 10 ** -gen.randint(2, 320)))
    for _ in range(50):
        values.append(("rnd-near1", 1 - gen.random() * 10 ** -gen.randint(2, 17)))
    values += [
        ("special", float("nan")), ("special", float("inf")), ("special", float("-inf")),
        ("special", 1e308), ("special", -1e308), ("special", 1.7e308), ("special", 5e-324),
        ("special", -0.0), ("special", 0.0), ("special", True), ("special", False),
        ("special", 10 ** 30), ("special", -3), ("special", 1e22), ("special", 2 ** 53 + 1.0),
        ("special", Fraction(29, 100)), ("special", Fraction(1, 3)), ("special", Fraction(1, 200)),
        ("special", Decimal("0.29")), ("special", Decimal("0.285")), ("special", Decimal("NaN")),
        ("special", Decimal("Infinity")),
        ("special", None), ("special", "0.29"), ("special", "a"), ("special", []),
        ("special", [1]), ("special", (0.5,)), ("special", {}), ("special", 1 + 2j),
        ("special", b"x"), ("special", object),
    ]
    try:
        import numpy as np
        values += [("numpy", np.float64(0.29)), ("numpy", np.float32(0.29)),
                   ("numpy", np.float64("nan")), ("numpy", np.int64(3)),
                   ("numpy", np.float64(0.575)), ("numpy", np.array([0.1, 0.29]))]
    except Exception:  # pragma: no cover - numpy is optional
        pass
    for idx, (kind, val) in enumerate(values):
        run("A prob_to_str %s #%d %r" % (kind, idx, val), rg.prob_to_str, val)

    # the property itself, recorded as data: k/100 -> str(k)
    run("A sweep", lambda: [rg.prob_to_str(k / 100) for k in range(1, 100)])
    run("A sweep literal", lambda: [rg.prob_to_str(float("0.%02d" % k)) for k in range(1, 100)])

    # ------------------------------------------------------------------ B --
    names = ["seed", "width", "length", "prob_robot_break", "prob_light_break",
             "prob_loose_tile", "prob_tile_break", "max_reward"]
    good = dict(seed=0, width=3, length=3, prob_robot_break=0.1, prob_light_break=0.1,
                prob_loose_tile=0.3, prob_tile_break=0.1, max_reward=6)
    int_probe = [-10 ** 9, -1, 0, 1, 2, 10 ** 12, True, False, -0.5, 0.5, float("nan"),
                 float("inf"), float("-inf"), None, "3", [], 1.0, 0.0]
    prob_probe = [-1, -1e-300, -0.0, 0, 0.0, 5e-324, 1e-17, 0.01, 0.5, 0.99, 1 - 1e-16,
                  1, 1.0, 1 + 1e-15, 2, float("nan"), float("inf"), float("-inf"), True,
                  False, None, "0.5", [], Fraction(1, 2), Decimal("0.5"), Decimal("NaN")]
    for name in names:
        probe = prob_probe if name.startswith("prob") else int_probe
        for val in probe:
            kw = dict(good)
            kw[name] = val
            run("B check_input %s=%r" % (name, val), rg.check_input, **kw)
            run("B check_input positional %s=%r" % (name, val), rg.check_input,
                *[kw[n] for n in names])
    # several violations at once: the FIRST failing check must win
    for _ in range(300):
        kw = {}
        for name in names:
            if name.startswith("prob"):
                kw[name] = gen.choice([-0.5, 0, 0.0, 0.3, 0.999, 1, 1.5, float("nan")])
            else:
                kw[name] = gen.choice([-2, 0, 1, 7])
        run("B check_input multi %r" % sorted(kw.items()), rg.check_input, **kw)
    run("B check_input missing", rg.check_input, 1, 2, 3)
    run("B check_input extra", rg.check_input, 0, 3, 3, 0.1, 0.1, 0.3, 0.1, 6, 7)
    run("B check_input bad keyword", rg.check_input, **dict(good, bogus=1))

    # ------------------------------------------------------------------ C --
    def call_main(argv):
        old = sys.argv
        sys.argv = ["roberta_generator.py"] + [str(a) for a in argv]
        try:
            return rg.main()
        finally:
            sys.argv = old

    def main_case(label, argv, keep_inputs=True):
        _clear(work, keep_inputs=keep_inputs)
        random.seed(99)   # known state before, digest recorded after
        run("C main %s %r" % (label, argv), call_main, argv, fs=True)

    main_case("defaults", [])
    main_case("defaults force", ["-f"])
    options = ["--prob_robot_break", "--prob_light_break", "--prob_tile_break",
               "--prob_loose_tile"]
    for opt_idx, opt in enumerate(options):
        for k in range(1, 100):
            argv = [opt, "0.%02d" % k, "-w", 1 + (k % 3), "-l", 1 + (k % 2), "-s", k]
            if (k + opt_idx) % 2:
                argv.append("--force_down")
            main_case("sweep", argv)
    # all four probabilities at once, written in different ways
    for k in range(1, 100, 3):
        main_case("sweep4", ["-p", k / 100, "-q", repr((100 - k) / 100), "-r", "%de-2" % k,
                             "-t", "%.3f" % (k / 100), "-w", 2, "-l", 2])
    short = {"seed": "-s", "width": "-w", "length": "-l", "prob_robot_break": "-p",
             "prob_light_break": "-q", "prob_tile_break": "-r", "prob_loose_tile": "-t",
             "max_reward": "-m"}
    for case in range(220):
        argv = []
        chosen = gen.sample(sorted(short), gen.randint(0, len(short)))
        for name in chosen:
            if name.startswith("prob"):
                val = gen.choice([
                    gen.randint(1, 99) / 100, gen.random(), gen.random() * 1e-6, 1e-300,
                    1 - gen.random() * 1e-9, 0.005, 0.995, 0.285, 0.575, 0.994999,
                    0.004999, 0.29, 0.57, 0.58, gen.randint(1, 999) / 1000])
            elif name == "seed":
                val = gen.choice([0, 1, 47, gen.randint(0, 10 ** 6), 10 ** 20, 999132423])
            elif name == "max_reward":
                val = gen.choice([1, 2, 6, 13, 60, 1022, 1023, 5000])
            else:
                val = gen.choice([1, 1, 2, 3, 4, 7])
            argv += [short[name] if gen.random() < 0.5 else "--" + name, val]
        if gen.random() < 0.5:
            argv.append(gen.choice(["-f", "--force_down"]))
        main_case("random", argv)
    rejected = [
        ["-s", -1], ["-w", 0], ["-w", -3], ["-l", 0], ["-m", 0], ["-m", -1],
        ["-p", 0], ["-p", 1], ["-p", "0.0"], ["-p", "1.0"], ["-p", -0.1], ["-p", 1.5],
        ["-q", 0], ["-q", 1], ["-r", 0], ["-r", 1], ["-t", 0], ["-t", 1], ["-t", "1e400"],
        ["-p", "inf"], ["-q", "-inf"], ["-p", "nan"], ["-q", "nan"], ["-r", "nan"],
        ["-t", "nan"], ["-p", "nan", "-t", "nan", "-f"], ["-t", "nan", "-w", 1, "-l", 1],
        ["-s", -1, "-w", 0, "-p", 3], ["-w", 0, "-l", 0], ["-q", 2, "-r", 2, "-t", 2],
        ["-w", "x"], ["-p", "abc"], ["-s", "1.5"], ["--nope"], ["-w"], ["extra"],
        ["-h"], ["--help"], ["-f", "1"], ["-m", "6.0"], ["--wid", 2], ["--prob", 0.5],
        ["--prob_r", 0.5], ["-w2", "-l2"], ["-fw", 2], ["-s=5"], ["--seed=5", "--width=1"],
    ]
    for argv in rejected:
        main_case("rejected/odd", argv)
    # no inputs/ directory: the error message carries the assembled name
    for argv in ([], ["-f"], ["-p", 0.29, "-q", 0.57, "-r", 0.58, "-t", 0.07, "-s", 12, "-f"],
                 ["-w", 1, "-l", 1, "-m", 1]):
        main_case("no inputs dir", argv, keep_inputs=False)
    # inputs is a file, not a directory
    _clear(work, keep_inputs=False)
    with open(os.path.join(work, "inputs"), "w") as handle:
        handle.write("not a directory")
    random.seed(99)
    run("C main inputs is a file", call_main, ["-p", 0.29], fs=True)
    # an existing file is overwritten (same name -> same path)
    _clear(work)
    random.seed(99)
    run("C main first", call_main, ["-p", 0.28], fs=True)
    run("C main second (0.29 must not overwrite 0.28)", call_main, ["-p", 0.29], fs=True)
    run("C main third (overwrites first)", call_main, ["-p", 0.28, "-t", 0.3], fs=True)

    # ------------------------------------------------------------------ D --
    def board(length, width, down, seed):
        brd = random.Random(seed)
        top = 3 if down else 2
        moves = [[brd.randint(0, top) for _ in range(width)] for _ in range(length)]
        if down:
            moves[brd.randrange(length)][brd.randrange(width)] = 3
        rewards = [[brd.randint(0, 9) for _ in range(width)] for _ in range(length)]
        loose = [[brd.randint(0, 1) for _ in range(width)] for _ in range(length)]
        return moves, rewards, loose

    def sg_case(label, *args, **kwargs):
        _clear(work, keep_inputs=kwargs.pop("keep_inputs", True))
        random.seed(99)
        run("D create_sg %s" % label, sb.create_sg_from_board, *args, fs=True, **kwargs)

    for k in range(1, 100):
        moves, rewards, loose = board(1 + k % 3, 1 + k % 4, k % 2 == 0, k)
        sg_case("sweep rb %d" % k, moves, rewards, loose, k / 100, 0.1, 0.1)
        sg_case("sweep lb %d" % k, moves, rewards, loose, 0.1, float("0.%02d" % k), 0.1)
        sg_case("sweep tb %d" % k, moves, rewards, loose, 0.1, 0.1, k * 0.01)
    for case in range(150):
        length, width = gen.choice([1, 1, 2, 3, 5]), gen.choice([1, 1, 2, 4, 6])
        moves, rewards, loose = board(length, width, gen.random() < 0.5, 1000 + case)
        probs = [gen.choice([gen.random(), gen.randint(0, 100) / 100, 0, 1, 0.005, 0.995,
                             1.5, -0.2, 1e-9, 0.285, 0.575]) for _ in range(3)]
        if case % 3 == 0:
            sg_case("random kw %d" % case, moves=moves, rewards=rewards, loose_tiles=loose,
                    prob_robot_break=probs[0], prob_light_break=probs[1],
                    prob_tile_break=probs[2])
        else:
            sg_case("random %d %r" % (case, probs), moves, rewards, loose, *probs)
    m3, r3, l3 = board(2, 2, True, 5)
    m2, r2, l2 = board(2, 2, False, 6)
    nan, inf = float("nan"), float("inf")
    odd = [
        ("nan rb", (m3, r3, l3, nan, 0.1, 0.1)), ("nan lb", (m3, r3, l3, 0.1, nan, 0.1)),
        ("nan tb", (m2, r2, l2, 0.1, 0.1, nan)), ("inf rb", (m2, r2, l2, inf, 0.1, 0.1)),
        ("nan then inf", (m2, r2, l2, nan, inf, 0.1)), ("inf then nan", (m2, r2, l2, inf, nan, 0.1)),
        ("str then nan", (m2, r2, l2, 0.1, "x", nan)), ("none tb", (m2, r2, l2, 0.1, 0.2, None)),
        ("bad board and nan", ([], r2, l2, nan, 0.1, 0.1)),
        ("empty rewards and nan", (m2, [], l2, nan, 0.1, 0.1)),
        ("empty moves", ([], [], [], 0.1, 0.1, 0.1)), ("empty row", ([[]], [[]], [[]], 0.1, 0.1, 0.1)),
        ("empty reward row", (m2, [[1, 2], []], l2, 0.1, 0.1, 0.1)),
        ("empty reward first row", (m2, [[], [1, 2]], l2, 0.1, 0.1, 0.1)),
        ("empty move last row", ([[0, 1], []], r2, l2, 0.1, 0.1, 0.1)),
        ("ragged moves", ([[0, 1], [2]], r2, l2, 0.1, 0.1, 0.1)),
        ("ragged rewards", (m2, [[1, 2], [3]], l2, 0.1, 0.1, 0.1)),
        ("ragged loose", (m2, r2, [[1, 0], [1]], 0.1, 0.1, 0.1)),
        ("moves none", (None, r2, l2, 0.1, 0.1, 0.1)), ("moves int rows", ([1, 2], r2, l2, 0.1, 0.1, 0.1)),
        ("rewards none", (m2, None, l2, 0.1, 0.1, 0.1)),
        ("float rewards", (m2, [[1.5, 2.25], [0.5, 7.75]], l2, 0.1, 0.1, 0.1)),
        ("float max reward 5.0", (m2, [[1, 5.0], [5, 2]], l2, 0.1, 0.1, 0.1)),
        ("int then float tie", (m2, [[5, 1], [5.0, 2]], l2, 0.1, 0.1, 0.1)),
        ("negative rewards", (m2, [[-1, -5], [-2, -3]], l2, 0.1, 0.1, 0.1)),
        ("nan reward", (m2, [[nan, 1], [2, 3]], l2, 0.1, 0.1, 0.1)),
        ("reward nan later", (m2, [[1, nan], [2, 3]], l2, 0.1, 0.1, 0.1)),
        ("str rewards", (m2, [["a", "b"], ["c", "d"]], l2, 0.1, 0.1, 0.1)),
        ("mixed rewards", (m2, [[1, "b"], [2, 3]], l2, 0.1, 0.1, 0.1)),
        ("move 4", ([[4, 0], [1, 2]], r2, l2, 0.1, 0.1, 0.1)),
        ("move 3.0", ([[3.0, 0], [1, 2]], r2, l2, 0.1, 0.1, 0.1)),
        ("move -1", ([[-1, 0], [1, 2]], r2, l2, 0.1, 0.1, 0.1)),
        ("move True", ([[True, 0], [1, 2]], r2, l2, 0.1, 0.1, 0.1)),
        ("tuple board", (tuple(map(tuple, m3)), tuple(map(tuple, r3)), tuple(map(tuple, l3)), 0.1, 0.1, 0.1)),
        ("loose 2", (m2, r2, [[2, 0], [0, 1]], 0.1, 0.1, 0.1)),
        ("big reward", (m2, [[10 ** 30, 0], [1, 2]], l2, 0.29, 0.57, 0.58)),
        ("missing args", (m2, r2, l2)), ("extra args", (m2, r2, l2, 0.1, 0.1, 0.1, 0.1)),
    ]
    for label, args in odd:
        sg_case(label, *args)
    sg_case("no inputs dir", m3, r3, l3, 0.29, 0.57, 0.58, keep_inputs=False)
    sg_case("no inputs dir 2", m2, r2, l2, 0.29, 0.57, 0.58, keep_inputs=False)
    for label, matrix in [("ok", [[1, 2], [3, 0]]), ("empty", []), ("empty row", [[1], []]),
                          ("empty first", [[], [1]]), ("tie", [[2, 2.0], [2.0, 2]]),
                          ("tie2", [[2.0, 1], [2, 1]]), ("none", None), ("flat", [1, 2]),
                          ("strings", ["ab", "cd"]), ("generator rows", [range(3), range(5)]),
                          ("nan first", [[float("nan"), 1], [2, 3]]),
                          ("nan row max", [[1, 2], [float("nan"), 0]])]:
        run("D get_max_from_matrix %s" % label, sb.get_max_from_matrix, matrix)

    # ------------------------------------------------------------------ E --
    def parser_defaults():
        ns = rg.init_parser().parse_args([])
        return sorted(vars(ns).items())
    run("E parser defaults", parser_defaults)
    run("E parser all", lambda: sorted(vars(rg.init_parser().parse_args(
        "-s 4 -w 5 -l 6 -p 0.29 -q 0.57 -r 0.58 -t 0.07 -m 9 -f".split())).items()))
    run("E help text", lambda: rg.init_parser().format_help())
    run("E public names", lambda: sorted(
        n for n in ("prob_to_str", "main", "check_input", "init_parser", "write_robots",
                    "gen_rnd_board") if callable(getattr(rg, n, None))))
    run("E sb public names", lambda: sorted(
        n for n in ("create_sg_from_board", "get_max_from_matrix", "write_robots", "prob_to_str")
        if callable(getattr(sb, n, None))))

    script = os.path.join(root, "roberta_generator.py")
    env = dict(os.environ, PYTHONDONTWRITEBYTECODE="1")
    script_cases = [
        [], ["-f"], ["-p", "0.29", "-q", "0.57", "-r", "0.58", "-t", "0.07"],
        ["-s", "12", "-w", "1", "-l", "1", "-m", "1", "-p", "0.01", "-q", "0.99"],
        ["-w", "1", "-l", "4", "-f", "-t", "0.999"], ["-p", "1"], ["-t", "nan"], ["-w", "zero"],
        ["-p", "0.14", "-q", "0.28", "-r", "0.55", "-t", "0.56", "--force_down", "-s", "3"],
    ]
    for argv in script_cases:
        _clear(work)
        proc = subprocess.run([sys.executable, script] + argv, cwd=work, env=env,
                              capture_output=True, text=True, timeout=60)
        err = proc.stderr.replace(root, "<root>")
        if "Traceback" in err:
            # line numbers and source lines legitimately differ between the trees;
            # the final "Type: message" line is the observable part
            err = "Traceback ... " + err.strip().splitlines()[-1]
        records.append({"label": "E script %r" % argv, "exit": proc.returncode,
                        "stdout": proc.stdout, "stderr": err, "files": _listing(work)})

    with open(out_path, "w") as handle:
        json.dump(records, handle)
    import shutil
    os.chdir("/")
    shutil.rmtree(work, ignore_errors=True)


# --------------------------------------------------------------------------- #
# parent
# --------------------------------------------------------------------------- #

def _spawn(root, out_path):
    env = dict(os.environ, PYTHONDONTWRITEBYTECODE="1", PYTHONHASHSEED="0")
    return subprocess.Popen([sys.executable, os.path.abspath(__file__), "--worker",
                             os.path.abspath(root), out_path], env=env)


def main():
    if len(sys.argv) == 4 and sys.argv[1] == "--worker":
        _worker(sys.argv[2], sys.argv[3])
        return 0
    if len(sys.argv) != 3:
        print(__doc__)
        return 2
    patched, clean = sys.argv[1], sys.argv[2]
    tmp = tempfile.mkdtemp(prefix="c17_equiv_")
    out_a, out_b = os.path.join(tmp, "patched.json"), os.path.join(tmp, "clean.json")
    procs = [_spawn(patched, out_a), _spawn(clean, out_b)]
    codes = [p.wait(timeout=600) for p in procs]
    if any(codes):
        print("FAIL: worker exit codes %r" % codes)
        return 1
    with open(out_a) as handle:
        rec_a = json.load(handle)
    with open(out_b) as handle:
        rec_b = json.load(handle)
    import shutil
    shutil.rmtree(tmp, ignore_errors=True)

    diffs = []
    if len(rec_a) != len(rec_b):
        diffs.append("number of records differs: %d vs %d" % (len(rec_a), len(rec_b)))
    for a, b in zip(rec_a, rec_b):
        if a != b:
            diffs.append("case %s\n   patched: %s\n   clean:   %s" % (
                a.get("label"), json.dumps(a)[:900], json.dumps(b)[:900]))
    # sanity: the clean tree really produces files and the expected names
    n_files = sum(1 for r in rec_b if r.get("files") and "exception" not in r and "exit" not in r)
    n_exc = sum(1 for r in rec_b if "exception" in r)
    sweep = [r for r in rec_b if r["label"] == "A sweep"]
    print("%d cases compared (%d wrote files, %d raised); clean sweep k/100 -> k: %s" % (
        len(rec_b), n_files, n_exc,
        bool(sweep) and sweep[0].get("result") == repr([str(k) for k in range(1, 100)])))
    if diffs:
        print("FAIL: %d differences" % len(diffs))
        for line in diffs[:15]:
            print(" -", line)
        return 1
    print("PASS")
    return 0


if __name__ == "__main__":
    sys.exit(main())
