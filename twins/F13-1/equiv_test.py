#!/usr/bin/env python
"""
Equivalence test for property C13 (results do not depend on how the game is written down).

usage: python equiv_test.py <path-to-patched-root> <path-to-clean-root>

The pool of inputs is built once (random well-formed stopping games of varied shape, boundary
games, the games of the repository's inputs/ folder, freshly generated boards) and every game
is also included in several *re-presentations* (states renumbered keeping state 0, transitions
reordered inside the states, actions renamed injectively).  Each tree is loaded in its own
subprocess (same module names) and solves every presentation in both pruning modes.

 1. The complete observable outcome of StochasticGame.solve() - the eight returned values with
    exact float reprs, or the exception type and text, and the (unchanged) description - must be
    IDENTICAL between the two trees for every presentation.
 2. The C13 relation itself (base presentation against each re-presentation: same solvability,
    values equal up to the renumbering within tolerance, strategies equal up to the renaming)
    is evaluated in both trees and the verdicts must coincide.
 3. Unit probes of the functions the patch touches (reverse_dfs, Solver.prune_states,
    init_states, PlayerTwo.value_iteration_rewards, the strategy getters) on random data.

Prints PASS and exits 0 when nothing differs, FAIL (exit 1) otherwise.
"""
import os
import pickle
import random
import subprocess
import sys
import tempfile

P1, P2, PR = "Player 1", "Player 2", "Probabilistic"
CALL_CAP_PER_STATE = 1200      # sweeps allowed before a game is declared divergent (skipped)


# --------------------------------------------------------------------------------------------
# input pool
# --------------------------------------------------------------------------------------------
def random_probabilities(rng, k, style):
    if k == 1:
        return [1]
    if style == "uniform_dyadic" and k in (2, 4):
        return [1.0 / k] * k                       # exact ties
    if style == "extreme":
        small = rng.choice([1e-9, 1e-4, 0.001])
        rest = [(1 - small) / (k - 1)] * (k - 1)
        return [small] + rest
    weights = [rng.randint(1, 9) for _ in range(k)]
    total = sum(weights)
    probs = [w / total for w in weights]
    probs[-1] = 1 - sum(probs[:-1])
    if min(probs) <= 0:
        return [1.0 / k] * k
    return probs


def random_game(rng, n_inner, tie_heavy=False, style="mixed"):
    """
        A stopping game: terminals are absorbing zero-reward probabilistic states (wins are
        final, losses are dead), every inner probabilistic state leaks at least 5% directly
        into a terminal, player states only move strictly forward or into probabilistic
        states.  Cycles (through probabilistic states, self loops included), several finals,
        dead states, duplicated successors and ties are all produced.
    """
    n_win = rng.choice([1, 1, 2, 3])
    n_lose = rng.choice([0, 1, 1, 2])
    n = n_inner + n_win + n_lose
    wins = list(range(n_inner, n_inner + n_win))
    loses = list(range(n_inner + n_win, n))
    terminals = wins + loses
    players = []
    for i in range(n_inner):
        players.append(rng.choice([P1, P2, PR, PR]) if i else rng.choice([P1, P2, PR]))
    prob_states = [i for i in range(n_inner) if players[i] == PR]
    players += [PR] * (n_win + n_lose)
    reward_pool = [0, 1, 1, 2, 3] if tie_heavy else [0, 1, 2, 3, 4, 5, 7]
    rewards = [rng.choice(reward_pool) for _ in range(n_inner)] + [0] * (n_win + n_lose)
    action_pool = ["a", "b", "c", "d", "e", "Left", "Right", "Down"]
    transitions = []
    for i in range(n_inner):
        if players[i] == PR:
            k = rng.randint(2, 4)
            targets = [rng.choice(terminals)]
            for _ in range(k - 1):
                targets.append(rng.randrange(n))        # anywhere: back edges, self loops
            rng.shuffle(targets)
            sty = style if style != "mixed" else rng.choice(
                ["uniform_dyadic", "weights", "weights", "extreme"])
            probs = random_probabilities(rng, k, sty)
            # the leak into a terminal must keep at least 5%
            leak_positions = [p for p, t in enumerate(targets) if t in terminals]
            if max(probs[p] for p in leak_positions) < 0.05:
                probs = [1.0 / k] * k
            transitions.append([(probs[p], targets[p]) for p in range(k)])
        else:
            allowed = [t for t in range(i + 1, n)] + [p for p in prob_states if p <= i]
            k = rng.randint(1, min(4, max(1, len(allowed))))
            if tie_heavy and rng.random() < 0.5:
                t = rng.choice(allowed)
                targets = [t] * k                       # identical successors: exact ties
            else:
                targets = [rng.choice(allowed) for _ in range(k)]
            actions = rng.sample(action_pool, k)
            transitions.append([(actions[p], targets[p]) for p in range(k)])
    for t in terminals:
        transitions.append([(1, t)])
    return {"rewards": rewards, "players": players, "transition_list": transitions,
            "final_states": wins}


def boundary_games():
    games = {}
    games["single_final_initial"] = {"rewards": [0], "players": [PR],
                                     "transition_list": [[(1, 0)]], "final_states": [0]}
    games["two_states"] = {"rewards": [3, 0], "players": [P1, PR],
                           "transition_list": [[("go", 1)], [(1, 1)]], "final_states": [1]}
    games["initial_dead"] = {"rewards": [1, 0, 0], "players": [P2, PR, PR],
                             "transition_list": [[("x", 1), ("y", 2)], [(1, 1)], [(1, 2)]],
                             "final_states": [2]}
    games["initial_cannot_reach"] = {"rewards": [0, 0], "players": [PR, PR],
                                     "transition_list": [[(1, 0)], [(1, 1)]],
                                     "final_states": [1]}
    games["duplicate_finals"] = {"rewards": [2, 0, 0], "players": [PR, PR, PR],
                                 "transition_list": [[(0.5, 1), (0.5, 2)], [(1, 1)], [(1, 2)]],
                                 "final_states": [2, 2, 1, 2]}
    games["all_final"] = {"rewards": [0, 0], "players": [P1, PR],
                          "transition_list": [[("a", 1), ("b", 0)], [(1, 1)]],
                          "final_states": [0, 1]}
    games["no_finals"] = {"rewards": [0, 0], "players": [P1, PR],
                          "transition_list": [[("a", 1)], [(1, 1)]], "final_states": []}
    games["final_out_of_range"] = {"rewards": [0, 0], "players": [P1, PR],
                                   "transition_list": [[("a", 1)], [(1, 1)]],
                                   "final_states": [2]}
    games["missing_transitions"] = {"rewards": [0, 0], "players": [P1, PR],
                                    "transition_list": [[("a", 1)], []], "final_states": [1]}
    games["float_bool_finals"] = {"rewards": [1, 0, 0], "players": [P1, PR, PR],
                                  "transition_list": [[("a", 1), ("b", 2)], [(1, 1)], [(1, 2)]],
                                  "final_states": [1.0, True]}
    games["tuple_finals"] = {"rewards": [1, 0, 0], "players": [P1, PR, PR],
                             "transition_list": [[("a", 1), ("b", 2)], [(1, 1)], [(1, 2)]],
                             "final_states": (2,)}
    # dead successors adjacent / separated inside a probabilistic and a player 1 state
    for name, order in (("adjacent", [3, 4, 2, 5]), ("separated", [3, 2, 4, 5]),
                        ("first_last", [4, 2, 5, 3])):
        prob = {3: 0.2, 4: 0.3, 2: 0.25, 5: 0.25}
        games["dead_" + name] = {
            "rewards": [1, 2, 3, 0, 0, 0],
            "players": [PR, P1, P2, PR, PR, PR],
            "transition_list": [
                [],                                   # filled in below
                [("p", 3), ("q", 4), ("r", 5), ("s", 2)],
                [("u", 5), ("v", 0), ("w", 1)],
                [(1, 3)], [(1, 4)], [(1, 5)]],
            "final_states": [5]}
        games["dead_" + name]["transition_list"][0] = [(prob[t], t) for t in order]
    # player 2 unreachable after pruning, player 1 emptied by pruning
    games["pruned_chain"] = {
        "rewards": [1, 4, 2, 5, 0, 0],
        "players": [P1, P2, PR, P1, PR, PR],
        "transition_list": [[("a", 1), ("b", 4)], [("c", 2), ("d", 3)], [(0.5, 5), (0.5, 1)],
                            [("e", 5)], [(1, 4)], [(1, 5)]],
        "final_states": [4]}
    # exact tie between the two actions of both players
    games["ties"] = {
        "rewards": [1, 1, 1, 1, 0, 0],
        "players": [P1, P2, PR, PR, PR, PR],
        "transition_list": [[("x", 2), ("y", 3), ("z", 1)], [("m", 2), ("n", 3)],
                            [(0.5, 4), (0.5, 5)], [(0.5, 5), (0.5, 4)], [(1, 4)], [(1, 5)]],
        "final_states": [4]}
    return games


def permute_states(rng, game):
    n = len(game["players"])
    rest = list(range(1, n))
    rng.shuffle(rest)
    new_of_old = [0] + rest                          # new_of_old[old] = new
    old_of_new = [0] * n
    for old, new in enumerate(new_of_old):
        old_of_new[new] = old
    out = {
        "rewards": [game["rewards"][old_of_new[new]] for new in range(n)],
        "players": [game["players"][old_of_new[new]] for new in range(n)],
        "transition_list": [
            [(label, new_of_old[t]) for label, t in game["transition_list"][old_of_new[new]]]
            for new in range(n)],
        "final_states": [new_of_old[f] for f in game["final_states"]],
    }
    return out, new_of_old


def reorder_transitions(rng, game, how):
    out = dict(game)
    tl = []
    for tr in game["transition_list"]:
        tr = list(tr)
        if how == "reverse":
            tr.reverse()
        elif how == "rotate":
            tr = tr[1:] + tr[:1]
        else:
            rng.shuffle(tr)
        tl.append(tr)
    out["transition_list"] = tl
    fs = list(game["final_states"])
    rng.shuffle(fs)
    out["final_states"] = fs
    return out


def rename_actions(rng, game):
    names = sorted({label for player, tr in zip(game["players"], game["transition_list"])
                    if player != PR for label, _ in tr})
    fresh = ["act%03d" % i for i in range(len(names))]
    rng.shuffle(fresh)                               # also changes the alphabetical order
    mapping = dict(zip(names, fresh))
    out = dict(game)
    out["transition_list"] = [
        [(mapping[label], t) for label, t in tr] if player != PR else list(tr)
        for player, tr in zip(game["players"], game["transition_list"])]
    return out, mapping


def well_formed_for_transform(game):
    n = len(game["players"])
    if len(game["transition_list"]) != n or len(game["rewards"]) != n:
        return False
    if not isinstance(game["final_states"], list):
        return False
    return all(isinstance(f, int) and not isinstance(f, bool) and 0 <= f < n
               for f in game["final_states"])


def build_pool(clean_root, seed=20260113):
    """ returns list of entries: dict(name, game, base, new_of_old, action_map) """
    rng = random.Random(seed)
    bases = []
    for name, game in boundary_games().items():
        bases.append(("boundary/" + name, game))
    shapes = [(2, 60), (3, 60), (5, 80), (8, 90), (12, 70), (20, 30), (40, 8)]
    for n_inner, count in shapes:
        for c in range(count):
            tie_heavy = (c % 3 == 0)
            style = ["mixed", "uniform_dyadic", "weights", "extreme"][c % 4]
            bases.append(("random/n%d_%d" % (n_inner, c),
                          random_game(rng, n_inner, tie_heavy, style)))
    # games shipped with the repository (skipping the very large boards) + fresh boards
    out = subprocess.run([sys.executable, os.path.abspath(__file__), "--boards", clean_root],
                         capture_output=True, check=True)
    for name, game in pickle.loads(out.stdout):
        bases.append((name, game))

    pool = []
    for name, game in bases:
        pool.append({"name": name, "game": game, "base": None})
        if not well_formed_for_transform(game):
            continue
        n = len(game["players"])
        n_variants = 3 if n <= 60 else 1
        for v in range(n_variants):
            g, new_of_old = permute_states(rng, game)
            g = reorder_transitions(rng, g, ["shuffle", "reverse", "rotate"][v % 3])
            g, action_map = rename_actions(rng, g)
            pool.append({"name": "%s#perm%d" % (name, v), "game": g, "base": name,
                         "new_of_old": new_of_old, "action_map": action_map})
        g = reorder_transitions(rng, game, "reverse")
        pool.append({"name": name + "#reversed", "game": g, "base": name,
                     "new_of_old": list(range(n)), "action_map": None})
    return pool


def boards_mode(root):
    """ runs inside the clean tree: shipped inputs and freshly generated boards """
    sys.path.insert(0, root)
    os.chdir(root)
    import roberta_generator as rg
    games = []
    for file_name in sorted(os.listdir("inputs")):
        if not file_name.endswith(".py"):
            continue
        with open(os.path.join("inputs", file_name)) as handle:
            try:
                content = eval(handle.read())
            except Exception:
                continue
        if not isinstance(content, dict):
            continue
        for key, game in content.items():
            if isinstance(game, dict) and "players" in game and len(game["players"]) <= 400:
                game = {k: game[k] for k in
                        ("rewards", "players", "transition_list", "final_states") if k in game}
                games.append(("inputs/%s/%s" % (file_name, key), game))
    tmp = tempfile.mkdtemp()
    params = [(1, 1, 1, 0.3, False), (2, 1, 3, 0.5, False), (3, 3, 1, 0.5, True),
              (4, 2, 2, 0.3, True), (5, 3, 3, 0.3, False), (6, 3, 3, 0.6, True),
              (7, 4, 3, 0.3, True), (8, 5, 5, 0.3, False), (9, 6, 6, 0.3, True),
              (10, 1, 4, 0.9, True), (11, 4, 1, 0.1, False)]
    for seed, length, width, loose, force_down in params:
        moves, rewards, loose_tiles = rg.gen_rnd_board(seed, length, width, loose, 6, force_down)
        path = os.path.join(tmp, "b%d.py" % seed)
        rg.write_robots(path, length, width, moves, rewards, loose_tiles, 0.1, 0.1, 0.05)
        with open(path) as handle:
            content = eval(handle.read())
        for key, game in content.items():
            games.append(("board/s%d_l%d_w%d_%s/%s" % (seed, length, width, force_down, key),
                          game))
    sys.stdout.buffer.write(pickle.dumps(games))


# --------------------------------------------------------------------------------------------
# worker: runs inside one tree
# --------------------------------------------------------------------------------------------
class Divergent(Exception):
    pass


def worker_mode(root, pool_path, out_path):
    sys.path.insert(0, root)
    os.chdir(root)
    import copy
    import tad
    import reverse_dfs as rdfs
    assert os.path.dirname(os.path.abspath(tad.__file__)) == os.path.abspath(root)

    budget = {"left": 0}

    def capped(method):
        def wrapper(self, *args, **kwargs):
            budget["left"] -= 1
            if budget["left"] < 0:
                raise Divergent()
            return method(self, *args, **kwargs)
        return wrapper
    # only a safety net against non-stopping inputs; counts one call per state per sweep
    tad.ProbabilisticNode.value_iteration_reach = capped(tad.ProbabilisticNode.value_iteration_reach)
    tad.ProbabilisticNode.value_iteration_rewards = capped(tad.ProbabilisticNode.value_iteration_rewards)

    with open(pool_path, "rb") as handle:
        pool = pickle.load(handle)

    results = {}
    for entry in pool:
        for prune in (True, False):
            description = copy.deepcopy(entry["game"])
            pristine = copy.deepcopy(description)
            n = len(description.get("players", [])) or 1
            budget["left"] = CALL_CAP_PER_STATE * n
            try:
                sgame = tad.StochasticGame(prune_states=prune, **description)
                n_transitions = sgame.count_transitions()
                solved = sgame.solve()
                outcome = ("ok", solved, n_transitions)
            except Divergent:
                outcome = ("divergent",)
            except Exception as error:            # noqa: the text is part of the outcome
                outcome = ("error", type(error).__name__, str(error))
            untouched = (description == pristine and repr(description) == repr(pristine))
            results[(entry["name"], prune)] = {"outcome": outcome, "repr": repr(outcome),
                                               "untouched": untouched}

    probes = unit_probes(tad, rdfs)
    with open(out_path, "wb") as handle:
        pickle.dump({"results": results, "probes": probes}, handle)


def unit_probes(tad, rdfs):
    """ direct calls of the touched functions on random data; returns reprs """
    rng = random.Random(77)
    out = []
    # reverse_dfs on arbitrary graphs, varied final state containers
    for case in range(400):
        n = rng.randint(1, 12)
        tl = [[("x", rng.randrange(n)) for _ in range(rng.randint(0, 3))] for _ in range(n)]
        finals = [rng.randrange(n) for _ in range(rng.randint(0, 4))]
        container = [list, tuple, set][case % 3](finals)
        try:
            out.append(("rdfs", case, repr(rdfs.reverse_dfs(tl, container))))
        except Exception as error:
            out.append(("rdfs", case, type(error).__name__, str(error)))
        out.append(("rtl", case, repr(sorted(rdfs.reverse_transition_list(tl).items()))))

    def make_nodes(n):
        nodes = []
        for i in range(n):
            player = rng.choice([P1, P2, PR])
            k = rng.randint(1, 4)
            if player == PR:
                ws = [rng.randint(1, 5) for _ in range(k)]
                nxt = [(w / sum(ws), rng.randrange(n)) for w in ws]
                cls = tad.ProbabilisticNode
            else:
                nxt = [(rng.choice("abcdef"), rng.randrange(n)) for _ in range(k)]
                cls = tad.PlayerOne if player == P1 else tad.PlayerTwo
            node = cls(player=player, idx=i, reward=rng.randint(0, 4), next_states=nxt,
                       num_states=n, is_final_node=(rng.random() < 0.2))
            node.reach_probability = rng.choice([0, 0, 0.0, 0.25, 0.5, 0.5, 0.4999996, 1, 1.0,
                                                 round(rng.random(), 3)])
            node.expected_rewards = rng.choice([0, 1, 2.5, 2.5, 2.4999999, 7])
            node.expected_rewards_min_reach = rng.choice([0, 1, 2.5, 3, 3.0, 9])
            node.expected_reach_min_rewards = node.reach_probability
            nodes.append(node)
        return nodes

    def snapshot(nodes):
        return repr([(s.idx, s.next_states, s.reach_probability, s.expected_rewards,
                      s.expected_rewards_min_reach, s.expected_reach_min_rewards)
                     for s in nodes])

    for case in range(400):
        nodes = make_nodes(rng.randint(1, 10))
        solver = tad.Solver(state_list=nodes)
        step = []
        for s in nodes:
            row = [repr(s.value_iteration_reach(nodes)), repr(s.value_iteration_rewards(nodes))]
            if s.player == P1:
                row.append(repr(s.get_best_strategies_reachability(nodes, 6)))
                row.append(repr(s.get_best_strategies_total_rewards(nodes, 6)))
            elif s.player == P2:
                row.append(repr(s.get_worst_strategies_reachability(nodes, 6)))
                row.append(repr(s.get_worst_strategies_total_rewards(nodes, 6)))
                strategies = s.get_worst_strategies_reachability(nodes, 6)
                row.append(repr(s._expected_rewards_min_reach(nodes, strategies)))
                row.append(repr(s._expected_rewards_min_reach(nodes, [])))
            step.append(row)
        out.append(("step", case, repr(step)))
        out.append(("reach_strats", case, repr(solver._get_reachability_strategies())))
        out.append(("rew_strats", case, repr(solver._get_total_rewards_strategies())))
        solver.prune_reachability(solver._get_reachability_strategies())
        out.append(("prune_reach", case, snapshot(nodes)))
        if case % 2:
            solver.prune_paths()
            out.append(("prune_paths", case, snapshot(nodes)))
        solver.prune_states()
        out.append(("prune_states", case, snapshot(nodes)))
        step = [repr(s.value_iteration_rewards(nodes)) for s in nodes]
        out.append(("step_after", case, repr(step)))
        # states emptied by the pruning: value of a state without successors, empty strategies
        step = [repr(s.value_iteration_reach(nodes)) for s in nodes]
        out.append(("reach_after", case, repr(step)))
        out.append(("reach_strats_after", case, repr(solver._get_reachability_strategies())))
        out.append(("rew_strats_after", case, repr(solver._get_total_rewards_strategies())))
        for floor in (0, 1, 3, 9):
            rows = []
            for s in nodes:
                if s.player == P1:
                    rows.append((s.get_best_strategies_reachability(nodes, floor),
                                 s.get_best_strategies_total_rewards(nodes, floor)))
                elif s.player == P2:
                    rows.append((s.get_worst_strategies_reachability(nodes, floor),
                                 s.get_worst_strategies_total_rewards(nodes, floor)))
            out.append(("getters_floor", case, floor, repr(rows)))

    # the solver must keep asking the node itself (overridden getters, position = node.idx)
    class LoudPlayerOne(tad.PlayerOne):
        def get_best_strategies_reachability(self, state_list, floor):
            return ["loud"] + super().get_best_strategies_reachability(state_list, floor)

        def get_best_strategies_total_rewards(self, state_list, floor):
            return ["LOUD"] + super().get_best_strategies_total_rewards(state_list, floor)
    nodes = [
        tad.ProbabilisticNode(player=PR, idx=2, reward=0, next_states=[(1, 2)], num_states=3,
                              is_final_node=True),
        LoudPlayerOne(player=P1, idx=0, reward=1, next_states=[("a", 0), ("b", 1)], num_states=3),
        tad.PlayerTwo(player=P2, idx=1, reward=2, next_states=[("c", 0), ("d", 1)], num_states=3),
    ]
    solver = tad.Solver(state_list=nodes)
    out.append(("override", repr(solver._get_reachability_strategies()),
                repr(solver._get_total_rewards_strategies())))

    # init_states with odd final state containers
    for finals in ([2], [2, 2, 1], (1,), [1.0], [True], {1, 2}, []):
        game = tad.StochasticGame(rewards=[1, 0, 0], players=[P1, PR, PR],
                                  transition_list=[[("a", 1), ("b", 2)], [(1, 1)], [(1, 2)]],
                                  final_states=finals)
        out.append(("init", repr(finals),
                    repr([(s.idx, s.is_final_node, s.reach_probability)
                          for s in game.init_states()])))
    return out


# --------------------------------------------------------------------------------------------
# the C13 relation between a base presentation and a re-presentation (inside one tree)
# --------------------------------------------------------------------------------------------
def relation_holds(base, other, entry, tol=2e-4):
    if base["outcome"][0] == "divergent" or other["outcome"][0] == "divergent":
        return None
    if base["outcome"][0] != other["outcome"][0]:
        return False
    if base["outcome"][0] == "error":
        return base["outcome"][1:] == other["outcome"][1:]
    new_of_old = entry["new_of_old"]
    action_map = entry["action_map"]
    b, o = base["outcome"][1], other["outcome"][1]
    for position in (2, 3, 6, 7):                       # rewards, probabilities, the two extras
        for old, new in enumerate(new_of_old):
            if abs(b[position][old] - o[position][new]) > tol * max(1.0, abs(b[position][old])):
                return False
    for position in (0, 1):                             # strategies
        for old, new in enumerate(new_of_old):
            sb, so = b[position][old], o[position][new]
            if (sb is None) != (so is None):
                return False
            if sb is None:
                continue
            renamed = [action_map[a] if action_map else a for a in sb]
            if sorted(renamed) != sorted(so):
                return False
    return True


def main():
    if len(sys.argv) >= 2 and sys.argv[1] == "--boards":
        return boards_mode(sys.argv[2])
    if len(sys.argv) >= 2 and sys.argv[1] == "--worker":
        return worker_mode(sys.argv[2], sys.argv[3], sys.argv[4])
    if len(sys.argv) != 3:
        print(__doc__)
        sys.exit(2)
    patched_root, clean_root = os.path.abspath(sys.argv[1]), os.path.abspath(sys.argv[2])
    work = tempfile.mkdtemp(prefix="c13_equiv_")
    pool = build_pool(clean_root)
    pool_path = os.path.join(work, "pool.pickle")
    with open(pool_path, "wb") as handle:
        pickle.dump(pool, handle)

    outputs = {}
    processes = {}
    for label, root in (("patched", patched_root), ("clean", clean_root)):
        out_path = os.path.join(work, label + ".pickle")
        processes[label] = (subprocess.Popen(
            [sys.executable, os.path.abspath(__file__), "--worker", root, pool_path, out_path],
            env=dict(os.environ, PYTHONDONTWRITEBYTECODE="1")), out_path)
    for label, (process, out_path) in processes.items():
        if process.wait() != 0:
            print("FAIL: worker for the %s tree crashed" % label)
            sys.exit(1)
        with open(out_path, "rb") as handle:
            outputs[label] = pickle.load(handle)

    failures = []
    patched, clean = outputs["patched"]["results"], outputs["clean"]["results"]
    counts = {"ok": 0, "error": 0, "divergent": 0}
    for key in clean:
        counts[clean[key]["outcome"][0]] += 1
        if patched[key]["repr"] != clean[key]["repr"]:
            failures.append("solve() outcome differs on %s prune=%s\n   clean  : %s\n   patched: %s"
                            % (key[0], key[1], clean[key]["repr"][:600], patched[key]["repr"][:600]))
        if not patched[key]["untouched"]:
            failures.append("patched tree altered the description of %s prune=%s" % key)

    relation_counts = {True: 0, False: 0, None: 0}
    for entry in pool:
        if entry["base"] is None:
            continue
        for prune in (True, False):
            verdicts = []
            for results in (patched, clean):
                verdicts.append(relation_holds(results[(entry["base"], prune)],
                                               results[(entry["name"], prune)], entry))
            relation_counts[verdicts[1]] += 1
            if verdicts[0] != verdicts[1]:
                failures.append("C13 relation verdict differs on %s prune=%s: patched %s clean %s"
                                % (entry["name"], prune, verdicts[0], verdicts[1]))

    pp, cp = outputs["patched"]["probes"], outputs["clean"]["probes"]
    if len(pp) != len(cp):
        failures.append("different number of unit probes")
    for a, b in zip(pp, cp):
        if a != b:
            failures.append("unit probe differs: %s\n   clean  : %s\n   patched: %s"
                            % (b[:2], repr(b[2:])[:500], repr(a[2:])[:500]))

    print("presentations solved: %d (x2 pruning modes); outcomes in the clean tree: %s"
          % (len(pool), counts))
    print("C13 relation on (base, re-presentation) pairs in the clean tree: holds %d, "
          "violated %d, skipped(divergent) %d - verdicts compared with the patched tree"
          % (relation_counts[True], relation_counts[False], relation_counts[None]))
    print("unit probes compared: %d" % len(cp))
    if failures:
        for failure in failures[:25]:
            print(failure)
        print("FAIL (%d differences)" % len(failures))
        sys.exit(1)
    print("PASS")
    sys.exit(0)


if __name__ == "__main__":
    main()
