#!/usr/bin/env python
"""Differential test for property C07 (backward search / reversed-transition table).

usage: python equiv.py <clean_repo_dir> <patched_repo_dir>

Each tree is loaded in its own subprocess (module names collide); both workers
run the very same deterministic battery of inputs and print one line per case
(`label | repr-or-exception`).  The driver compares the two transcripts line by
line, prints SAME / exit 0 when they are identical, otherwise the first
difference / exit 1.
"""
import hashlib
import os
import random
import subprocess
import sys
import tempfile

ITERATION_CAP = 600           # deterministic cut-off for value iteration


# --------------------------------------------------------------------------- #
#                                   worker                                    #
# --------------------------------------------------------------------------- #
class _Cap(BaseException):
    pass


def _show(value):
    """repr plus the concrete types involved (dict vs defaultdict, int vs bool ...)."""
    if isinstance(value, dict):
        inner = ", ".join(
            "%r<%s>: %r<%s>" % (k, type(k).__name__, v, type(v).__name__)
            for k, v in value.items())
        return "%s{%s}" % (type(value).__name__, inner)
    if isinstance(value, (list, tuple, set, frozenset)):
        inner = ", ".join("%r<%s>" % (v, type(v).__name__) for v in value)
        return "%s(%s)" % (type(value).__name__, inner)
    return "%r<%s>" % (value, type(value).__name__)


def _digest(value):
    text = _show(value)
    if len(text) > 400:
        return "len=%d sha=%s head=%s" % (
            len(text), hashlib.sha256(text.encode()).hexdigest(), text[:120])
    return text


def worker(tree):
    sys.path.insert(0, tree)
    sys.setrecursionlimit(1000)          # the interpreter default, made explicit
    import logging
    import reverse_dfs as R
    import roberta_generator as G
    import tad as T

    out = []

    def case(label, fn, show=_digest):
        try:
            res = show(fn())
        except _Cap:
            res = "CUT-OFF"
        except Exception as exc:           # RecursionError included
            res = "EXC %s: %s" % (type(exc).__name__, exc)
        out.append("%s | %s" % (label, res))

    rng = random.Random(20240607)

    # ------------------------------------------------------------------ #
    # 1. random graphs, every kind of final-state container              #
    # ------------------------------------------------------------------ #
    def rnd_label():
        return rng.choice(["a", "b", "alfa", 1, 0.5, 0.25, 1 / 3, "x"])

    def rnd_graph(n, max_out=4, dup=0.3):
        tl = []
        for _ in range(n):
            edges = []
            for _ in range(rng.randint(0, max_out)):
                if edges and rng.random() < dup:
                    edges.append((rnd_label(), edges[-1][1]))      # parallel edge
                else:
                    edges.append((rnd_label(), rng.randrange(n)))
            tl.append(edges)
        return tl

    def rnd_finals(n):
        k = rng.randint(1, 4)
        finals = [rng.randrange(n) for _ in range(k)]
        if rng.random() < 0.4:
            finals += [rng.choice(finals)]                          # repetition
        rng.shuffle(finals)
        return finals

    containers = [
        ("list", list), ("tuple", tuple), ("set", set), ("frozenset", frozenset),
        ("dictkeys", lambda f: dict.fromkeys(f, "v")), ("iter", iter),
        ("gen", lambda f: (x for x in f)), ("floats", lambda f: [float(x) for x in f]),
        ("bools", lambda f: [bool(x) if x in (0, 1) else x for x in f]),
    ]

    for i in range(1400):
        n = rng.choice([1, 2, 3, 4, 5, 6, 7, 8, 10, 12, 15, 25, 60])
        tl = rnd_graph(n, max_out=rng.choice([1, 2, 4]), dup=rng.choice([0.0, 0.3, 0.7]))
        finals = rnd_finals(n)
        cname, conv = containers[i % len(containers)]
        case("g%04d core" % i, lambda: R.reverse_transition_list_core(tl))
        case("g%04d table" % i, lambda: R.reverse_transition_list(tl))
        case("g%04d dfs[%s]" % (i, cname), lambda: R.reverse_dfs(tl, conv(finals)))
        if i % 3 == 0:
            # the search primitive with a pre-filled visited set; the set's
            # iteration order afterwards is part of the comparison
            def from_call():
                table = R.reverse_transition_list(tl)
                visited = set(rng_states)
                ret = R.reverse_dfs_from(finals[0], table, visited)
                return (ret, list(visited), sorted(visited))
            rng_states = [rng.randrange(n) for _ in range(rng.randint(0, 3))]
            case("g%04d from" % i, from_call)

    # transition lists given as other sequence kinds / edges as lists
    for i in range(60):
        n = rng.randint(1, 9)
        tl = rnd_graph(n)
        finals = rnd_finals(n)
        as_tuple = tuple(tuple(list(e) for e in row) for row in tl)
        case("seq%02d table" % i, lambda: R.reverse_transition_list(as_tuple))
        case("seq%02d dfs" % i, lambda: R.reverse_dfs(as_tuple, finals))
        case("seq%02d gen-table" % i, lambda: R.reverse_transition_list(row for row in tl))
        case("seq%02d gen-core" % i, lambda: R.reverse_transition_list_core(iter(tl)))

    # ------------------------------------------------------------------ #
    # 2. boundary shapes and big / deep graphs                           #
    # ------------------------------------------------------------------ #
    case("empty table", lambda: R.reverse_transition_list([]))
    case("empty dfs", lambda: R.reverse_dfs([], []))
    case("empty dfs final0", lambda: R.reverse_dfs([], [0]))
    case("no finals", lambda: R.reverse_dfs([[("a", 0)]], []))
    case("selfloop", lambda: R.reverse_dfs([[("a", 0)]], [0]))
    case("selfloop x3", lambda: R.reverse_dfs([[("a", 0), ("b", 0), ("c", 0)]], [0, 0, 0]))
    case("two preds", lambda: R.reverse_dfs(
        [[("a", 1), ("b", 2)], [(1, 3)], [(1, 3)], [(1, 3)]], [3]))
    case("diamond dup", lambda: R.reverse_dfs(
        [[("a", 1), ("b", 2), ("c", 1)], [(1, 3)], [(0.5, 3), (0.5, 3)], [(1, 3)], [(1, 0)]], [3]))
    case("all final", lambda: R.reverse_dfs([[("a", 1)], [("a", 0)]], [1, 0]))
    case("unreachable part", lambda: R.reverse_dfs(
        [[("a", 1)], [("a", 1)], [("a", 3)], [("a", 2)]], [1]))

    for size in (999, 1000, 1001, 3000, 6000):
        chain = [[(1, k + 1)] for k in range(size - 1)] + [[(1, size - 1)]]
        case("chain%d fwd" % size, lambda: R.reverse_dfs(chain, [size - 1]))
        case("chain%d table" % size, lambda: R.reverse_transition_list(chain))
        back = [[(1, 0)]] + [[(1, k - 1)] for k in range(1, size)]
        case("chain%d back" % size, lambda: R.reverse_dfs(back, [0]))
        ring = [[("a", (k + 1) % size), ("b", (k + 1) % size)] for k in range(size)]
        case("ring%d" % size, lambda: R.reverse_dfs(ring, [size // 2, 0, size // 2]))
        fan = [[(1, size - 1)] for _ in range(size)]
        case("fan%d" % size, lambda: R.reverse_dfs(fan, [size - 1]))
        ladder = [[("a", min(k + 1, size - 1)), ("b", min(k + 2, size - 1))] for k in range(size)]
        case("ladder%d" % size, lambda: R.reverse_dfs(ladder, [size - 1, size - 2]))

    # the generator's boards, tall ones included (files are written into cwd)
    for seed, length, width, force_down in [
            (1, 2, 2, False), (47, 5, 5, True), (3, 200, 3, False), (4, 200, 3, True),
            (5, 3, 20, False), (6, 350, 1, False), (7, 120, 4, True)]:
        def boards():
            moves, rewards, loose = G.gen_rnd_board(seed, length, width, 0.3, 6, force_down)
            name = "board_%d_%d_%d.py" % (seed, length, width)
            G.write_robots(name, length, width, moves, rewards, loose, 0.1, 0.1, 0.1)
            with open(name) as fh:
                games = eval(fh.read())
            res = []
            for gname, game in games.items():
                tl, finals = game["transition_list"], game["final_states"]
                res.append((gname, len(tl), R.reverse_dfs(tl, finals),
                            R.reverse_dfs(tl, list(reversed(finals)) + list(finals)),
                            hashlib.sha256(
                                repr(R.reverse_transition_list(tl)).encode()).hexdigest()))
            return res
        case("board s%d l%d w%d" % (seed, length, width), boards)

    # ------------------------------------------------------------------ #
    # 3. helpers called directly                                         #
    # ------------------------------------------------------------------ #
    keys = [0, 1, 2, 3, 1.0, True, False, 2.0, -1, "a", "b", None, (1, 2), 7, 2.5]
    for i in range(250):
        pairs = []
        for _ in range(rng.randint(0, 10)):
            kind = rng.random()
            k, v = rng.choice(keys), rng.choice(keys)
            if kind < 0.6:
                pairs.append((k, v))
            elif kind < 0.75:
                pairs.append([k, v])
            elif kind < 0.9:
                pairs.append((k, v, rng.choice(keys)))
            else:
                pairs.append("pq")
        case("l2d%03d" % i, lambda: R.list_of_tuples_to_dict_of_lists(pairs))
        case("l2d%03d tuple" % i, lambda: R.list_of_tuples_to_dict_of_lists(tuple(pairs)))
        case("l2d%03d iter" % i, lambda: R.list_of_tuples_to_dict_of_lists(iter(pairs)))

    for label, arg in [
            ("none", None), ("int", 3), ("short", [(1,)]), ("empty-tuple", [()]),
            ("late-short", [(1, 2), (3,)]), ("unhashable", [([1], 2)]),
            ("late-unhashable", [(1, 2), ({}, 3)]), ("non-iter", [5]), ("none-item", [None]),
            ("dict-item", [{0: "k", 1: "v"}]), ("dict-item-bad", [{"x": 1}]),
            ("str", "ab"), ("str-items", ["ab", "a"]), ("unhashable-value", [(1, [2])]),
            ("set-item", [{1, 2}]), ("bytes", [b"ab"])]:
        case("l2d bad %s" % label, lambda: R.list_of_tuples_to_dict_of_lists(arg))

    def ams(d, n):
        before = id(d)
        res = R.add_missing_states(d, n)
        distinct = (len({id(v) for v in res.values()}) == len(res)) if isinstance(res, dict) else None
        return (res, id(res) == before, d, distinct)

    for i in range(250):
        d = {}
        for _ in range(rng.randint(0, 6)):
            d[rng.choice(keys)] = [rng.randrange(5) for _ in range(rng.randint(0, 3))]
        n = rng.choice([-2, -1, 0, 1, 2, 3, 4, 5, 8, 10, True, False])
        case("ams%03d" % i, lambda: ams(d, n))
    for label, d, n in [
            ("none0", None, 0), ("none3", None, 3), ("list", [[], []], 2), ("list-short", [], 2),
            ("list-hit", [0, 1], 3), ("str", "abc", 2), ("n-none", {}, None), ("n-str", {}, "3"),
            ("n-float", {0: []}, 2.0), ("n-float2", {}, 2.5), ("int-dict", 5, 2), ("set", {0}, 2),
            ("tuple", (0, 5), 2), ("gen", (x for x in [0]), 2), ("big", {5: [1]}, 3000)]:
        case("ams bad %s" % label,
             lambda: (lambda r: (r, r is d))(R.add_missing_states(d, n)))

    # reverse_dfs_from directly, good and bad tables
    for label, state, table, visited in [
            ("plain", 0, {0: [1, 2], 1: [2], 2: []}, set()),
            ("visited-start", 0, {0: [1]}, {0}),
            ("visited-start-missing", 9, {0: [1]}, {9}),
            ("missing-start", 9, {0: [1]}, set()),
            ("missing-mid", 0, {0: [1, 2, 1], 1: []}, set()),
            ("missing-first", 0, {0: [7, 1], 1: []}, {3}),
            ("unhashable-start", [0], {0: []}, set()),
            ("unhashable-pred", 0, {0: [1, [2], 3], 1: [], 3: []}, set()),
            ("unhashable-pred-dup", 0, {0: [1, 1, [2]], 1: [4], 4: []}, {8}),
            ("non-iter-preds", 0, {0: 5}, set()),
            ("none-table", 0, None, set()),
            ("list-table", 0, [[1], [2], []], set()),
            ("list-table-oob", 0, [[1], [5], []], set()),
            ("str-preds", "a", {"a": "bc", "b": "", "c": "a"}, set()),
            ("float-eq", 1.0, {1: [0, 2.0], 0: [True], 2: []}, set()),
            ("dup-preds", 0, {0: [1, 1, 2, 1, 2], 1: [0, 2], 2: [2, 1, 0]}, set())]:
        def direct():
            try:
                ret = R.reverse_dfs_from(state, table, visited)
                tail = "ok %r" % (ret,)
            except Exception as exc:
                tail = "EXC %s: %s" % (type(exc).__name__, exc)
            return (tail, list(visited) if isinstance(visited, set) else visited)
        case("from %s" % label, direct)
    case("from list-visited", lambda: R.reverse_dfs_from(0, {0: [1], 1: []}, []))
    case("from none-visited", lambda: R.reverse_dfs_from(0, {0: [1], 1: []}, None))

    # ------------------------------------------------------------------ #
    # 4. malformed transition lists / finals through the public entry    #
    # ------------------------------------------------------------------ #
    good = [[("a", 1), ("b", 2)], [(0.5, 2), (0.5, 0)], [(1, 2)]]
    bad_tls = [
        ("none", None), ("int", 7), ("str", "ab"), ("str2", ["ab"]), ("str3", [["ab", "cd"]]),
        ("row-none", [[("a", 1)], None]), ("row-int", [3]), ("edge-int", [[3]]),
        ("edge-1", [[("a",)]]), ("edge-3", [[("a", 0, 1)]]), ("edge-0", [[()]]),
        ("edge-none", [[None]]), ("late-edge-1", [[("a", 0)], [("a", 0), (1,)]]),
        ("unhashable-target", [[("a", [0])]]), ("dict-target", [[("a", {})]]),
        ("unpack-before-hash", [[("a", [0])], [("a", 0)], [("a", 0)], [(1,)]]),
        ("hash-then-unpack", [[("a", 0)], [("a", [1])], [(1, 2, 3)]]),
        ("oob-target", [[("a", 5)], [("a", 0)]]), ("neg-target", [[("a", -1)], [("a", 0)]]),
        ("float-target", [[("a", 1.0)], [("a", 0.0)]]), ("bool-target", [[("a", True)], [("a", False)]]),
        ("str-target", [[("a", "s")], [("a", 0)]]), ("none-target", [[("a", None)], [("a", 0)]]),
        ("mixed-target", [[("a", "s"), ("b", 1)], [("a", 0), ("b", None)]]),
        ("half-float", [[("a", 1.5)], [("a", 0)]]), ("dict-row", [{"a": 1, "b": 0}, []]),
        ("dict-row2", [{("a", 1): 0}, [("a", 0)]]), ("set-row", [{("a", 1)}, [("a", 0)]]),
        ("dict-tl", {0: [("a", 0)]}), ("nested-gen", [((l, t) for l, t in [("a", 1)]), [("b", 0)]]),
        ("good", good),
    ]
    bad_finals = [
        ("none", None), ("int", 1), ("empty", []), ("oob", [5]), ("neg", [-1]), ("oob-twice", [5, 5]),
        ("good-then-oob", [2, 9]), ("oob-then-good", [9, 2]), ("unhashable", [[1]]),
        ("good-then-unhashable", [1, [1]]), ("str", "12"), ("strs", ["s"]), ("str-s", "s"),
        ("float", [1.0]), ("float-half", [1.5]), ("bool", [True]), ("none-item", [None]),
        ("mixed", [None, "s", 0]), ("gen-mixed", ["s", 0, None]),
        ("gen-good", [2, 2]), ("iter-good", [0]), ("dict", {1: "a"}),
        ("dict-str", {"s": 1}), ("nan", [float("nan")]), ("tuple-item", [(1, 2)]),
        ("range", range(1, 3)), ("bytes", b"\x01\x02"), ("good", [2]), ("all", [0, 1, 2]),
        ("set", {2, 0}), ("nested", [[0], [1]]), ("big-int", [10 ** 30]), ("neg-in-range", [-3]),
    ]
    for tname, tl in bad_tls:
        case("bad tl %s core" % tname, lambda: R.reverse_transition_list_core(tl))
        case("bad tl %s table" % tname, lambda: R.reverse_transition_list(tl))
        for fname, finals in bad_finals:
            if fname.startswith(("gen", "iter")):
                fin = (x for x in finals)
            else:
                fin = finals
            if tname == "nested-gen":
                tl = [[("a", 1)], [("b", 0)]]
            case("bad tl %s finals %s" % (tname, fname), lambda: R.reverse_dfs(tl, fin))

    # ------------------------------------------------------------------ #
    # 5. end to end: random games of the three state kinds, both modes   #
    # ------------------------------------------------------------------ #
    counter = {"n": 0}
    real_debug = logging.debug

    def counting_debug(msg, *args, **kwargs):
        if isinstance(msg, str) and msg.startswith("iteration"):
            counter["n"] += 1
            if counter["n"] > ITERATION_CAP:
                raise _Cap()

    logging.debug = counting_debug

    def wild_game():
        n = rng.randint(2, 8)
        players = [rng.choice([T.PLAYER_1, T.PLAYER_2, T.PROBABILISTIC]) for _ in range(n)]
        finals = rnd_finals(n)[: rng.randint(1, 3)]
        tl = []
        for s in range(n):
            if s in finals and rng.random() < 0.8:
                players[s] = T.PROBABILISTIC
                tl.append([(1, s)])
                continue
            k = rng.randint(1, 3)
            targets = [rng.randrange(n) for _ in range(k)]
            if rng.random() < 0.3:
                targets[-1] = targets[0]                       # parallel edge / exact tie
            if players[s] == T.PROBABILISTIC:
                probs = {1: [1], 2: rng.choice([[0.5, 0.5], [0.25, 0.75]]),
                         3: rng.choice([[0.5, 0.25, 0.25], [0.2, 0.3, 0.5]])}[k]
                tl.append(list(zip(probs, targets)))
            else:
                tl.append(list(zip(["a", "b", "c"], targets)))
        rewards = [rng.choice([0, 1, 1, 2, 3]) for _ in range(n)]
        if rng.random() < 0.1:
            tl[rng.randrange(n)] = []                           # "Missing transitions"
        if rng.random() < 0.1:
            finals = finals + [n + 1]                           # out of range final
        return dict(rewards=rewards, players=players, transition_list=tl, final_states=finals)

    def stopping_game():
        """Mostly forward edges; cycles only through probabilistic states that
        also move forward, so value iteration converges.  Several finals, an
        absorbing non-final sink, parallel edges and exact ties included."""
        n = rng.randint(4, 10)
        n_final = rng.randint(1, 3)
        sink = n - n_final - 1                                  # absorbing, not final
        finals = list(range(n - n_final, n))
        players, tl, rewards = [], [], []
        for s in range(n):
            if s >= sink:
                players.append(T.PROBABILISTIC)
                tl.append([(1, s)])
                rewards.append(0)
                continue
            player = rng.choice([T.PLAYER_1, T.PLAYER_2, T.PROBABILISTIC])
            k = rng.randint(1, 3)
            targets = [rng.randint(s + 1, n - 1) for _ in range(k)]
            if k > 1 and rng.random() < 0.35:
                targets[-1] = targets[0]                        # parallel edge / exact tie
            if player == T.PROBABILISTIC:
                probs = {1: [1], 2: rng.choice([[0.5, 0.5], [0.25, 0.75]]),
                         3: rng.choice([[0.5, 0.25, 0.25], [0.25, 0.25, 0.5]])}[k]
                if k > 1 and rng.random() < 0.5:
                    targets[0] = rng.randint(0, s)              # cycle, taken with p <= 0.5
                tl.append(list(zip(probs, targets)))
            else:
                tl.append(list(zip(["a", "b", "c"], targets)))
            players.append(player)
            rewards.append(rng.choice([0, 1, 1, 2, 3]))
        rng.shuffle(finals)
        if rng.random() < 0.3:
            finals.append(finals[0])                            # repetition
        return dict(rewards=rewards, players=players, transition_list=tl, final_states=finals)

    def rnd_game():
        return wild_game() if rng.random() < 0.25 else stopping_game()

    import copy
    for i in range(300):
        game = rnd_game()
        for prune in (True, False):
            def solve():
                counter["n"] = 0
                g = copy.deepcopy(game)
                return T.StochasticGame(prune_states=prune, **g).solve()
            case("game%03d prune=%s" % (i, prune), solve, show=repr)
    logging.debug = real_debug

    sys.stdout.write("\n".join(out) + "\n")


# --------------------------------------------------------------------------- #
#                                   driver                                    #
# --------------------------------------------------------------------------- #
def run_tree(tree):
    env = dict(os.environ, PYTHONHASHSEED="0", PYTHONDONTWRITEBYTECODE="1")
    with tempfile.TemporaryDirectory() as cwd:
        try:
            proc = subprocess.run(
                [sys.executable, os.path.abspath(__file__), "--worker", os.path.abspath(tree)],
                cwd=cwd, env=env, stdout=subprocess.PIPE, stderr=subprocess.PIPE,
                universal_newlines=True, timeout=110)
        except subprocess.TimeoutExpired:
            # a tree whose battery does not finish is reported as a difference
            return ["WORKER TIMEOUT for %s" % tree]
    if proc.returncode != 0:
        return ["WORKER for %s FAILED (%d): %s" % (tree, proc.returncode, proc.stderr[-1500:])]
    return proc.stdout.splitlines()


def main():
    if len(sys.argv) == 3 and sys.argv[1] == "--worker":
        worker(sys.argv[2])
        return
    if len(sys.argv) != 3:
        print(__doc__)
        sys.exit(2)
    from concurrent.futures import ThreadPoolExecutor
    with ThreadPoolExecutor(2) as pool:           # the two trees side by side
        fa, fb = pool.submit(run_tree, sys.argv[1]), pool.submit(run_tree, sys.argv[2])
        a, b = fa.result(), fb.result()
    for idx, (x, y) in enumerate(zip(a, b)):
        if x != y:
            print("DIFFERENT at case %d:\n  clean  : %s\n  patched: %s" % (idx, x[:600], y[:600]))
            sys.exit(1)
    if len(a) != len(b):
        print("DIFFERENT number of cases: %d vs %d" % (len(a), len(b)))
        sys.exit(1)
    print("SAME (%d cases)" % len(a))


if __name__ == "__main__":
    main()
