#!/usr/bin/env python
"""Differential test for property C12 (batch runs solve each game in isolation and report failures).

usage: python equiv.py <clean_repo_dir> <patched_repo_dir>

Both trees are loaded in their own subprocess (module names collide).  Every worker runs the
same deterministic set of inputs through conditionalrewards.run_games / read_dict_from_file /
save_results_to_file / main and prints one line per observation; the two transcripts are
compared line by line.  Prints SAME and exits 0 when nothing differs, otherwise prints the first
difference and exits 1.

What is observed per batch of games: repr of the result dict (key order, all values, with a
deterministic fake clock so that even total_time is comparable), or type + message of the
exception that escaped; repr of the caller's dictionary afterwards (run_games writes
"prune_states" into it and must not damage anything else); every logging record emitted
(level + text); whether each game's two entries equal what a solo run gives.
Solves that may not terminate are cut by a deterministic cap on the number of node updates per
solve (raised as ValueError, i.e. as a failing solve, which also exercises the path
"unpruned solve fails after the pruned one succeeded").
"""
import os
import re
import subprocess
import sys
import tempfile

CAP = 2500          # node updates per solve
N_BATCHES = 700


# --------------------------------------------------------------------------------------------
# worker
# --------------------------------------------------------------------------------------------
def worker(tree, scratch):
    import copy
    import io
    import logging
    import random
    import types

    tree = os.path.realpath(tree)
    sys.path.insert(0, tree)
    os.chdir(scratch)
    os.makedirs("outputs", exist_ok=True)
    import conditionalrewards as cr
    import tad
    assert os.path.realpath(cr.__file__).startswith(tree + os.sep), cr.__file__
    assert os.path.realpath(tad.__file__).startswith(tree + os.sep), tad.__file__

    out = []

    # ---- deterministic clock (only for the driver module) ----
    class Clock:
        def __init__(self):
            self.t = 1000.0
            self.calls = 0

        def time(self):
            self.calls += 1
            self.t += 0.5
            return self.t
    clock = Clock()
    cr.time = types.SimpleNamespace(time=clock.time)

    # ---- deterministic cap on the value iterations ----
    counter = {"n": 0}

    class CapReached(ValueError):
        pass

    def capped(fn):
        def wrapper(self, state_list):
            counter["n"] += 1
            if counter["n"] > CAP:
                raise CapReached("iteration cap reached")
            return fn(self, state_list)
        return wrapper
    for cls in (tad.ProbabilisticNode, tad.PlayerOne, tad.PlayerTwo):
        cls.value_iteration_rewards = capped(cls.value_iteration_rewards)
        cls.value_iteration_reach = capped(cls.value_iteration_reach)
    orig_solve = tad.StochasticGame.solve

    def solve(self):
        counter["n"] = 0
        return orig_solve(self)
    tad.StochasticGame.solve = solve

    # ---- logging capture ----
    records = []

    class Grab(logging.Handler):
        def emit(self, record):
            records.append((record.levelname, record.getMessage()))
    root = logging.getLogger()
    root.addHandler(Grab())

    P1, P2, PR = "Player 1", "Player 2", "Probabilistic"
    SPLITS = {1: [[1], [1.0]],
              2: [[0.5, 0.5], [0.25, 0.75], [0.1, 0.9], [0.99, 0.01]],
              3: [[0.3, 0.3, 0.4], [0.25, 0.25, 0.5], [1 / 3, 1 / 3, 1 / 3], [0.2, 0.3, 0.5]]}

    def gen_game(rng):
        n = rng.randint(2, 7)
        finals = rng.sample(range(1, n), rng.randint(1, min(3, n - 1)))
        if rng.random() < 0.05:
            finals.append(0)
        if rng.random() < 0.1:
            finals.append(finals[0])            # duplicate final
        players = [rng.choice([P1, P2, PR]) for _ in range(n)]
        rewards = [rng.choice([0, 0, 1, 1, 2, 5, 2.5, 10, 0.1]) for _ in range(n)]
        forward = rng.random() < 0.5            # mostly acyclic: converges for sure
        trans = []
        for s in range(n):
            if s in finals and rng.random() < 0.9:
                players[s] = PR
                rewards[s] = 0
                trans.append([(1, s)])
                continue
            deg = rng.randint(1, 3)
            if forward and s < n - 1 and rng.random() < 0.9:
                targets = [rng.randint(s + 1, n - 1) for _ in range(deg)]
            else:
                targets = [rng.randrange(n) for _ in range(deg)]
            if rng.random() < 0.15 and deg > 1:
                targets[1] = targets[0]         # parallel edges
            if players[s] == PR:
                probs = rng.choice(SPLITS[deg])
                trans.append(list(zip(probs, targets)))
            else:
                names = ["a%d" % i for i in range(deg)]
                if rng.random() < 0.1 and deg > 1:
                    names[1] = names[0]         # duplicate action name
                trans.append(list(zip(names, targets)))
        if forward and rng.random() < 0.7:
            # sink that is not final and has no reward, so the unpruned solve converges as well
            last = n - 1
            if last not in finals:
                players[last] = PR
                rewards[last] = 0
                trans[last] = [(1, last)]
        return {"rewards": rewards, "players": players, "transition_list": trans,
                "final_states": finals}

    def unreachable(rng):
        g = gen_game(rng)
        n = len(g["players"])
        g["transition_list"][0] = [(1, 0)] if g["players"][0] == PR else [("stay", 0)]
        g["final_states"] = [f for f in g["final_states"] if f != 0] or [n - 1]
        g["rewards"][0] = 0
        return g

    def m_short_rewards(g, rng): g["rewards"] = g["rewards"][:-1]
    def m_short_trans(g, rng): g["transition_list"] = g["transition_list"][:-1]
    def m_short_players(g, rng): g["players"] = g["players"][:-1]
    def m_neg_reward(g, rng): g["rewards"][rng.randrange(len(g["rewards"]))] = -1
    def m_final_high(g, rng): g["final_states"] = g["final_states"] + [len(g["players"])]
    def m_final_neg(g, rng): g["final_states"] = [-1] + g["final_states"]
    def m_no_finals(g, rng): g["final_states"] = []
    def m_bad_player(g, rng): g["players"][rng.randrange(len(g["players"]))] = "Player 3"
    def m_trans_none(g, rng): g["transition_list"][rng.randrange(len(g["players"]))] = None
    def m_trans_tuple(g, rng): g["transition_list"][0] = tuple(g["transition_list"][0])
    def m_trans_empty(g, rng): g["transition_list"][rng.randrange(len(g["players"]))] = []
    def m_entry_list(g, rng): g["transition_list"][0][0] = list(g["transition_list"][0][0])
    def m_entry_long(g, rng): g["transition_list"][0][0] = g["transition_list"][0][0] + (0,)

    def m_bad_label(g, rng):
        s = rng.randrange(len(g["players"]))
        t = g["transition_list"][s][0][1]
        g["transition_list"][s][0] = (1, t) if g["players"][s] != PR else ("x", t)

    def m_target_str(g, rng): g["transition_list"][0][0] = (g["transition_list"][0][0][0], "1")
    def m_target_far(g, rng): g["transition_list"][0][0] = (g["transition_list"][0][0][0], 99)
    def m_target_neg(g, rng): g["transition_list"][0][0] = (g["transition_list"][0][0][0], -1)
    def m_missing_key(g, rng): del g[rng.choice(["rewards", "players", "transition_list", "final_states"])]
    def m_extra_key(g, rng): g["threshold"] = 0.1
    def m_rewards_none(g, rng): g["rewards"] = None
    def m_players_none(g, rng): g["players"] = None
    def m_trans_all_none(g, rng): g["transition_list"] = None
    def m_finals_none(g, rng): g["final_states"] = None
    def m_finals_int(g, rng): g["final_states"] = 1
    def m_reward_str(g, rng): g["rewards"][0] = "1"
    def m_preset_prune(g, rng): g["prune_states"] = rng.choice([True, False, None, 0, "no"])
    def m_players_tuple(g, rng): g["players"] = tuple(g["players"])
    def m_empty_game(g, rng): g["rewards"], g["players"], g["transition_list"] = [], [], []

    # the ones whose error escapes run_games (not a ValueError) are drawn less often
    ESCAPING = {"m_missing_key", "m_extra_key", "m_rewards_none", "m_players_none",
                "m_trans_all_none", "m_finals_none", "m_finals_int", "m_reward_str"}
    MUTATORS = [v for k, v in sorted(locals().items()) if k.startswith("m_")
                for _ in range(1 if k in ESCAPING else 4)]
    NOT_DICTS = [None, [], 3, "game", (1, 2)]

    def make_batch(rng):
        """-> dict name -> game (with aliasing, odd names, malformed and failing games mixed in)"""
        size = rng.choice([1, 1, 2, 2, 3, 3, 4, 5])
        games = {}
        for i in range(size):
            r = rng.random()
            if r < 0.50:
                g = gen_game(rng)
            elif r < 0.65:
                g = unreachable(rng)
            elif r < 0.92:
                g = gen_game(rng)
                rng.choice(MUTATORS)(g, rng)
                if rng.random() < 0.2:
                    try:
                        rng.choice(MUTATORS)(g, rng)
                    except (KeyError, TypeError, IndexError, ValueError):
                        pass                                    # already too broken for that
            elif r < 0.935:
                g = rng.choice(NOT_DICTS)
            elif games:
                other = rng.choice(list(games.values()))        # aliasing
                if isinstance(other, dict) and rng.random() < 0.5:
                    g = dict(other)                             # shares the inner lists
                else:
                    g = other                                   # the very same object
            else:
                g = gen_game(rng)
            q = rng.random()
            if q < 0.82:
                name = "g%d" % i
            elif q < 0.89 and games:
                name = str(rng.choice([k for k in games])) + "_no_prune"    # key collision
            elif q < 0.93:
                name = ""
            elif q < 0.945:
                name = i                                        # not a str
            elif q < 0.955:
                name = ("t", i)
            elif q < 0.965:
                name = None
            else:
                name = "g%d_no_prune" % (i + 1)                 # collides with a later game
            games[name] = g
        return games

    def observe(tag, games):
        del records[:]
        calls = clock.calls
        try:
            res = cr.run_games(games)
            text = repr(res)
        except BaseException as e:       # noqa
            res = None
            text = "RAISED %s: %s" % (type(e).__name__, e)
        out.append("%s result %s" % (tag, text))
        out.append("%s after %r" % (tag, games))
        out.append("%s logs %r clock_calls=%d" % (tag, records, clock.calls - calls))
        return res

    # ---- 1. random batches, their reversals, subsets and solo runs ----
    for seed in range(N_BATCHES):
        rng = random.Random(seed)
        root.setLevel([logging.WARNING, logging.INFO, logging.WARNING, logging.ERROR + 10][seed % 4])
        if seed % 97 == 0:
            root.setLevel(logging.DEBUG)
        pristine = make_batch(rng)
        tag = "B%d" % seed
        games = copy.deepcopy(pristine)
        res = observe(tag, games)
        # second run on the already used dictionary (histories)
        if seed % 3 == 0:
            observe(tag + "-again", games)
        # reversed order
        rev = dict(reversed(list(copy.deepcopy(pristine).items())))
        res_rev = observe(tag + "-rev", rev)
        # a subset
        items = list(copy.deepcopy(pristine).items())
        sub = dict(rng.sample(items, rng.randint(0, len(items))))
        observe(tag + "-sub", sub)
        # isolation: each game alone
        if res is not None:
            verdict = []
            for name, game in copy.deepcopy(pristine).items():
                root.setLevel(logging.CRITICAL + 10)
                try:
                    solo = cr.run_games({name: game})
                except BaseException as e:       # noqa
                    verdict.append("solo raised %s" % type(e).__name__)
                    continue
                verdict.append(all(repr(res.get(k)) == repr(v) for k, v in solo.items()))
                if res_rev is not None:
                    verdict.append(all(repr(res_rev.get(k)) == repr(v) for k, v in solo.items()))
            out.append("%s isolation %r" % (tag, verdict))

    # ---- 2. hand-made boundary batches ----
    root.setLevel(logging.INFO)
    rng = random.Random(424242)
    good = gen_game(random.Random(5))
    bad = unreachable(random.Random(6))
    broken = gen_game(random.Random(7))
    m_neg_reward(broken, rng)
    shapes = {
        "empty": {},
        "fail-first": {"x": bad, "y": good, "z": good},
        "fail-middle": {"x": good, "y": bad, "z": good},
        "fail-last": {"x": good, "y": good, "z": bad},
        "all-fail": {"x": bad, "y": broken},
        "broken-between": {"x": good, "y": broken, "z": good, "w": bad, "v": good},
        "same-object-thrice": {"x": good, "y": good, "z": good},
        "suffix-chain": {"a": good, "a_no_prune": bad, "a_no_prune_no_prune": good},
        "suffix-chain-rev": {"a_no_prune_no_prune": good, "a_no_prune": bad, "a": good},
    }
    for tag, games in shapes.items():
        observe("H-" + tag, copy.deepcopy(games))
    # the copy taken before each solve: a rewards list that counts how often it is deep-copied
    # and a transition list whose entries notice being pruned in place
    copies = []

    class Counting(list):
        def __deepcopy__(self, memo):
            copies.append(len(copies))
            return Counting(copy.deepcopy(list(self), memo))
    probe = {"p%d" % i: dict(copy.deepcopy(g), rewards=Counting(g["rewards"]))
             for i, g in enumerate([good, bad, good, broken])}
    observe("H-copies", probe)
    out.append("H-copies deep copies taken: %d" % len(copies))

    for bad_arg in (None, [], [("a", good)], "abc", 5):
        try:
            text = repr(cr.run_games(copy.deepcopy(bad_arg)))
        except BaseException as e:       # noqa
            text = "RAISED %s: %s" % (type(e).__name__, e)
        out.append("H-arg %r -> %s" % (bad_arg, text))

    # ---- 3. files: read_dict_from_file, run_games, save_results_to_file, main ----
    root.setLevel(logging.WARNING)
    inputs = os.path.join(tree, "inputs")
    small = sorted(f for f in os.listdir(inputs)
                   if os.path.getsize(os.path.join(inputs, f)) < 60000)
    for fname in small:
        path = os.path.join(inputs, fname)
        del records[:]
        try:
            d = cr.read_dict_from_file(path)
            res = cr.run_games(d)
            cr.save_results_to_file(res, path)
            with open(os.path.join("outputs", fname.split(".")[0] + ".txt"), "rb") as fh:
                data = fh.read()
            out.append("F %s result %r" % (fname, res))
            out.append("F %s bytes %r" % (fname, data))
        except BaseException as e:       # noqa
            out.append("F %s RAISED %s: %s" % (fname, type(e).__name__, e))
        out.append("F %s logs %r" % (fname, records))

    # generated files through main(), byte for byte
    for seed in range(40):
        rng = random.Random(10000 + seed)
        games = make_batch(rng)
        fname = "gen.%d.v2.py" % seed if seed % 2 else "gen_%d.py" % seed
        kind = seed % 10
        with open(fname, "w") as fh:
            if kind == 7:
                fh.write("[1, 2, 3]")
            elif kind == 8:
                fh.write("{'a': ")
            else:
                fh.write(repr(games))
        argv = ["conditionalrewards.py", "-f", os.path.join(scratch, fname) if seed % 3 else fname]
        if kind != 9:
            argv.append("-s")
        old_argv = sys.argv
        sys.argv = argv
        del records[:]
        try:
            cr.main()
            text = "ok"
        except BaseException as e:       # noqa
            text = "RAISED %s: %s" % (type(e).__name__, e)
        finally:
            sys.argv = old_argv
        produced = {}
        for f in sorted(os.listdir("outputs")):
            with open(os.path.join("outputs", f), "rb") as fh:
                produced[f] = fh.read()
            os.remove(os.path.join("outputs", f))
        shown = [a.replace(scratch, "<scratch>") for a in argv[1:]]
        out.append("M %d %s -> %s files=%r logs=%r" % (seed, shown, text, produced, records))

    sys.stdout.write("\n".join(out) + "\n")


# --------------------------------------------------------------------------------------------
# real command line, one process per run
# --------------------------------------------------------------------------------------------
CLI_GAMES = """{
 "ok": {"rewards": [1, 2, 0, 0], "players": ["Player 1", "Probabilistic", "Probabilistic", "Probabilistic"],
        "transition_list": [[("a", 1), ("b", 2)], [(0.5, 2), (0.5, 3)], [(1, 2)], [(1, 3)]],
        "final_states": [2]},
 "stuck": {"rewards": [0, 0], "players": ["Player 2", "Probabilistic"],
           "transition_list": [[("a", 0)], [(1, 1)]], "final_states": [1]},
 "negative": {"rewards": [-1, 0], "players": ["Probabilistic", "Probabilistic"],
              "transition_list": [[(1, 1)], [(1, 1)]], "final_states": [1]},
 "tie": {"rewards": [0, 3, 3, 0], "players": ["Player 1", "Player 2", "Probabilistic", "Probabilistic"],
         "transition_list": [[("a", 1), ("b", 2), ("a", 2)], [("c", 3), ("d", 3)], [(1, 3)], [(1, 3)]],
         "final_states": [3]},
}
"""


def cli_runs(tree, scratch):
    """-> transcript (list of str) of real `python conditionalrewards.py -f FILE ...` runs"""
    out = []
    os.makedirs(os.path.join(scratch, "outputs"), exist_ok=True)
    files = {"cli_games.py": CLI_GAMES, "cli.dotted.name.py": CLI_GAMES,
             "cli_list.py": "[1]", "cli_syntax.py": "{", "cli_empty.py": "{}"}
    for f, text in files.items():
        with open(os.path.join(scratch, f), "w") as fh:
            fh.write(text)
    script = os.path.join(tree, "conditionalrewards.py")
    runs = [["-f", "cli_games.py", "-s"], ["-f", "cli_games.py", "-s", "-l", "i"],
            ["-f", "cli.dotted.name.py", "-s"], ["-f", "cli_list.py", "-s"],
            ["-f", "cli_syntax.py"], ["-f", "cli_empty.py", "-s"], ["-f", "missing.py", "-s"],
            ["-f", "cli_games.py", "-l", "nonsense"], ["-s"]]
    mask = re.compile(r"(Total time\s*: ).*")
    for args in runs:
        p = subprocess.run([sys.executable, "-B", script] + args, cwd=scratch, capture_output=True,
                           text=True, timeout=100)
        err = p.stderr
        if "Traceback" in err:                       # paths differ between the trees
            err = "TRACEBACK ... " + err.strip().splitlines()[-1]
        produced = {}
        for f in sorted(os.listdir(os.path.join(scratch, "outputs"))):
            with open(os.path.join(scratch, "outputs", f)) as fh:
                produced[f] = mask.sub(r"\1<t>", fh.read())
            os.remove(os.path.join(scratch, "outputs", f))
        out.append("CLI %r rc=%d out=%r err=%r files=%r" % (
            args, p.returncode, mask.sub(r"\1<t>", p.stdout), mask.sub(r"\1<t>", err), produced))
    return out


def main():
    if len(sys.argv) == 4 and sys.argv[1] == "--worker":
        worker(sys.argv[2], sys.argv[3])
        return 0
    if len(sys.argv) != 3:
        print(__doc__)
        return 2
    trees = [os.path.realpath(a) for a in sys.argv[1:3]]
    env = dict(os.environ, PYTHONHASHSEED="0", PYTHONDONTWRITEBYTECODE="1")
    transcripts = []
    with tempfile.TemporaryDirectory() as tmp:
        procs = []
        for i, tree in enumerate(trees):
            scratch = os.path.join(tmp, "w%d" % i)
            os.makedirs(scratch)
            procs.append(subprocess.Popen(
                [sys.executable, os.path.abspath(__file__), "--worker", tree, scratch],
                stdout=subprocess.PIPE, stderr=subprocess.PIPE, text=True, env=env))
        cli = []
        for i, tree in enumerate(trees):
            scratch = os.path.join(tmp, "c%d" % i)
            os.makedirs(scratch)
            cli.append(cli_runs(tree, scratch))
        for i, p in enumerate(procs):
            try:
                stdout, stderr = p.communicate(timeout=110)
            except subprocess.TimeoutExpired:
                p.kill()
                print("worker for %s timed out" % trees[i])
                return 1
            if p.returncode != 0:
                print("worker for %s failed:\n%s" % (trees[i], stderr[-3000:]))
                return 1
            transcripts.append(stdout.splitlines() + cli[i])
    a, b = transcripts
    for n, (x, y) in enumerate(zip(a, b)):
        if x != y:
            k = next((j for j, (c, d) in enumerate(zip(x, y)) if c != d), min(len(x), len(y)))
            print("DIFFERENT at observation %d, column %d" % (n, k))
            print("clean  : ..." + x[max(0, k - 200):k + 300])
            print("patched: ..." + y[max(0, k - 200):k + 300])
            return 1
    if len(a) != len(b):
        print("DIFFERENT number of observations: %d vs %d" % (len(a), len(b)))
        return 1
    print("SAME")
    return 0


if __name__ == "__main__":
    sys.exit(main())
