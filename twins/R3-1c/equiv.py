#!/usr/bin/env python
"""Equivalence check for reverse_dfs.py (all public functions) between two repo roots.

usage: python equiv.py <repo-root-A> <repo-root-B>

Each root is exercised in its own subprocess (worker mode) on the same
deterministic inputs; the worker prints a JSON list of [label, observation]
pairs, the parent compares the two lists and reports the first difference.
"""
import copy
import json
import os
import random
import subprocess
import sys


# --------------------------------------------------------------------------- #
# worker
# --------------------------------------------------------------------------- #
def _show(value):
    """Deterministic textual form; keeps dict order, sorts sets."""
    if isinstance(value, (set, frozenset)):
        return "set(" + ", ".join(sorted((_show(v) for v in value))) + ")"
    if isinstance(value, dict):
        return type(value).__name__ + "{" + ", ".join(
            f"{_show(k)}: {_show(v)}" for k, v in value.items()) + "}"
    if isinstance(value, list):
        return "[" + ", ".join(_show(v) for v in value) + "]"
    if isinstance(value, tuple):
        return "(" + ", ".join(_show(v) for v in value) + ",)"
    return f"{type(value).__name__}:{value!r}"


def _call(function, *args):
    """Return observation of a call: result or exception, plus the arguments afterwards."""
    try:
        result = function(*args)
        outcome = "ok " + _show(result)
    except RecursionError:
        outcome = "exc RecursionError"
    except Exception as error:  # noqa: BLE001 - we want to compare every failure
        outcome = f"exc {type(error).__name__}: {error}"
    return outcome + " | args after: " + _show(list(args))


def random_transition_list(rng, n_states, max_out, allow_empty):
    transition_list = []
    for _ in range(n_states):
        low = 0 if allow_empty else 1
        n_out = rng.randint(low, max_out)
        transitions = []
        for _ in range(n_out):
            label = rng.choice(["a", "b", "c", 0.5, 1, 0.25])
            transitions.append((label, rng.randrange(n_states)))
        transition_list.append(transitions)
    return transition_list


def graph_inputs():
    """(transition_list, final_states) pairs: hand written + seeded random."""
    cases = []
    fig_5_4 = [
        [("beta", 1), ("alfa", 2)], [(3 / 4, 3), (1 / 4, 4)], [(1 / 2, 5), (1 / 2, 6)],
        [("delta", 4), ("gamma", 5)], [(1, 4)], [(1, 5)], [(1, 6)]]
    cases += [(fig_5_4, [5]), (fig_5_4, [4]), (fig_5_4, [6, 5]), (fig_5_4, [0]),
              (fig_5_4, []), (fig_5_4, [5, 5]), (fig_5_4, (5,)), (fig_5_4, {5, 6})]
    cases += [([], []), ([[]], [0]), ([[]], []), ([[(1, 0)]], [0]), ([[(1, 0)]], []),
              ([[(1, 1)], [(1, 0)]], [1]), ([[(1, 1)], [(1, 1)]], [0]),
              ([[(1, 1), (1, 1), (1, 1)], [(1, 1)]], [1]),          # parallel transitions
              ([[("a", 0), ("a", 0)], []], [0]),
              ([[(0.5, 1), (0.5, 2)], [(1, 1)], [(1, 2)]], [1, 2]),
              ([[(0.5, 1), (0.5, 2)], [(1, 1)], [(1, 2)]], [0, 1, 2]),
              ([[(1, 1)], [(1, 2)], [(1, 0)]], [2]),                 # cycle
              ([[(1, True)], [(1, 1)]], [1]),                        # bool successor == 1
              ([[(1, 1.0)], [(1, 1)]], [1]),                         # float successor == 1
              ([[(1, 1)], [(1, 1)]], [1.0]), ([[(1, 1)], [(1, 1)]], [True])]
    # long chain / deep graphs (any size and depth)
    for size in (1500, 60000):
        chain = [[(1, i + 1)] for i in range(size - 1)] + [[(1, size - 1)]]
        cases.append((chain, [size - 1]))
        back_chain = [[(1, 0)]] + [[(1, i - 1)] for i in range(1, size)]
        cases.append((back_chain, [0]))
    star = [[("x", 0)]] + [[(1, 0), (1, i)] for i in range(1, 3000)]
    cases.append((star, [0]))
    rng = random.Random(20240607)
    for index in range(400):
        n_states = rng.randint(1, 12 if index % 4 else 40)
        transition_list = random_transition_list(
            rng, n_states, rng.randint(1, 4), allow_empty=(index % 3 == 0))
        n_final = rng.randint(0, min(3, n_states))
        final_states = [rng.randrange(n_states) for _ in range(n_final)]
        cases.append((transition_list, final_states))
    return cases


def malformed_inputs():
    """Inputs outside the documented shape: the same exception must come out."""
    return [
        ([[(1, 5)], [(1, 0)]], [5]),            # successor out of range used as final
        ([[(1, 5)], [(1, 0)]], [1]),
        ([[(1, 0)], [(1, 0)]], [7]),            # final out of range
        ([[(1, 0)], [(1, 0)]], [-1]),
        ([[(1, 0)], [(1, -1)]], [0]),
        ([[(1, 0)], [(1, -1)]], [-1]),
        ([[(1, 0, 3)], [(1, 0)]], [0]),         # 3-tuple
        ([[(1,)], [(1, 0)]], [0]),              # 1-tuple
        ([[1, 2], [(1, 0)]], [0]),              # not tuples
        ([None, [(1, 0)]], [0]),                # state without list
        ([(1, 0), (1, 0)], [0]),                # tuple instead of list
        ([[(1, [0])], [(1, 0)]], [0]),          # unhashable successor
        ([[(1, "x")], [(1, 0)]], [0]),          # str successor
        ([[(1, "x")], [(1, 0)]], ["x"]),
        ([[(1, None)], [(1, 0)]], [0]),
        ([[(1, 0)], [(1, 0)]], [[0]]),          # unhashable final
        ([[(1, 0)], [(1, 0)]], None),
        ([[(1, 0)], [(1, 0)]], 0),
        (None, [0]),
        (5, [0]),
        ("ab", [0]),
        ({0: [(1, 0)]}, [0]),
        ([["ab", "cd"]], [0]),                  # 2-char strings unpack like pairs
        ([[("a", 0.5)], [(1, 0)]], [0]),
        ([[("a", 0.5)], [(1, 0)]], [0.5]),
    ]


def tuple_list_inputs():
    cases = [
        [], [(1, 99), (1, 98), (2, 97), (2, 96), (3, 95), (1, 90)],
        [(0, 0)], [(0, 0), (0, 0)], [(3, 1), (2, 1), (3, 2), (1, 3)],
        [("a", 1), ("b", 2), ("a", 3)], [(1, 2), (1.0, 3), (True, 4)],
        [[1, 2], [1, 3]], [(1, 2, 3), (1, 4, 5)], ((1, 2), (2, 3)),
        ["ab", "ac"], [(None, 1), (None, 2)],
    ]
    rng = random.Random(77)
    for _ in range(200):
        cases.append([(rng.randrange(8), rng.randrange(8)) for _ in range(rng.randint(0, 25))])
    return cases


def malformed_tuple_list_inputs():
    return [[(1,)], [()], [(1, 2), (3,)], [([1], 2)], [1, 2], None, 5, [None],
            [(1, 2), ([], 3)], [{1: 2}], [{0: "a", 1: "b"}]]


def missing_state_inputs():
    cases = [({}, 0), ({}, 3), ({0: [1]}, 3), ({2: [0], 0: [2]}, 3), ({5: [1]}, 2),
             ({0: [], 1: [], 2: []}, 3), ({1: [1]}, 0), ({1: [1]}, -2), ({True: [9]}, 2),
             ({1.0: [9]}, 2), ({"a": [1]}, 1)]
    rng = random.Random(5)
    for _ in range(150):
        keys = rng.sample(range(12), rng.randint(0, 8))
        table = {key: [rng.randrange(12) for _ in range(rng.randint(0, 3))] for key in keys}
        cases.append((table, rng.randint(0, 14)))
    return cases


def search_from_inputs():
    """(state, reversed table, visited) triples for reverse_dfs_from."""
    cases = [
        (0, {0: []}, set()), (0, {0: []}, {0}), (0, {0: [0]}, set()),
        (2, {0: [], 1: [0], 2: [1, 1, 0]}, set()), (2, {0: [], 1: [0], 2: [1]}, {1}),
        (2, {0: [], 1: [0], 2: [1]}, {2}), (1, {0: [1], 1: [0]}, set()),
        (3, {0: [], 1: [0]}, set()),             # missing key -> KeyError
        (1, {1: [4], 0: []}, set()),             # predecessor without entry -> KeyError
        (1, {1: [0, 4, 2], 0: [], 2: [0]}, set()),
        (0, {0: [[1]]}, set()),                  # unhashable predecessor
        (0, {0: None}, set()), (0, None, set()), (0, {0: 5}, set()),
        (0, [[1], [2], []], set()),              # list used as table
    ]
    rng = random.Random(99)
    for _ in range(250):
        n_states = rng.randint(1, 15)
        table = {state: [rng.randrange(n_states) for _ in range(rng.randint(0, 3))]
                 for state in range(n_states)}
        visited = set(rng.sample(range(n_states), rng.randint(0, n_states // 2)))
        cases.append((rng.randrange(n_states), table, visited))
    return cases


def solver_inputs():
    """A few complete games: reverse_dfs as used by the solver (tad.py)."""
    p1, p2, pr = "Player 1", "Player 2", "Probabilistic"
    games = [
        dict(rewards=[0, 0, 100, 1, 0, 0, 0], players=[p2, pr, pr, p1, pr, pr, pr],
             transition_list=[[("beta", 1), ("alfa", 2)], [(1 / 4, 4), (3 / 4, 3)],
                              [(1 / 2, 5), (1 / 2, 6)], [("delta", 4), ("gamma", 5)],
                              [(1, 4)], [(1, 5)], [(1, 6)]], final_states=[5]),
        dict(rewards=[0, 2, 5 / 3, 0, 0, 0, 0, 0], players=[p1, p2, p2, pr, pr, pr, pr, pr],
             transition_list=[[("alfa", 1), ("beta", 2)], [(" ", 3)], [(" ", 4)],
                              [(0.5, 5), (0.5, 6)], [(0.75, 6), (0.25, 7)],
                              [(1, 5)], [(1, 6)], [(1, 7)]], final_states=[6]),
        dict(rewards=[1, 0, 0], players=[pr, pr, pr],
             transition_list=[[(1, 1)], [(1, 1)], [(1, 2)]], final_states=[2]),
    ]
    rng = random.Random(4242)
    for _ in range(60):
        n_states = rng.randint(3, 9)
        players, transition_list, rewards = [], [], []
        for state in range(n_states):
            if state >= n_states - 2:           # absorbing tail
                players.append(pr)
                transition_list.append([(1, state)])
                rewards.append(0)
                continue
            player = rng.choice([p1, p2, pr])
            targets = [rng.randrange(state + 1, n_states) for _ in range(rng.randint(1, 3))]
            if player == pr:
                transitions = [(1 / len(targets), target) for target in targets]
            else:
                transitions = [(f"act{i}", target) for i, target in enumerate(targets)]
            players.append(player)
            transition_list.append(transitions)
            rewards.append(rng.randint(0, 5))
        games.append(dict(rewards=rewards, players=players, transition_list=transition_list,
                          final_states=[n_states - 1]))
    return games


def worker(root):
    sys.path.insert(0, root)
    sys.setrecursionlimit(1000)
    import reverse_dfs as module
    assert os.path.dirname(os.path.abspath(module.__file__)) == os.path.abspath(root)

    observations = []

    def observe(label, function, *args):
        observations.append([label, _call(function, *copy.deepcopy(args))])

    for index, (transition_list, final_states) in enumerate(graph_inputs() + malformed_inputs()):
        observe(f"graph[{index}].core", module.reverse_transition_list_core, transition_list)
        observe(f"graph[{index}].table", module.reverse_transition_list, transition_list)
        observe(f"graph[{index}].search", module.reverse_dfs, transition_list, final_states)
    for index, tuples in enumerate(tuple_list_inputs() + malformed_tuple_list_inputs()):
        observe(f"tuples[{index}]", module.list_of_tuples_to_dict_of_lists, tuples)
    for index, (table, number_of_states) in enumerate(missing_state_inputs()):
        observe(f"missing[{index}]", module.add_missing_states, table, number_of_states)
        table_copy = copy.deepcopy(table)
        try:
            same = module.add_missing_states(table_copy, number_of_states) is table_copy
            observations.append([f"missing[{index}].identity", str(same)])
        except Exception as error:  # noqa: BLE001
            observations.append([f"missing[{index}].identity", type(error).__name__])
    for index, (state, table, visited) in enumerate(search_from_inputs()):
        observe(f"from[{index}]", module.reverse_dfs_from, state, table, visited)

    # type of the results (tests assert exact types)
    observations.append(["types", " ".join([
        type(module.reverse_transition_list_core([[(1, 0)]])).__name__,
        type(module.list_of_tuples_to_dict_of_lists([(0, 0)])).__name__,
        type(module.reverse_transition_list([[(1, 0)]])).__name__,
        type(module.reverse_transition_list([[(1, 0)]])[0]).__name__,
        type(module.reverse_dfs([[(1, 0)]], [0])).__name__])])

    # lists in the table must be independent objects
    table = module.reverse_transition_list([[(1, 1)], [(1, 1)], [], []])
    table[2].append(77)
    observations.append(["independent lists", _show(table)])

    import tad
    for index, game in enumerate(solver_inputs()):
        for prune in (True, False):
            description = copy.deepcopy(game)
            observe(f"solve[{index}][{prune}]",
                    lambda d, p: tad.StochasticGame(prune_states=p, **d).solve(),
                    description, prune)
    json.dump(observations, sys.stdout)


# --------------------------------------------------------------------------- #
# parent
# --------------------------------------------------------------------------- #
def run_worker(root):
    env = dict(os.environ, PYTHONHASHSEED="0", PYTHONDONTWRITEBYTECODE="1")
    completed = subprocess.run(
        [sys.executable, os.path.abspath(__file__), "--worker", os.path.abspath(root)],
        capture_output=True, text=True, env=env, timeout=1800)
    if completed.returncode != 0:
        print(f"worker for {root} failed:\n{completed.stderr[-3000:]}")
        sys.exit(1)
    return json.loads(completed.stdout)


def main():
    if len(sys.argv) == 3 and sys.argv[1] == "--worker":
        worker(sys.argv[2])
        return
    if len(sys.argv) != 3:
        print(__doc__)
        sys.exit(2)
    first, second = run_worker(sys.argv[1]), run_worker(sys.argv[2])
    for (label_a, value_a), (label_b, value_b) in zip(first, second):
        if label_a != label_b or value_a != value_b:
            print(f"DIFFERENT at {label_a} / {label_b}:\n  A: {value_a[:2000]}\n  B: {value_b[:2000]}")
            sys.exit(1)
    if len(first) != len(second):
        print(f"DIFFERENT number of observations: {len(first)} vs {len(second)}")
        sys.exit(1)
    print("SAME")


if __name__ == "__main__":
    main()
